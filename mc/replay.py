#!/venv/bin/python
"""Replay one recorded counterexample without the explorer.

    /venv/bin/python /verif/mc/replay.py /verif/replays/C19/C19_xxxx.json

Stages /repo's working tree, executes exactly the recorded case (input
vector / operation sequence / environment answers) once, prints what was
observed and exits 1 if the violation reproduces, 0 if not.
"""
import json
import os
import subprocess
import sys

HERE = os.path.dirname(os.path.abspath(__file__))
PY = "/venv/bin/python"


def inner(path):
    sys.path.insert(0, HERE)
    import importlib
    import core
    with open(path) as f:
        rec = json.load(f)
    mod = importlib.import_module("props." + rec["property"].lower())
    case = rec["case"]
    if hasattr(mod, "decode_case"):
        case = mod.decode_case(case)
    res = core._run_isolated(mod, case, getattr(mod, "TIMEOUT", 120))
    if res.get("outcome") in ("INTERPRETER_TERMINATED", "HANG"):
        res["viol"] = list(res["viol"]) + [{"check": "no-abort",
                                            "msg": res["outcome"]}]
    print("case:", json.dumps(core.jsonable(case))[:2000])
    print("outcome:", res.get("outcome"))
    for v in res["viol"]:
        print("violation check=%s: %s" % (v["check"], v.get("msg")))
        for k in ("obs", "exp", "tb"):
            if k in v:
                print("   %s: %s" % (k, str(v[k])[:1500]))
    if not res["viol"]:
        print("no violation reproduced")
    return 1 if res["viol"] else 0


def main():
    if len(sys.argv) >= 3 and sys.argv[1] == "--inner":
        sys.exit(inner(sys.argv[2]))
    path = os.path.abspath(sys.argv[1])
    sys.path.insert(0, HERE)
    import stage
    sdir = stage.stage(verbose=True)
    env = dict(os.environ)
    env.update({"PYTHONPATH": sdir + os.pathsep + HERE,
                "PYTHONHASHSEED": "0", "OMP_NUM_THREADS": "1",
                "OPENBLAS_NUM_THREADS": "1", "MKL_NUM_THREADS": "1",
                "MPLBACKEND": "Agg", "PYTHONWARNINGS": "ignore",
                "HOLOPY_VERIF_STAGE": sdir, "TMPDIR": sdir})
    try:
        rc = subprocess.call([PY, os.path.abspath(__file__), "--inner", path],
                             env=env, cwd=sdir)
    finally:
        stage.cleanup(sdir)
    sys.exit(rc)


if __name__ == "__main__":
    main()

#!/venv/bin/python
"""setup_cmd: verify the offline toolchain and warm the build cache.
Builds the four Fortran extensions from /repo's working tree, imports the
staged copy, runs one call of each compiled solver, removes the stage."""
import os
import shutil
import subprocess
import sys

HERE = os.path.dirname(os.path.abspath(__file__))
sys.path.insert(0, HERE)
import stage  # noqa


def main():
    for tool in ("gcc", "gfortran"):
        if not shutil.which(tool):
            print("missing tool: " + tool)
            return 1
    sdir = stage.stage(verbose=True)
    try:
        env = dict(os.environ, PYTHONPATH=sdir, OMP_NUM_THREADS="1",
                   PYTHONWARNINGS="ignore", MPLBACKEND="Agg")
        code = (
            "import holopy as hp\n"
            "from holopy.scattering import *\n"
            "d=hp.detector_grid(3,.1)\n"
            "s=Sphere(n=1.59,r=.5,center=(0,0,5))\n"
            "for t in (Mie(),Tmatrix()):\n"
            "    calc_holo(d,s,1.33,.66,(1,0),theory=t)\n"
            "calc_holo(d,Spheres([s]),1.33,.66,(1,0),theory=Multisphere())\n"
            "print('selftest ok')\n")
        r = subprocess.run(["/venv/bin/python", "-c", code], env=env,
                           cwd=sdir, capture_output=True, text=True)
        print(r.stdout[-500:], r.stderr[-2000:])
        return 0 if "selftest ok" in r.stdout else 1
    finally:
        stage.cleanup(sdir)


if __name__ == "__main__":
    sys.exit(main())

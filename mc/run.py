#!/venv/bin/python
"""Entry point of every check.

    /venv/bin/python /verif/mc/run.py --property C19 --tier quick

1. stage /repo's working tree (python sources + freshly built Fortran
   extensions) into a private scratch directory outside /repo and /verif,
2. re-exec under that tree with a pinned environment,
3. explore, decide, write evidence, print VIOLATION / KNOWN-FINDING lines,
4. remove the stage directory.
exit 0: property held on everything explored; 1: violation; 2: cannot decide
(build failure / harness error) -- never reported as a violation.
"""
import argparse
import os
import signal
import subprocess
import sys

HERE = os.path.dirname(os.path.abspath(__file__))
PY = "/venv/bin/python"


def main():
    ap = argparse.ArgumentParser()
    ap.add_argument("--property", required=True)
    ap.add_argument("--tier", default=os.environ.get("VERIF_TIER", "quick"),
                    choices=["quick", "thorough"])
    ap.add_argument("--case", default=None,
                    help="run only the case with this id (no evidence)")
    ap.add_argument("--workers", type=int, default=0)
    ap.add_argument("--inner", default=None, help=argparse.SUPPRESS)
    a = ap.parse_args()
    try:
        seed = int(os.environ.get("VERIF_SEED", "0"))
    except ValueError:
        seed = 0

    if a.inner:
        sys.path.insert(0, HERE)
        import core
        try:
            rc = core.drive(a.property.upper(), a.tier, seed, a.inner,
                            only_case=a.case, nworkers=a.workers or None)
        except Exception:
            # a failure of the machinery itself is "cannot decide" (exit 2),
            # never a violation
            import traceback
            traceback.print_exc()
            print("HARNESS-ERROR (cannot decide)", file=sys.stderr)
            rc = 2
        sys.exit(rc)

    sys.path.insert(0, HERE)
    import stage
    try:
        sdir = stage.stage(verbose=True)
    except Exception as e:
        print("BUILD-FAILURE (cannot decide): %s" % e, file=sys.stderr)
        sys.exit(2)

    def _cleanup(*_):
        stage.cleanup(sdir)
        sys.exit(2)
    signal.signal(signal.SIGTERM, _cleanup)
    env = dict(os.environ)
    env.update({
        "PYTHONPATH": sdir + os.pathsep + HERE,
        "PYTHONHASHSEED": "0",
        "OMP_NUM_THREADS": "1", "OPENBLAS_NUM_THREADS": "1",
        "MKL_NUM_THREADS": "1", "NUMEXPR_NUM_THREADS": "1",
        "MPLBACKEND": "Agg",
        "PYTHONWARNINGS": "ignore",
        "HOLOPY_VERIF_STAGE": sdir,
        "TMPDIR": sdir,
    })
    try:
        cmd = [PY, os.path.abspath(__file__), "--property", a.property,
               "--tier", a.tier, "--inner", sdir]
        if a.case:
            cmd += ["--case", a.case]
        if a.workers:
            cmd += ["--workers", str(a.workers)]
        rc = subprocess.call(cmd, env=env, cwd=sdir)
    finally:
        stage.cleanup(sdir)
    sys.exit(rc)


if __name__ == "__main__":
    main()

"""Small helpers shared by the property modules (no holopy import at top)."""
import hashlib
import itertools
import math

import numpy as np


# ---- enumeration ----------------------------------------------------------
def deviations(axes, D):
    """All vectors over `axes` (dict name -> ordered alphabet, element 0 is
    the default) that differ from the default vector in at most D axes, in
    order of increasing number of deviations.  D >= len(axes) is the full
    product.  Yields dict name -> value-index."""
    names = list(axes)
    n = len(names)
    D = min(D, n)
    for d in range(D + 1):
        for which in itertools.combinations(range(n), d):
            alts = [range(1, len(axes[names[i]])) for i in which]
            for combo in itertools.product(*alts):
                vec = {nm: 0 for nm in names}
                for i, a in zip(which, combo):
                    vec[names[i]] = a
                yield vec


def vec_id(vec):
    return ",".join("%s=%s" % (k, v) for k, v in vec.items())


def pick(axes, vec):
    return {k: axes[k][i] for k, i in vec.items()}


# ---- numeric comparison ---------------------------------------------------
def ulp_diff(a, b):
    """max |a-b| in units of ulp(max(|a|,|b|)) elementwise; inf if NaN
    mismatch."""
    a = np.asarray(a, dtype=float)
    b = np.asarray(b, dtype=float)
    if a.shape != b.shape:
        return float("inf")
    if a.size == 0:
        return 0.0
    na, nb = np.isnan(a), np.isnan(b)
    if (na != nb).any():
        return float("inf")
    m = ~na
    if not m.any():
        return 0.0
    aa, bb = a[m], b[m]
    inf_mismatch = np.isinf(aa) | np.isinf(bb)
    if (aa[inf_mismatch] != bb[inf_mismatch]).any():
        return float("inf")
    aa, bb = aa[~inf_mismatch], bb[~inf_mismatch]
    if aa.size == 0:
        return 0.0
    scale = np.spacing(np.maximum(np.abs(aa), np.abs(bb)))
    scale = np.where(scale == 0, np.finfo(float).tiny, scale)
    return float(np.max(np.abs(aa - bb) / scale))


def rel_err(a, b, scale=None):
    """max|a-b| / scale, scale defaults to max|b| (or 1 if b == 0)."""
    a = np.asarray(a)
    b = np.asarray(b)
    if a.shape != b.shape:
        return float("inf")
    if a.size == 0:
        return 0.0
    if not (np.all(np.isfinite(a)) and np.all(np.isfinite(b))):
        if np.array_equal(a, b, equal_nan=True):
            return 0.0
        return float("inf")
    if scale is None:
        scale = float(np.max(np.abs(b)))
        if scale == 0:
            scale = 1.0
    return float(np.max(np.abs(a - b)) / scale)


def bits_equal(a, b):
    a = np.asarray(a)
    b = np.asarray(b)
    if a.shape != b.shape or a.dtype != b.dtype:
        return False
    return a.tobytes() == b.tobytes()


# ---- fingerprints ---------------------------------------------------------
def digest(*parts):
    h = hashlib.blake2b(digest_size=12)
    for p in parts:
        if isinstance(p, np.ndarray):
            h.update(str(p.dtype).encode())
            h.update(str(p.shape).encode())
            h.update(np.ascontiguousarray(p).tobytes())
        else:
            h.update(repr(p).encode())
        h.update(b"|")
    return h.hexdigest()


def fp_values(arr, digits=9):
    """coarse fingerprint of a numeric result: used only to count distinct
    outcomes (vacuity guard), never to decide."""
    a = np.asarray(arr)
    if a.dtype.kind == "c":
        a = np.concatenate([a.real.ravel(), a.imag.ravel()])
    a = np.asarray(a, dtype=float).ravel()
    with np.errstate(all="ignore"):
        r = np.array([float("%.*e" % (digits, v)) if np.isfinite(v) else v
                      for v in a[:64]])
    return digest(r, a.shape)


def fp_xarray(x):
    """exact fingerprint of an xarray.DataArray: values, dtype, dims,
    coordinates, attrs, name."""
    import xarray as xr
    parts = [np.asarray(x.values), tuple(x.dims), x.name]
    for k in sorted(x.coords, key=str):
        c = x.coords[k]
        try:
            vals = np.asarray(c.values)
            if vals.dtype == object:
                vals = np.array([repr(v) for v in vals.ravel()])
        except Exception:
            vals = repr(c)
        parts.append((str(k), tuple(c.dims)))
        parts.append(vals)
    for k in sorted(x.attrs, key=str):
        v = x.attrs[k]
        parts.append(str(k))
        if isinstance(v, xr.DataArray):
            parts.append(fp_xarray(v))
        elif isinstance(v, np.ndarray):
            parts.append(v)
        else:
            parts.append(repr(v))
    return digest(*parts)


def V(check, msg, **kw):
    d = {"check": check, "msg": msg}
    d.update(kw)
    return d


class Checker:
    """collects violations + metrics for one case."""

    def __init__(self):
        self.viol = []
        self.metrics = {}
        self.trans = 0

    def metric(self, name, val):
        try:
            val = float(val)
        except (TypeError, ValueError):
            return
        if val != val:
            val = float("inf")
        if name not in self.metrics or val > self.metrics[name]:
            self.metrics[name] = val

    def close(self, check, a, b, tol, scale=None, what=""):
        """|a-b| <= tol*scale; records metric; returns bool"""
        e = rel_err(a, b, scale)
        self.metric(check, e)
        if not (e <= tol):
            self.viol.append(V(check, "%s: discrepancy %.3e > tol %.1e" %
                               (what, e, tol), obs=_short(a), exp=_short(b)))
            return False
        return True

    def ulps(self, check, a, b, k, what=""):
        e = ulp_diff(a, b)
        self.metric(check, e)
        if not (e <= k):
            self.viol.append(V(check, "%s: %.3g ulp > %g" % (what, e, k),
                               obs=_short(a), exp=_short(b)))
            return False
        return True

    def same_bits(self, check, a, b, what=""):
        ok = bits_equal(np.asarray(a), np.asarray(b))
        if not ok:
            self.metric(check, rel_err(np.asarray(a, dtype=complex),
                                       np.asarray(b, dtype=complex))
                        if np.shape(a) == np.shape(b) else float("inf"))
            self.viol.append(V(check, "%s: not bit-identical" % what,
                               obs=_short(a), exp=_short(b)))
        else:
            self.metric(check, 0.0)
        return ok

    def true(self, check, cond, msg="", **kw):
        if not cond:
            self.viol.append(V(check, msg, **kw))
        return bool(cond)

    def result(self, fp=None, outcome="ok", nontrivial=True):
        return {"viol": self.viol, "metrics": self.metrics,
                "trans": max(self.trans, 1), "fp": fp, "outcome": outcome,
                "nontrivial": nontrivial}


def _short(a, n=8):
    try:
        arr = np.asarray(a)
        if arr.size > n:
            return repr(arr.ravel()[:n].tolist()) + "...(%d)" % arr.size
        return repr(arr.tolist())
    except Exception:
        return repr(a)[:300]


# ---- elementary rotations (reference model, independent of holopy) --------
def Rz(a):
    c, s = math.cos(a), math.sin(a)
    return np.array([[c, -s, 0.0], [s, c, 0.0], [0.0, 0.0, 1.0]])


def Ry(a):
    c, s = math.cos(a), math.sin(a)
    return np.array([[c, 0.0, s], [0.0, 1.0, 0.0], [-s, 0.0, c]])


def euler_zyz(alpha, beta, gamma):
    return Rz(gamma) @ Ry(beta) @ Rz(alpha)


# ---- pristine-process execution -------------------------------------------
def fork_call(fn, *args, timeout=300):
    """Run fn(*args) in a forked child of the *current* process state and
    return its (picklable) result.  Used to obtain the result an operation
    gives as the first call of a pristine interpreter: call this before the
    calling process has executed any operation itself.  Returns
    ("ok", value) | ("died", wait-status) | ("exc", repr)."""
    import os
    import pickle
    import select
    import signal
    import time
    r, w = os.pipe()
    pid = os.fork()
    if pid == 0:
        try:
            os.close(r)
            try:
                out = ("ok", fn(*args))
            except BaseException as e:          # noqa
                out = ("exc", "%s: %s" % (type(e).__name__, e))
            with os.fdopen(w, "wb") as f:
                f.write(pickle.dumps(out, protocol=4))
        finally:
            os._exit(0)
    os.close(w)
    chunks = []
    deadline = time.time() + timeout
    with os.fdopen(r, "rb") as f:
        while True:
            left = deadline - time.time()
            if left <= 0:
                os.kill(pid, signal.SIGKILL)
                os.waitpid(pid, 0)
                return ("died", "timeout")
            rl, _, _ = select.select([f], [], [], min(left, 1.0))
            if rl:
                b = os.read(f.fileno(), 1 << 20)
                if not b:
                    break
                chunks.append(b)
    _, status = os.waitpid(pid, 0)
    data = b"".join(chunks)
    if not data:
        return ("died", status)
    return pickle.loads(data)


# --------------------------------------------------------------------------
# operation-sequence (history) search shared by the property modules
# --------------------------------------------------------------------------
def history_refs(op_digest, names, timeout=300):
    """digest of every operation executed as the first call of a pristine
    interpreter (forked from the caller, which must not have run anything)"""
    refs = {}
    for name in names:
        st, val = fork_call(op_digest, name, timeout=timeout)
        refs[name] = val if st == "ok" else "FAILED:%s:%r" % (st, val)
    return refs


def history_seqs(ops, core=None, depth=3):
    """every sequence of length <= 2 over ops, and of length 3..depth over
    `core` (default: all of ops)"""
    import itertools
    core = list(ops) if core is None else list(core)
    seqs = [[o] for o in ops] + [list(s) for s in
                                 itertools.product(ops, repeat=2)]
    for L in range(3, depth + 1):
        seqs += [list(s) for s in itertools.product(core, repeat=L)]
    return seqs


def history_cases(prefix, refs, seqs, **extra):
    out = []
    for seq in seqs:
        c = {"id": "%s:%s" % (prefix, ">".join(seq)), "kind": prefix,
             "seq": seq, "ref": {o: refs[o] for o in seq}}
        c.update(extra)
        out.append(c)
    return out


def run_history(ck, case, op_digest, inputs_fp=None, check="history"):
    """every step of case['seq'], run in this one interpreter, must give the
    digest the same operation gives in a pristine interpreter, and must leave
    the objects shared between the operations as they were"""
    seq, ref = case["seq"], case["ref"]
    for name in seq:
        if str(ref[name]).startswith("FAILED"):
            ck.true(check + "-pristine-reference", False,
                    "operation %s failed as the first call of a pristine "
                    "interpreter: %s" % (name, ref[name]))
            return "ref-failed"
    before = inputs_fp() if inputs_fp else None
    outs = []
    for i, name in enumerate(seq):
        try:
            got = op_digest(name)
        except Exception as e:                  # noqa
            got = "RAISED:%s: %s" % (type(e).__name__, str(e)[:200])
        ck.trans += 1
        ck.true(check + "-independent", got == ref[name],
                "step %d (%s) of %s differs from the same call as the first "
                "call of an interpreter%s" % (
                    i + 1, name, ">".join(seq),
                    " (%s)" % got if str(got).startswith("RAISED") else ""))
        if inputs_fp:
            ck.true(check + "-input-untouched", inputs_fp() == before,
                    "an object shared between the operations was modified "
                    "by step %d (%s)" % (i + 1, name))
        outs.append(got)
    return digest(*outs)


def pair_ladder(ck, names, fn, check, tol=1e-9, timeout=600):
    """fn(name) -> list of floats.  Every operation alone in a pristine
    interpreter (forked from the caller), then every ordered pair (a, b), a
    = b included, and the whole ladder up and down, each in its own fork:
    the values of each step must equal those of the same operation alone
    (relative to its largest value).  Returns a fingerprint."""
    import numpy as np
    refs = {}
    for n in names:
        st, val = fork_call(fn, n, timeout=timeout)
        refs[n] = np.array(val, dtype=float) if st == "ok" else None
        ck.true(check + ":alone", st == "ok", "%s alone: %s %r" %
                (n, st, val if st != "ok" else ""))

    def walk(seq):
        return [fn(n) for n in seq]
    seqs = [[a, b] for a in names for b in names]
    seqs += [list(names), list(reversed(names)),
             list(names) + list(reversed(names))]
    worst = 0.0
    for seq in seqs:
        st, val = fork_call(walk, seq, timeout=timeout)
        ck.trans += len(seq)
        if st != "ok":
            ck.true(check, False, "sequence %s: %s %r" %
                    (">".join(seq), st, val))
            continue
        for i, (n, got) in enumerate(zip(seq, val)):
            if refs[n] is None:
                continue
            got = np.array(got, dtype=float)
            if got.shape != refs[n].shape:
                e = float("inf")
            else:
                e = float(np.abs(got - refs[n]).max() /
                          (np.abs(refs[n]).max() or 1.0))
            worst = max(worst, e if e != float("inf") else 0.0)
            ck.true(check, e <= tol, "%s as step %d of %s differs by %.2e "
                    "from %s computed first in an interpreter" %
                    (n, i + 1, ">".join(seq), e, n))
    ck.metric(check, worst)
    return digest(*[np.round(refs[n], 9) for n in names
                    if refs[n] is not None])

"""C15 -- HoloPy objects survive save -> load unchanged.

Bounded-exhaustive over the *object grammar*: every class exported by
holopy.scattering, holopy.scattering.scatterer, holopy.scattering.theory,
holopy.inference and holopy.inference.prior that derives from HoloPyObject is
discovered by introspection; per constructor argument an explicit alphabet by
argument kind (reals incl. extreme magnitudes and -0.0, int, complex, numpy
scalars, vectors as list / tuple / ndarray, priors of every kind, nested
objects, dicts, explicit None) is enumerated: every label of every argument
in a single-deviation sweep from the base vector, the full product of the core
labels for classes with <= 3 arguments, and all vectors of core labels with
<= D deviations from the base vector for wider classes and models.  Every
object goes through every target (file name, open binary stream, yaml.dump /
yaml.load with the library's loader) for 1..3 consecutive save/load cycles;
base objects additionally through every mixed sequence of targets of length
<= 3, single deviations of the core through those of length 2.

Oracle (no expected values written by hand -- only relations the property
states): canonical form of the reloaded object (class name + every __init__
argument read back with getattr, sequences -> lists, numpy scalars -> python)
equals that of the original; the text is a fix-point; `loaded == original`
whenever the arguments were lists / scalars; a reloaded model has the same
parameter names, priors, ties and value-to-place mapping.
"""
import inspect
import itertools
import os
import shutil
import tempfile
import warnings

import numpy as np

from lib import Checker, digest

PROPERTY = "C15"
RULE = ("cases = blocks of constructor-argument vectors per discovered "
        "HoloPyObject class: every label of every argument alphabet as a "
        "single deviation from the base vector; full product of the core "
        "labels (quick core / thorough core) for classes with <= 3 arguments;"
        " every vector of core labels with <= D deviations (D = 2 quick / 3 "
        "thorough) for wider classes and for models (arguments + 0..2 ties "
        "through add_tie); each object x {file, stream, yaml} x cycles 1..3, "
        "base objects x every target sequence of length <= 3, core single "
        "deviations x every sequence of length 2; a case is non-trivial when "
        "the fingerprint of the texts it produced differs from other cases'")
ASSUMPTIONS = [
    "random sampling of constructor arguments is replaced by explicit "
    "alphabets per argument kind; values outside the alphabets are not "
    "explored",
    "an argument that cannot be read back with getattr is observed only "
    "through the public instance attributes derived from it (and, for "
    "CmaStrategy, the behaviour of the stored weight function)",
    "arguments omitted by the harness whose default is a tuple count as "
    "'not lists or scalars' for the library-equality clause",
    "result classes (FitResult, SamplingResult, TemperedSamplingResult) are "
    "written as HDF5 by their own _save, not as text: outside this property "
    "(see C13); DDA needs the external adda binary and cannot be built here",
    "function-valued arguments are module-level functions (importable by "
    "name); lambdas / closures have no text form and are not explored",
    "PyYAML's FullLoader (the loader holopy.load uses) and numpy's scalar "
    "conversion are trusted",
]
TOLERANCES = {"all checks": "exact (canonical forms, texts and parameter "
                            "names are compared for identity)"}
TIMEOUT = 600
# complete within the declared alphabets and deviation bound; the product is
# complete only for classes with <= 3 arguments (coverage: per_class)
EXHAUSTIVE = False
MAXBLOCK = 48
MAXVIOL = 30

DISCOVER_MODULES = ["holopy.scattering", "holopy.scattering.scatterer",
                    "holopy.scattering.theory", "holopy.inference",
                    "holopy.inference.prior"]
TARGETS = ["file", "stream", "yaml"]
MODEL_CLASSES = ("AlphaModel", "ExactModel")
SKIP_CLASSES = {
    "FitResult": "written as HDF5 through its own _save (not a text form); "
                 "covered by C13",
    "SamplingResult": "written as HDF5 through its own _save; covered by C13",
    "TemperedSamplingResult": "written as HDF5 through its own _save; "
                              "covered by C13",
}


# --------------------------------------------------------------------------
# module-level functions used as function-valued constructor arguments (the
# text form refers to functions by import name)
# --------------------------------------------------------------------------
def unit_ball(points):
    return (np.asarray(points) ** 2).sum(-1) < 1.0


def half_ball(points):
    p = np.asarray(points)
    return ((p ** 2).sum(-1) < 0.25) & (p[..., 2] > 0)


def custom_weights(x, n):
    return x < n / 2


def custom_next_dist(result):
    return None


def custom_transformation(a, b=1.0):
    return a * b + 1.0


# --------------------------------------------------------------------------
# value registry: label -> (builder of a *fresh* value, plain?)
# plain = built from python/numpy scalars, lists, dicts and objects that are
# themselves built that way (the clause "`==` holds whenever the arguments
# were lists or scalars")
# --------------------------------------------------------------------------
_REG = None
OMIT = "dflt"            # the argument is not passed (constructor default)


def _registry():
    global _REG
    if _REG is not None:
        return _REG
    import holopy.scattering as hs
    import holopy.scattering.scatterer as sc
    import holopy.scattering.theory as th
    import holopy.inference as hi
    from holopy.core.prior import (Uniform, Gaussian, BoundedGaussian,
                                   ComplexPrior, TransformedPrior)
    import operator
    R = {}

    def reg(label, fn, plain=True):
        assert label not in R, label
        R[label] = (fn, plain)

    # ---- scalars ---------------------------------------------------------
    reg("0.5", lambda: 0.5)
    reg("1/3", lambda: 1.0 / 3.0)
    reg("1e-300", lambda: 1e-300)
    reg("1e300", lambda: 1e300)
    reg("-0.0", lambda: -0.0)
    reg("int2", lambda: 2)
    reg("int0", lambda: 0)
    reg("int1", lambda: 1)
    reg("int7", lambda: 7)
    reg("int40", lambda: 40)
    reg("1.5", lambda: 1.5)
    reg("0.25", lambda: 0.25)
    reg("0.75", lambda: 0.75)
    reg("f64", lambda: np.float64(0.7))
    reg("f32", lambda: np.float32(0.1))
    reg("i64", lambda: np.int64(3))
    reg("i32", lambda: np.int32(3))
    reg("f64-lo", lambda: np.float64(0.125))
    reg("f32-lo", lambda: np.float32(0.1))
    reg("f64-hi", lambda: np.float64(0.875))
    reg("f32-hi", lambda: np.float32(0.9))
    reg("f32-mid", lambda: np.float32(0.6))
    reg("inf", lambda: float("inf"))
    reg("-inf", lambda: float("-inf"))
    reg("None", lambda: None)
    reg("True", lambda: True)
    reg("False", lambda: False)
    reg("npTrue", lambda: np.True_)
    reg("npFalse", lambda: np.False_)
    reg("cplx", lambda: 1.5 + 0.1j)
    reg("c128", lambda: np.complex128(1.5 + 0.1j))
    reg("cplx-neg", lambda: 1.5 - 0.1j)
    reg("cplx-negzero", lambda: complex(1.5, -0.0))
    reg("c64-neg", lambda: np.complex64(1.5 - 0.25j))
    reg("str:par", lambda: "par")
    reg("str:odd", lambda: "r.0:x y")
    reg("str:num", lambda: "1e3")
    reg("str:auto", lambda: "auto")
    reg("str:mpi", lambda: "mpi")

    # ---- priors ----------------------------------------------------------
    def U(lo=1.0, hi=2.0, **kw):
        return Uniform(lo, hi, **kw)

    def G():
        return Gaussian(1.5, 0.1)

    reg("P:U", lambda: U())
    reg("P:U-int", lambda: Uniform(0, 1))
    reg("P:U-named", lambda: Uniform(0.25, 0.75, guess=0.3, name="par"))
    reg("P:U-inf", lambda: Uniform(-np.inf, np.inf))
    reg("P:U-huge", lambda: Uniform(-1e308, 1e308))
    reg("P:U-huge-same", lambda: Uniform(1e307, 1.5e308))
    reg("P:G", G)
    reg("P:G-named", lambda: Gaussian(0.5, 0.25, name="g"))
    reg("P:BG", lambda: BoundedGaussian(1.5, 0.1, 1.0, 2.0, name="bg"))
    reg("P:BG-open", lambda: BoundedGaussian(1.5, 0.1))
    reg("P:CP", lambda: ComplexPrior(U(1.4, 1.6), 0.01))
    reg("P:CP2", lambda: ComplexPrior(U(1.4, 1.6), Gaussian(0.05, 0.01),
                                      name="idx"))
    reg("P:add", lambda: U() + 0.5)
    reg("P:mul", lambda: 2 * U())
    reg("P:sub", lambda: 3 - U())
    reg("P:neg", lambda: -U())
    reg("P:div", lambda: U() / 4)
    reg("P:rdiv", lambda: 1 / U())
    reg("P:pow", lambda: U() ** 2)
    reg("P:rpow", lambda: 2 ** U())
    reg("P:addP", lambda: U() + G())
    reg("P:sqrt", lambda: np.sqrt(U()))
    reg("P:max", lambda: np.maximum(U(), G()))
    reg("P:sq-shared", lambda: (lambda p: p * p)(U()))
    reg("P:exp-named", lambda: TransformedPrior(np.exp, U(0.0, 1.0),
                                                name="e"))
    reg("P:chain", lambda: np.sqrt(U() * 2 + 1))

    # ---- vectors ---------------------------------------------------------
    def vecs(prefix, base, ext, mk_priors):
        n = len(base)
        reg(prefix + "list", lambda: list(base))
        reg(prefix + "tuple", lambda: tuple(base), False)
        reg(prefix + "arr", lambda: np.array(base), False)
        reg(prefix + "ints", lambda: list(range(1, n + 1)))
        reg(prefix + "ext", lambda: list(ext))
        reg(prefix + "np", lambda: [np.float64(base[0]), np.int64(2)] +
            list(base[2:]))
        reg(prefix + "f32", lambda: [np.float32(0.1)] + list(base[1:]))
        reg(prefix + "arr-f32", lambda: np.array(base, dtype=np.float32),
            False)
        reg(prefix + "arr-int", lambda: np.arange(1, n + 1), False)
        reg(prefix + "priors", lambda: list(mk_priors()))
        reg(prefix + "tuple-priors", lambda: tuple(mk_priors()), False)
        reg(prefix + "shared", lambda: (lambda p: [p, p] + list(base[2:]))(
            U(0.0, 1.0)))
        reg(prefix + "objarr",
            lambda: np.array(list(mk_priors()), dtype=object), False)

    vecs("V3:", [1.0, -2.0, 3.0], [1e-300, -0.0, 1e300],
         lambda: [U(0.0, 1.0), 2.0, Gaussian(3.0, 0.5)])
    vecs("V2:", [0.5, 0.75], [1e-300, 1e300],
         lambda: [U(0.25, 0.5), Gaussian(0.75, 0.1)])
    vecs("N2:", [1.5, 1.6], [1e-300, 1e300],
         lambda: [U(1.4, 1.6), 1.6])
    reg("N2:cplx", lambda: [1.5 + 0.1j, 1.6])
    reg("N2:arr-c128", lambda: np.array([1.5 + 0.1j, 1.6]), False)
    reg("N2:c128", lambda: [np.complex128(1.5 + 0.1j), 1.6])
    reg("N2:cprior", lambda: [ComplexPrior(U(1.4, 1.6), 0.01), 1.6])
    reg("N2:list-0d", lambda: [np.array(1.5 + 0.1j), np.array(1.6)], False)
    reg("wip:arr", lambda: np.arange(8.0).reshape(4, 2) / 4, False)
    reg("wip:list", lambda: [[0.0, 0.25], [0.5, 0.75]])
    # arrays with a degenerate axis (one-parameter models, a single walker)
    reg("wip:col", lambda: np.arange(4.0).reshape(4, 1) / 4, False)
    reg("wip:row", lambda: np.arange(1.0, 4.0).reshape(1, 3) / 4, False)
    reg("wip:1x1", lambda: np.array([[0.625]]), False)
    reg("wip:tuple", lambda: ((0.0, 0.25), (0.5, 0.75)), False)

    # ---- dicts -----------------------------------------------------------
    reg("D:empty", lambda: {})
    reg("D:quad", lambda: {"quad_npts": 50})
    reg("D:full", lambda: {"quad_npts": 50, "interpolate_integrals": False,
                           "interpolator_window_size": 20.0,
                           "interpolator_degree": 16})
    reg("D:np", lambda: {"quad_npts": np.int64(50),
                         "interpolator_window_size": np.float64(20.0)})
    reg("D:f32", lambda: {"interpolator_window_size": np.float32(20.0)})
    reg("D:tols", lambda: {"maxiter": 5, "tolx": 0.01})
    reg("D:tols-np", lambda: {"maxiter": np.int64(5),
                              "tolfun": np.float64(0.5)})

    # ---- scatterers ------------------------------------------------------
    def sph(c=(0.0, 0.0, 0.0), n=1.5, r=0.5):
        return sc.Sphere(n=n, r=r, center=list(c))

    reg("S:a", lambda: sph())
    reg("S:b", lambda: sph((0.0, 0.0, 2.0)))
    reg("S:b-near", lambda: sph((0.0, 0.0, 0.75)))
    reg("S:a-tuple", lambda: sc.Sphere(n=1.5, r=0.5, center=(0.0, 0.0, 0.0)),
        False)
    reg("S:a-cplx", lambda: sph(n=1.5 + 0.1j))
    reg("S:b-cplx", lambda: sph((0.0, 0.0, 2.0), n=1.5 + 0.1j))
    reg("S:a-nNone", lambda: sc.Sphere(n=None, r=0.5, center=[0.0, 0.0, 0.0]))
    reg("S:ell", lambda: sc.Ellipsoid(n=1.5, r=[0.5, 0.75, 1.0],
                                      center=[0.0, 0.0, 1.0],
                                      rotation=[0.0, 0.0, 0.0]))
    reg("S:union", lambda: sc.Union(sph(), sph((0.0, 0.0, 0.5))))
    reg("S:prior", lambda: sc.Sphere(n=U(1.4, 1.6), r=U(0.25, 0.75),
                                     center=[U(0.0, 1.0), 2.0, 3.0]))
    reg("L:two", lambda: [sph(), sph((0.0, 0.0, 2.0))])
    reg("L:empty", lambda: [])
    reg("L:tuple", lambda: (sph(), sph((0.0, 0.0, 2.0))), False)
    reg("L:one", lambda: [sph()])
    reg("L:nested", lambda: [sph(), sc.Scatterers(
        [sph((0.0, 0.0, 2.0)), R["S:ell"][0]()])])
    reg("L:mixed", lambda: [sph(), sc.Cylinder(n=1.5, h=2.0, d=1.0,
                                               center=[0.0, 0.0, 5.0],
                                               rotation=[0.0, 0.5, 0.0]),
                            sc.Union(sph((4.0, 0.0, 0.0)),
                                     sph((4.0, 0.0, 0.5)))])
    reg("L:same-twice", lambda: (lambda s: [s, s])(sph()))
    reg("L:layered", lambda: [sc.Sphere(n=[1.5, 1.6], r=[0.25, 0.5],
                                        center=[0.0, 0.0, 0.0]),
                              sc.LayeredSphere(n=[1.5, 1.6], t=[0.25, 0.25],
                                               center=[0.0, 0.0, 2.0])])
    reg("L:overlap", lambda: [sph(), sph((0.0, 0.0, 0.75))])
    reg("L:priors", lambda: (lambda r: [
        sc.Sphere(n=U(1.4, 1.6), r=r, center=[U(0.0, 1.0), 0.0, 0.0]),
        sc.Sphere(n=1.5, r=r, center=[U(0.0, 1.0), 0.0, 2.0])])(
            U(0.25, 0.75)))
    reg("L:single", lambda: sph())
    reg("Sp:two", lambda: sc.Spheres(R["L:two"][0]()))
    reg("Sp:priors", lambda: sc.Spheres(R["L:priors"][0]()))
    reg("Sp:tuple", lambda: sc.Spheres(R["L:tuple"][0]()), False)
    reg("Sp:three", lambda: sc.Spheres([sph(), sph((0.0, 0.0, 2.0)),
                                        sph((0.0, 3.0, 0.0), r=0.25)]))

    # ---- theories --------------------------------------------------------
    reg("T:Mie", lambda: th.Mie())
    reg("T:Mie-opts", lambda: th.Mie(False, False, 1e-3, 1e-12))
    reg("T:Multisphere", lambda: th.Multisphere())
    reg("T:Multisphere-opts", lambda: th.Multisphere(niter=100, eps=1e-8,
                                                     meth=0))
    reg("T:Tmatrix", lambda: th.Tmatrix())
    reg("T:MieLens", lambda: th.MieLens(lens_angle=0.75))
    reg("T:MieLens-prior", lambda: th.MieLens(lens_angle=U(0.5, 1.0)))
    reg("T:AberratedMieLens-prior", lambda: th.AberratedMieLens(
        spherical_aberration=U(-1.0, 1.0), lens_angle=0.75))
    reg("T:Lens-Mie", lambda: th.Lens(0.75, th.Mie(), 12, 14))
    reg("T:Mie-class", lambda: th.Mie, False)
    reg("T:Lens-Lens", lambda: th.Lens(0.5, th.Lens(0.75, th.Mie(), 6, 6),
                                       6, 6))

    # ---- functions -------------------------------------------------------
    reg("F:unit_ball", lambda: unit_ball)
    reg("F:list1", lambda: [unit_ball])
    reg("F:list2", lambda: [half_ball, unit_ball])
    reg("F:tuple2", lambda: (half_ball, unit_ball), False)
    reg("F:indicators", lambda: sc.Indicators(
        [unit_ball], [[-1.0, 1.0], [-1.0, 1.0], [-1.0, 1.0]]))
    # bound methods of HoloPy objects are written as "!method name of obj"
    reg("F:method", lambda: [sph().contains])
    reg("F:method-ell", lambda: [R["S:ell"][0]().contains])
    reg("B:unit", lambda: [[-1.0, 1.0], [-1.0, 1.0], [-1.0, 1.0]])
    reg("B:tuple", lambda: ((-1.0, 1.0), (-1.0, 1.0), (-1.0, 1.0)), False)
    reg("B:arr", lambda: np.array([[-1.0, 1.0]] * 3), False)
    reg("F:weights", lambda: custom_weights)
    reg("F:next-dist", lambda: custom_next_dist)
    reg("F:calc_holo", lambda: hs.calc_holo)
    reg("F:calc_intensity", lambda: hs.calc_intensity)
    reg("F:calc_field", lambda: hs.calc_field)
    reg("Tr:add", lambda: operator.add)
    reg("Tr:pow", lambda: operator.pow)
    reg("Tr:exp", lambda: np.exp)
    reg("Tr:maximum", lambda: np.maximum)
    reg("Tr:custom", lambda: custom_transformation)
    reg("Tr:complex", lambda: complex)
    # a HoloPy class as a callable: written as "!class module.Name"
    reg("Tr:class", lambda: sc.Sphere)
    reg("BP:single", lambda: U())
    reg("BP:list1", lambda: [U()])
    reg("BP:tuple1", lambda: (U(),), False)
    reg("BP:pair", lambda: [U(), 2.0])
    reg("BP:pair-rev", lambda: [2.0, U()])
    reg("BP:pair-priors", lambda: [U(), G()])
    reg("BP:pair-tuple", lambda: (U(), 2.0), False)
    reg("BP:pair-np", lambda: [U(), np.float64(2.0)])
    reg("BP:pair-f32", lambda: [U(), np.float32(2.0)])
    reg("BP:nested", lambda: [U() + 1, 2.0])
    reg("BP:shared", lambda: (lambda p: [p, p])(U()))

    # ---- model ingredients -----------------------------------------------
    reg("M:sphere", lambda: sc.Sphere(
        n=U(1.4, 1.6), r=U(0.0, 1.0),
        center=[U(0.0, 1.0), U(0.0, 1.0), U(5.0, 10.0)]))
    reg("M:sphere-fixed", lambda: sc.Sphere(n=1.5, r=0.5,
                                            center=[1.0, 2.0, 3.0]))
    reg("M:sphere-cplx", lambda: sc.Sphere(
        n=ComplexPrior(U(1.4, 1.6), U(0.0, 0.1)), r=Gaussian(0.5, 0.1),
        center=[1.0, 2.0, BoundedGaussian(7.0, 1.0, 5.0, 10.0)]))
    reg("M:sphere-derived", lambda: (lambda p: sc.Sphere(
        n=1.5, r=np.sqrt(U(0.25, 1.0)),
        center=[p, p + 1, 2 * U(5.0, 10.0)]))(U(0.0, 1.0)))
    reg("M:sphere-named", lambda: sc.Sphere(
        n=Uniform(1.4, 1.6, name="index"), r=Uniform(0.0, 1.0, name="x"),
        center=[Uniform(0.0, 1.0, name="x"), Uniform(0.0, 1.0), 3.0]))
    reg("M:sphere-tuple", lambda: sc.Sphere(
        n=U(1.4, 1.6), r=U(0.0, 1.0),
        center=(U(0.0, 1.0), U(0.0, 1.0), U(5.0, 10.0))), False)
    reg("M:layered", lambda: sc.Sphere(
        n=[U(1.4, 1.6), U(1.4, 1.6)], r=[U(0.0, 1.0), U(1.0, 2.0)],
        center=[1.0, 2.0, U(5.0, 10.0)]))
    reg("M:spheres", lambda: sc.Spheres([
        sc.Sphere(n=U(1.4, 1.6), r=U(0.25, 0.75),
                  center=[U(0.0, 1.0), 0.0, U(5.0, 10.0)]),
        sc.Sphere(n=U(1.4, 1.6), r=U(0.25, 0.75),
                  center=[U(0.0, 1.0), 3.0, U(5.0, 10.0)])]))
    reg("M:spheres-shared", lambda: (lambda r, z: sc.Spheres([
        sc.Sphere(n=U(1.4, 1.6), r=r, center=[U(0.0, 1.0), 0.0, z]),
        sc.Sphere(n=U(1.4, 1.6), r=r, center=[U(0.0, 1.0), 3.0, z])]))(
            U(0.25, 0.75), U(5.0, 10.0)))
    # more than ten free parameters (two-digit placeholders in the maps)
    reg("M:spheres-wide", lambda: sc.Spheres([
        sc.Sphere(n=U(1.4 + 0.01 * i, 1.6 + 0.01 * i),
                  r=U(0.25, 0.75 + 0.01 * i),
                  center=[U(0.0 + i, 1.0 + i), U(-1.0, 0.5 * i + 1.0),
                          U(5.0, 10.0 + i)])
        for i in range(3)]))
    reg("M:spheroid", lambda: sc.Spheroid(
        n=U(1.4, 1.6), r=[U(0.25, 0.75), U(0.25, 0.75)],
        rotation=[0.0, U(0.0, 1.5), 0.0], center=[1.0, 2.0, U(5.0, 10.0)]))
    reg("O:red-green", lambda: {"red": 0.66, "green": 0.52})
    reg("O:red-green-prior", lambda: {"red": 0.66, "green": U(0.5, 0.55)})
    reg("O:red-green-np", lambda: {"red": np.float64(0.66),
                                   "green": np.float64(0.52)})
    # keys as they come out of an image's channel axis (numpy strings)
    reg("O:red-green-npkeys", lambda: {np.str_("red"): 0.66,
                                       np.str_("green"): 0.52})
    reg("O:pol-dict", lambda: {"red": [1.0, 0.0], "green": [0.0, 1.0]})
    reg("O:pol-list", lambda: [1.0, 0.0])
    reg("O:pol-tuple", lambda: (1, 0), False)
    reg("O:pol-arr", lambda: np.array([0.0, 1.0]), False)
    reg("O:list2", lambda: [0.1, 0.2])

    def xrch(vals):
        import xarray as xr
        return xr.DataArray(vals, dims=["illumination"],
                            coords={"illumination": ["red", "green"]})
    reg("O:xr", lambda: xrch([0.66, 0.52]), False)
    reg("O:xr-prior", lambda: xrch(np.array([U(0.6, 0.7), U(0.5, 0.55)],
                                            dtype=object)), False)
    reg("C:limit", lambda: hi.LimitOverlaps(0.25))
    reg("C:limit-list", lambda: [hi.LimitOverlaps()])
    reg("C:two", lambda: [hi.LimitOverlaps(0.125), hi.LimitOverlaps(0.5)])
    reg("C:empty", lambda: [])
    _REG = R
    return R


# --------------------------------------------------------------------------
# argument alphabets by class and argument (labels; element 0 = base value)
# --------------------------------------------------------------------------
REAL = ["0.5", "1/3", "1e-300", "1e300", "-0.0", "int2", "f64", "f32", "i64"]
POS = ["0.5", "1/3", "1e-300", "1e300", "int2", "f64", "f32", "i64"]
OPT = ["1e-300", "f64", "f32", "int2"]              # numeric option values
CPLX = ["cplx", "c128", "cplx-neg", "cplx-negzero", "c64-neg"]
PRI_R = ["P:U", "P:U-int", "P:U-named", "P:U-inf", "P:U-huge",
         "P:U-huge-same", "P:G", "P:G-named",
         "P:BG", "P:BG-open", "P:add", "P:mul", "P:sub", "P:neg", "P:div",
         "P:rdiv", "P:pow", "P:rpow", "P:addP", "P:sqrt", "P:max",
         "P:sq-shared", "P:exp-named", "P:chain"]
PRI_C = ["P:CP", "P:CP2"]
INDEX = ["1.5"] + POS + CPLX + PRI_R + PRI_C
VEC3 = ["V3:list", "V3:tuple", "V3:arr", "V3:ints", "V3:ext", "V3:np",
        "V3:f32", "V3:arr-f32", "V3:arr-int", "V3:priors",
        "V3:tuple-priors", "V3:shared", "V3:objarr"]
VEC2 = [v.replace("V3:", "V2:") for v in VEC3]
NVEC = [v.replace("V3:", "N2:") for v in VEC3] + [
    "N2:cplx", "N2:arr-c128", "N2:c128", "N2:cprior", "N2:list-0d"]
BOOL = ["True", "False", "npTrue"]
BOOLF = ["False", "True", "npFalse"]
NAME = ["None", "str:par", "str:odd", "str:num"]
INTS = ["int7", "i64", "i32"]
SEED = [OMIT, "None", "int7", "i64", "int0"]
NPIX = [OMIT, "None", "int40", "i64"]
WIP = [OMIT, "None", "wip:arr", "wip:list", "wip:tuple", "wip:col", "wip:row",
       "wip:1x1"]
PARALLEL = [OMIT, "None", "str:auto", "int2", "str:mpi", "i64"]
TOL = [OMIT, "1e-300", "f64", "f32", "int0"]
ROT3 = [OMIT] + VEC3
CENTER = VEC3 + ["None"]
LENSANG = ["0.75", "1/3", "f64", "f32", "int1"]

# label levels.  Every label of an argument's alphabet is explored in the
# single-deviation sweep of that argument (both tiers).  Vectors with two or
# more deviations draw from the quick core (QSET) in the quick tier and from
# QSET | TSET in the thorough tier; one representative of each representer /
# constructor branch is in QSET.
QSET = set("""
0.5 1e-300 -0.0 int2 int0 int1 int7 int40 1.5 0.25 0.75 f64 f32 i64 f32-lo
f32-hi f32-mid inf -inf None True False cplx c128 str:par str:auto
P:U P:G P:BG P:CP P:add P:sqrt
V3:list V3:tuple V3:arr V3:f32 V3:priors V2:list V2:tuple V2:arr V2:f32
V2:priors N2:list N2:tuple N2:arr N2:f32 N2:priors N2:cplx N2:c128
wip:arr wip:list D:empty D:quad D:np D:tols
S:a S:b S:a-tuple S:a-cplx S:b-cplx S:ell L:two L:empty L:tuple L:nested
L:layered L:priors Sp:two Sp:priors Sp:tuple
T:Mie T:Mie-opts T:Multisphere T:Tmatrix T:MieLens T:MieLens-prior
T:Lens-Mie T:Mie-class
F:unit_ball F:list1 F:list2 F:indicators B:unit B:tuple F:weights
F:next-dist F:calc_holo F:calc_intensity Tr:add Tr:exp Tr:maximum Tr:custom
BP:single BP:list1 BP:pair BP:pair-priors BP:pair-f32 BP:nested BP:shared
M:sphere M:sphere-fixed M:sphere-cplx M:sphere-derived M:spheres
M:spheres-shared O:red-green O:red-green-prior O:pol-dict O:pol-list
O:pol-tuple O:list2 O:xr C:limit C:limit-list C:empty
none tie1 tie2 tiex
""".split())
TSET = set("""
1/3 1e300 f64-lo f64-hi npTrue npFalse str:odd
P:U-named P:rdiv P:max P:sq-shared P:CP2
V3:shared V3:ext V2:shared V2:ext N2:shared N2:ext N2:cprior
D:f32 D:full D:tols-np S:b-near S:a-nNone L:mixed L:same-twice Sp:three
T:Multisphere-opts T:AberratedMieLens-prior T:Lens-Lens
F:tuple2 B:arr F:calc_field Tr:pow Tr:class BP:tuple1 BP:pair-tuple BP:pair-np
M:sphere-named M:sphere-tuple M:layered M:spheroid
O:red-green-np O:pol-arr O:xr-prior C:two
""".split())

_ROD = {"n": ["1.5"] + CPLX + ["f32", "P:U", "P:CP", "None"],
        "h": ["int2", "0.5", "f64", "f32", "P:U", "P:sqrt", "None"],
        "d": ["0.5", "int2", "1e-300", "i64", "f32", "P:G", "P:add", "None"],
        "center": CENTER, "rotation": ROT3}
_CSG = {"s1": ["S:a", "S:a-tuple", "S:ell", "S:a-cplx", "S:a-nNone"],
        "s2": ["S:b", "S:b-near", "S:ell", "S:b-cplx"]}

TABLE = {
    # ---- scatterers ------------------------------------------------------
    "Sphere": {"n": INDEX + NVEC + ["None"],
               "r": POS + PRI_R + VEC2, "center": CENTER},
    "LayeredSphere": {"n": NVEC + ["None"], "t": VEC2 + ["None"],
                      "center": CENTER},
    "Spheroid": {"n": ["1.5"] + CPLX + ["f32", "P:U", "P:CP", "None"],
                 "r": VEC2, "rotation": ROT3, "center": CENTER},
    "Ellipsoid": {"n": ["1.5"] + CPLX + ["f32", "P:U", "P:CP", "None"],
                  "r": VEC3, "center": CENTER, "rotation": ROT3},
    "Cylinder": _ROD, "Capsule": _ROD, "Bisphere": _ROD,
    "JanusSphere_Uniform": {"n": NVEC + ["None"], "r": VEC2,
                            "rotation": ROT3, "center": CENTER},
    "JanusSphere_Tapered": {"n": NVEC + ["None"], "r": VEC2,
                            "rotation": [OMIT] + VEC2, "center": CENTER},
    "Scatterers": {"scatterers": ["L:two", OMIT, "None", "L:empty",
                                  "L:tuple", "L:one", "L:nested", "L:mixed",
                                  "L:same-twice", "L:layered", "L:priors"]},
    "Spheres": {"scatterers": ["L:two", "L:tuple", "L:one", "L:layered",
                               "L:priors", "L:overlap", "L:single"],
                "warn": [OMIT] + BOOL[1:] + ["True", "None"]},
    "RigidCluster": {"spheres": ["Sp:two", "Sp:priors", "Sp:tuple",
                                 "Sp:three"],
                     "translation": ROT3, "rotation": ROT3},
    "Union": _CSG, "Difference": _CSG, "Intersection": _CSG,
    "CsgScatterer": _CSG,
    "Scatterer": {"indicators": ["F:unit_ball", "F:list2", "F:indicators",
                                 "F:method", "F:method-ell"],
                  "n": ["1.5", "cplx", "c128", "f32", "N2:list"],
                  "center": VEC3},
    "Indicators": {"functions": ["F:list1", "F:unit_ball", "F:list2",
                                 "F:tuple2", "F:method", "F:method-ell"],
                   "bound": [OMIT, "None", "B:unit", "B:tuple", "B:arr"]},
    # ---- theories --------------------------------------------------------
    "Mie": {"compute_escat_radial": [OMIT] + BOOLF,
            "full_radial_dependence": [OMIT] + BOOLF,
            "eps1": [OMIT] + OPT, "eps2": [OMIT] + OPT},
    "MieLens": {"lens_angle": [OMIT] + LENSANG + ["P:U", "P:G", "P:BG"],
                "calculator_accuracy_kwargs": [OMIT, "D:empty", "D:quad",
                                               "D:full", "D:np", "D:f32"]},
    "AberratedMieLens": {
        "spherical_aberration": [OMIT, "0.5", "-0.0", "1e-300", "int2",
                                 "f64", "f32", "P:U", "P:G", "V2:list",
                                 "V2:tuple", "V2:arr", "V2:priors",
                                 "V3:list", "V2:f32"],
        "lens_angle": [OMIT] + LENSANG + ["P:U", "P:BG"],
        "calculator_accuracy_kwargs": [OMIT, "D:quad", "D:np", "D:f32"]},
    "Multisphere": {"niter": [OMIT, "int40", "i64", "i32"],
                    "eps": [OMIT] + OPT, "meth": [OMIT, "int0", "i64"],
                    "qeps1": [OMIT] + OPT, "qeps2": [OMIT] + OPT,
                    "compute_escat_radial": [OMIT, "True", "npTrue", "None"],
                    "suppress_fortran_output": [OMIT, "False", "npFalse",
                                                "None"]},
    "Lens": {"lens_angle": LENSANG,
             "theory": ["T:Mie", "T:Mie-opts", "T:Multisphere",
                        "T:Multisphere-opts", "T:Tmatrix", "T:Lens-Lens"],
             "quad_npts_theta": [OMIT, "int7", "i64", "i32"],
             "quad_npts_phi": [OMIT, "int7", "i64"],
             "use_numexpr": [OMIT, "False", "True", "npFalse", "None"]},
    "Tmatrix": {},
    "DDA": {"n_cpu": [OMIT], "use_gpu": [OMIT], "gpu_id": [OMIT],
            "max_dpl_size": [OMIT], "use_indicators": [OMIT],
            "keep_raw_calculations": [OMIT], "addacmd": [OMIT],
            "suppress_C_output": [OMIT]},
    # ---- inference -------------------------------------------------------
    "LimitOverlaps": {"fraction": [OMIT] + REAL},
    "EmceeStrategy": {"nwalkers": [OMIT] + INTS,
                      "nsamples": [OMIT, "None", "int40", "i64"],
                      "npixels": NPIX, "walker_initial_pos": WIP,
                      "parallel": PARALLEL, "seed": SEED},
    "TemperedStrategy": {"next_initial_dist": [OMIT, "F:next-dist"],
                         "nwalkers": [OMIT] + INTS,
                         "nsamples": [OMIT, "int40", "i64"],
                         "min_pixels": [OMIT, "None", "int7", "i64"],
                         "npixels": [OMIT, "int40", "i64", "f64"],
                         "walker_initial_pos": WIP, "parallel": PARALLEL,
                         "stages": [OMIT, "int1", "int2", "i64"],
                         "stage_len": [OMIT, "int7", "i64"],
                         "seed": SEED},
    "CmaStrategy": {"npixels": NPIX, "popsize": [OMIT, "None", "int7",
                                                 "i64"],
                    "resample_pixels": [OMIT, "False", "npFalse"],
                    "parent_fraction": [OMIT, "0.5", "f64", "f32"],
                    "weight_function": [OMIT, "None", "F:weights"],
                    "walker_initial_pos": WIP,
                    "tols": [OMIT, "D:empty", "D:tols", "D:tols-np"],
                    "seed": SEED, "parallel": PARALLEL},
    "NmpfitStrategy": {"npixels": NPIX, "quiet": [OMIT, "False", "npFalse"],
                       "ftol": TOL, "xtol": TOL, "gtol": TOL,
                       "damp": [OMIT, "0.5", "f64"],
                       "maxiter": [OMIT, "int7", "i64"], "seed": SEED},
    "LeastSquaresScipyStrategy": {"ftol": TOL, "xtol": TOL, "gtol": TOL,
                                  "max_nfev": [OMIT, "None", "int40", "i64"],
                                  "npixels": NPIX},
    # ---- priors ----------------------------------------------------------
    "Uniform": {"lower_bound": ["0.25", "int0", "-0.0", "1e-300", "-inf",
                                "f64-lo", "f32-lo"],
                "upper_bound": ["0.75", "int1", "1e300", "inf", "f64-hi",
                                "f32-hi"],
                "guess": [OMIT, "None", "0.5", "1/3", "f64", "f32-mid"],
                "name": [OMIT] + NAME},
    "Gaussian": {"mu": REAL, "sd": POS, "name": [OMIT] + NAME},
    "BoundedGaussian": {"mu": ["0.5", "1/3", "f64", "f32-mid"],
                        "sd": ["0.25", "1e-300", "1e300", "int2", "f32",
                               "i64"],
                        "lower_bound": [OMIT, "0.25", "int0", "-inf",
                                        "f64-lo", "f32-lo", "-0.0"],
                        "upper_bound": [OMIT, "0.75", "int1", "inf",
                                        "f64-hi", "f32-hi", "1e300"],
                        "name": [OMIT] + NAME},
    "TransformedPrior": {"transformation": ["Tr:exp", "Tr:add", "Tr:pow",
                                            "Tr:maximum", "Tr:custom",
                                            "Tr:class", "Tr:complex"],
                         "base_prior": ["BP:single", "BP:list1",
                                        "BP:tuple1", "BP:pair",
                                        "BP:pair-rev", "BP:pair-priors",
                                        "BP:pair-tuple", "BP:pair-np",
                                        "BP:pair-f32", "BP:nested",
                                        "BP:shared"],
                         "name": [OMIT] + NAME},
    "ComplexPrior": {"real": ["1.5", "int2", "f64", "f32", "P:U", "P:G",
                              "P:BG", "P:add", "P:sqrt"],
                     "imag": ["0.25", "-0.0", "1e-300", "int0", "f64",
                              "f32", "P:U-int", "P:G-named", "P:mul"],
                     "name": [OMIT] + NAME},
}

_OPTICS = {
    "noise_sd": [OMIT, "None", "0.25", "f64", "f32", "O:red-green",
                 "O:list2", "P:U-int", "O:xr"],
    "medium_index": [OMIT, "None", "1.5", "f64", "P:U", "O:red-green",
                     "O:red-green-np"],
    "illum_wavelen": [OMIT, "None", "0.75", "f32", "P:U-named",
                      "O:red-green", "O:red-green-prior", "O:xr",
                      "O:xr-prior", "O:red-green-npkeys"],
    "illum_polarization": [OMIT, "None", "O:pol-list", "O:pol-tuple",
                           "O:pol-arr", "O:pol-dict"],
    "theory": [OMIT, "str:auto", "T:Mie", "T:Mie-opts", "T:Mie-class",
               "T:MieLens", "T:MieLens-prior", "T:AberratedMieLens-prior",
               "T:Lens-Mie", "T:Multisphere"],
    "constraints": [OMIT, "C:empty", "C:limit", "C:limit-list", "C:two"],
}
_MSCAT = ["M:sphere", "M:spheres-wide", "M:sphere-fixed", "M:sphere-cplx",
          "M:sphere-derived",
          "M:sphere-named", "M:sphere-tuple", "M:layered", "M:spheres",
          "M:spheres-shared", "M:spheroid"]
TABLE["AlphaModel"] = dict(
    scatterer=_MSCAT,
    alpha=[OMIT, "0.75", "f64", "f32", "P:U-int", "O:red-green",
           "O:red-green-prior", "O:xr"], **_OPTICS)
TABLE["ExactModel"] = dict(
    scatterer=_MSCAT,
    calc_func=[OMIT, "F:calc_holo", "F:calc_intensity", "F:calc_field"],
    **_OPTICS)
TIES_AXIS = "(ties)"
TIES = ["none", "tie1", "tie2", "tiex"]
# per scatterer label: the add_tie calls (parameter names, new name)
TIE_PLANS = {
    "M:sphere": [(["center.0", "center.1"], None), (["r", "center.0"], "rx")],
    "M:sphere-tuple": [(["center.0", "center.1"], None),
                       (["r", "center.0"], "rx")],
    "M:sphere-named": [(["x", "center.1"], None), (["x", "x_0"], "both")],
    "M:layered": [(["n.0", "n.1"], "n")],
    "M:spheres": [(["0:r", "1:r"], None),
                  (["0:center.0", "1:center.0"], "x")],
    "M:spheres-shared": [(["0:center.0", "1:center.0"], None),
                         (["0:n", "1:n"], "n")],
    "M:spheroid": [(["r.0", "r.1"], "radius")],
}


_ONE_ARITY_BP = ("BP:single", "BP:list1", "BP:tuple1")


def _couple(clsname, vec, dev):
    """arguments whose validity depends on another argument: when only one
    of the pair deviates, the other one follows (so that e.g. every layered
    index alphabet value of Sphere is explored with a layered radius)."""
    def follow(a, b, a_special, b_value):
        if a in dev and b not in dev and a_special(vec.get(a, "")):
            vec[b] = b_value
    if clsname == "Sphere":
        follow("n", "r", lambda x: x.startswith("N2:"), "V2:list")
        follow("r", "n", lambda x: x.startswith("V2:"), "N2:list")
    elif clsname in ("Union", "Difference", "Intersection", "CsgScatterer"):
        follow("s1", "s2", lambda x: x == "S:a-cplx", "S:b-cplx")
        follow("s2", "s1", lambda x: x == "S:b-cplx", "S:a-cplx")
    elif clsname == "Scatterer":
        follow("indicators", "n", lambda x: x == "F:list2", "N2:list")
        follow("n", "indicators", lambda x: x == "N2:list", "F:list2")
    elif clsname == "TransformedPrior":
        follow("transformation", "base_prior",
               lambda x: x not in ("Tr:exp", "Tr:custom"), "BP:pair")
        follow("base_prior", "transformation",
               lambda x: x not in _ONE_ARITY_BP, "Tr:add")
    return vec


def _side_condition(clsname, vec):
    """False for vectors that are not valid constructor arguments (declared
    side-conditions; the constructors themselves do not check these)."""
    g = vec.get
    if clsname == "Sphere":
        layered_n = g("n", "").startswith("N2:")
        layered_r = g("r", "").startswith("V2:")
        return layered_n == layered_r
    if clsname in ("Union", "Difference", "Intersection", "CsgScatterer"):
        c1 = g("s1") == "S:a-cplx"
        c2 = g("s2") == "S:b-cplx"
        return c1 == c2
    if clsname == "TransformedPrior":
        one = g("base_prior") in _ONE_ARITY_BP
        if g("transformation") == "Tr:exp":
            return one
        if g("transformation") == "Tr:custom":
            return True
        return not one
    if clsname == "Scatterer":
        two = g("indicators") == "F:list2"
        return two == (g("n") == "N2:list")
    if clsname in MODEL_CLASSES:
        t = g(TIES_AXIS, "none")
        if t == "tiex":
            # needs equal priors inside and outside the scatterer
            return g("scatterer") in ("M:sphere", "M:sphere-tuple") and \
                "P:U-int" in (g("alpha"), g("noise_sd"))
        if t != "none":
            plan = TIE_PLANS.get(g("scatterer"), [])
            return len(plan) >= int(t[-1])
    return True


# --------------------------------------------------------------------------
# discovery
# --------------------------------------------------------------------------
_CLASSES = None
_INIT_ARGS = {}


def discover():
    """-> {class name: class} for every HoloPyObject subclass exported by the
    packages of DISCOVER_MODULES (introspection; nothing is listed by hand)"""
    global _CLASSES
    if _CLASSES is not None:
        return _CLASSES
    import importlib
    from holopy.core.holopy_object import HoloPyObject
    found = {}
    for m in DISCOVER_MODULES:
        try:
            mod = importlib.import_module(m)
        except ImportError:
            pkg, _, attr = m.rpartition(".")
            mod = getattr(importlib.import_module(pkg), attr)
        for name in sorted(dir(mod)):
            if name.startswith("_"):
                continue
            o = getattr(mod, name)
            if inspect.isclass(o) and issubclass(o, HoloPyObject) and \
                    o is not HoloPyObject:
                found.setdefault(o.__name__, o)
    _CLASSES = dict(sorted(found.items()))
    return _CLASSES


def init_args(cls):
    """[(name, default or inspect.Parameter.empty)] of cls.__init__"""
    if cls in _INIT_ARGS:
        return _INIT_ARGS[cls]
    out = []
    for p in list(inspect.signature(cls.__init__).parameters.values())[1:]:
        if p.kind in (p.VAR_POSITIONAL, p.VAR_KEYWORD):
            continue
        out.append((p.name, p.default))
    _INIT_ARGS[cls] = out
    return out


def class_axes(clsname, cls, tier):
    """ordered {argument: [labels]} or (None, reason)"""
    if clsname in SKIP_CLASSES:
        return None, SKIP_CLASSES[clsname]
    args = init_args(cls)
    table = TABLE.get(clsname)
    axes = {}
    for name, default in args:
        labels = None if table is None else table.get(name)
        if labels is None:
            if default is inspect.Parameter.empty:
                return None, ("required argument %r has no alphabet in the "
                              "hand-written table" % name)
            labels = [OMIT] + (["None"] if default is None else [])
        seen, uniq = set(), []
        for x in labels:
            if x not in seen:
                seen.add(x)
                uniq.append(x)
        axes[name] = uniq
    if clsname in MODEL_CLASSES:
        axes[TIES_AXIS] = list(TIES)
    return axes, None


MQSET = set("""
M:sphere-cplx M:sphere-derived M:spheres-shared 0.75 P:U-int
O:red-green-prior None 0.25 O:red-green 1.5 P:U O:pol-tuple O:pol-dict
T:Mie-opts T:MieLens-prior str:auto C:limit F:calc_intensity tie1 tie2 tiex
""".split())


def _level(tier, clsname, d):
    """labels admitted in vectors with d >= 2 deviations"""
    if clsname in MODEL_CLASSES:
        # a model costs ~5 times a plain object: pairs from the model core
        # (quick) or the full thorough core, triples from the model core
        if tier == "quick" or d >= 3:
            return MQSET
        return QSET | TSET
    if tier == "quick":
        return QSET
    return QSET | TSET


def _vectors(clsname, axes, tier):
    """-> ([(dev tuple, [vec dict, ...])], removed by side-conditions, D)"""
    names = list(axes)
    n = len(names)
    D = n if n <= 3 else (2 if tier == "quick" else 3)
    blocks, removed = [], 0
    for d in range(0, min(D, n) + 1):
        for which in itertools.combinations(range(n), d):
            alts = []
            for i in which:
                labs = axes[names[i]][1:]
                if d >= 2:
                    lvl = _level(tier, clsname, d)
                    labs = [x for x in labs if x in lvl]
                alts.append(labs)
            if any(len(a) == 0 for a in alts):
                continue
            vs = []
            for combo in itertools.product(*alts):
                vec = {nm: axes[nm][0] for nm in names}
                for i, lab in zip(which, combo):
                    vec[names[i]] = lab
                _couple(clsname, vec, [names[i] for i in which])
                if not _side_condition(clsname, vec):
                    removed += 1
                    continue
                vs.append(vec)
            if vs:
                blocks.append((tuple(names[i] for i in which), vs))
    return blocks, removed, D


def cases(tier, seed):
    out = [{"id": "discover", "kind": "discover", "tier": tier},
           {"id": "one-file-name-reused", "kind": "filehist", "tier": tier}]
    classes = discover()
    for clsname, cls in classes.items():
        axes, reason = class_axes(clsname, cls, tier)
        if axes is None:
            continue
        blocks, _, _ = _vectors(clsname, axes, tier)
        model = clsname in MODEL_CLASSES
        for dev, vs in blocks:
            d = len(dev)
            # vectors with <= 1 deviation are the same in both tiers: their
            # case ids carry no tier mark
            mark = "" if d <= 1 else tier[0]
            maxblock = (6 if model else 12) if d <= 1 else \
                (16 if model else MAXBLOCK)
            for k in range(0, len(vs), maxblock):
                chunk = vs[k:k + maxblock]
                # target sequences of mixed targets: up to length 3 for the
                # base object, length 2 for single deviations of the core
                mixed = [3 if d == 0 else
                         (2 if d == 1 and v[dev[0]] in QSET else 0)
                         for v in chunk]
                cid = "obj:%s|dev=%s|%s%d" % (clsname, ",".join(dev) or "-",
                                              mark, k // maxblock)
                out.append({"id": cid, "kind": "obj", "cls": clsname,
                            "dev": list(dev), "vectors": chunk,
                            "mixed": mixed, "tier": tier})
    return out


# --------------------------------------------------------------------------
# canonical forms
# --------------------------------------------------------------------------
class _Canon:
    """value -> nested lists of python scalars.  Sequences (list, tuple,
    ndarray) -> ["seq", ...]; numpy scalars -> python; HoloPy objects ->
    class name + every __init__ argument read back with getattr.  Records the
    order in which distinct Prior instances are met (sharing signature)."""

    def __init__(self):
        self.prior_ids = {}
        self.sharing = []

    def __call__(self, v, depth=0):
        from holopy.core.holopy_object import HoloPyObject
        from holopy.core.prior import Prior
        if depth > 14:
            return ["too-deep"]
        if v is _NoAttr:
            return ["not-readable"]
        if isinstance(v, _RaisesMarker):
            return ["raises", v.name]
        if v is None:
            return ["none"]
        if isinstance(v, (bool, np.bool_)):
            return ["bool", bool(v)]
        if isinstance(v, (int, np.integer)):
            return ["int", int(v)]
        if isinstance(v, (float, np.floating)):
            return ["float", repr(float(v))]
        if isinstance(v, (complex, np.complexfloating)):
            c = complex(v)
            return ["complex", repr(c.real), repr(c.imag)]
        if isinstance(v, str):
            return ["str", v]
        if isinstance(v, bytes):
            return ["bytes", v.decode("latin1")]
        if isinstance(v, np.ndarray):
            if v.ndim == 0:
                return self(v.item(), depth + 1)
            return ["seq"] + [self(x, depth + 1) for x in v]
        if isinstance(v, (list, tuple)):
            return ["seq"] + [self(x, depth + 1) for x in v]
        if isinstance(v, dict):
            items = [(self(k, depth + 1), self(x, depth + 1))
                     for k, x in v.items()]
            return ["dict"] + [list(kv) for kv in
                               sorted(items, key=lambda kv: repr(kv[0]))]
        try:
            import xarray as xr
            if isinstance(v, xr.DataArray):
                return ["xarray", list(map(str, v.dims)),
                        [[str(k), self(np.asarray(c.values), depth + 1)]
                         for k, c in sorted(v.coords.items(),
                                            key=lambda kc: str(kc[0]))],
                        self(np.asarray(v.values), depth + 1)]
        except ImportError:
            pass
        if isinstance(v, HoloPyObject):
            if isinstance(v, Prior):
                k = self.prior_ids.setdefault(id(v), len(self.prior_ids))
                self.sharing.append(k)
            return ["obj", type(v).__name__] + [
                [name, self(_readback(v, name), depth + 1)]
                for name, _ in init_args(type(v))]
        if isinstance(v, np.ufunc):
            return ["ufunc", v.__name__]
        if inspect.isclass(v):
            return ["class", v.__module__ + "." + v.__qualname__]
        if inspect.ismethod(v):
            return ["method", v.__func__.__qualname__,
                    self(v.__self__, depth + 1)]
        if callable(v):
            return ["callable", "%s.%s" % (
                getattr(v, "__module__", "?"),
                getattr(v, "__qualname__", getattr(v, "__name__", "?")))]
        return ["other", type(v).__name__]


class _NoAttr:
    """marker: the argument is not readable with getattr"""


class _RaisesMarker:
    def __init__(self, name):
        self.name = name


def _readback(obj, name):
    try:
        return getattr(obj, name)
    except AttributeError:
        # a property raising AttributeError is indistinguishable from a
        # missing attribute through getattr: both are "not readable"
        return _NoAttr
    except Exception as e:                # e.g. MissingParameter of a model
        return _RaisesMarker(type(e).__name__)


def _first_diff(a, b, path=""):
    """first path at which two canonical trees differ -> (path, a, b)"""
    if isinstance(a, list) and isinstance(b, list) and a and b and \
            a[0] == b[0] and len(a) == len(b):
        if a[0] == "obj":
            if a[1] != b[1]:
                return path, a[:2], b[:2]
            for x, y in zip(a[2:], b[2:]):
                if x != y:
                    if x[0] != y[0]:
                        return path, x[0], y[0]
                    return _first_diff(x[1], y[1], path + "." + str(x[0]))
            return None
        if a[0] in ("seq", "dict"):
            for i, (x, y) in enumerate(zip(a[1:], b[1:])):
                if x != y:
                    if a[0] == "dict":
                        if x[0] != y[0]:
                            return path + "{keys}", x[0], y[0]
                        return _first_diff(x[1], y[1],
                                           path + "[%s]" % _show(x[0]))
                    return _first_diff(x, y, path + "[%d]" % i)
            return None
    if isinstance(a, list) and isinstance(b, list) and a and b and \
            a[0] == b[0] == "seq" and len(a) != len(b):
        return path + "{length}", ["int", len(a) - 1], ["int", len(b) - 1]
    if a != b:
        return path, a, b
    return None


def _show(c, n=160):
    """compact rendering of a canonical value for messages"""
    def r(c):
        if not isinstance(c, list) or not c:
            return repr(c)
        t = c[0]
        if t == "none":
            return "None"
        if t in ("bool", "int", "str"):
            return repr(c[1])
        if t == "float":
            return c[1]
        if t == "complex":
            return "complex(%s,%s)" % (c[1], c[2])
        if t == "seq":
            return "[" + ", ".join(r(x) for x in c[1:]) + "]"
        if t == "dict":
            return "{" + ", ".join("%s: %s" % (r(k), r(v))
                                   for k, v in c[1:]) + "}"
        if t == "obj":
            return "%s(%s)" % (c[1], ", ".join(
                "%s=%s" % (k, r(v)) for k, v in c[2:]
                if v != ["not-readable"]))
        if t in ("ufunc", "class", "callable"):
            return "<%s %s>" % (t, c[1])
        if t == "not-readable":
            return "<not readable>"
        if t == "raises":
            return "<getattr raises %s>" % c[1]
        return repr(c)
    s = r(c)
    return s if len(s) <= n else s[:n - 3] + "..."


# --------------------------------------------------------------------------
# observing one object
# --------------------------------------------------------------------------
BEHAVIOUR = {
    # class name -> probe of behaviour that depends on constructor arguments
    # which are not stored as attributes
    "CmaStrategy": lambda o: [bool(o.weights(x, 8)) for x in range(8)],
}


def _observe(obj):
    """everything the oracle compares, as canonical values"""
    cn = _Canon()
    cls = type(obj)
    names = [n for n, _ in init_args(cls)]
    args = {n: cn(_readback(obj, n)) for n in names}
    pub = {}
    d = getattr(obj, "__dict__", {})
    for k in sorted(d):
        if k.startswith("_") or k in args:
            continue
        pub[k] = cn(d[k])
    beh = None
    probe = BEHAVIOUR.get(cls.__name__)
    if probe is not None:
        try:
            beh = probe(obj)
        except Exception as e:
            beh = "raises " + type(e).__name__
    return {"cls": cls.__name__, "args": args, "pub": pub,
            "sharing": list(cn.sharing), "beh": beh}


class _StepFail(Exception):
    def __init__(self, stage, exc):
        self.stage = stage
        self.exc = exc


def _roundtrip(target, obj, tmpdir, counter):
    """one save -> load through `target`; -> (text bytes, loaded)"""
    import yaml
    import holopy as hp
    from holopy.core.holopy_object import FullLoader
    counter[0] += 1
    if target == "yaml":
        try:
            text = yaml.dump(obj)
        except Exception as e:
            raise _StepFail("dump", e)
        try:
            return text.encode(), yaml.load(text, Loader=FullLoader)
        except Exception as e:
            raise _StepFail("load", e)
    # file names alternate between a name with and one without an extension
    path = os.path.join(tmpdir, ("o%d.yaml" if counter[0] % 2 else "o%d")
                        % counter[0])
    try:
        if target == "file":
            hp.save(path, obj)
        else:
            with open(path, "wb") as f:
                hp.save(f, obj)
        with open(path, "rb") as f:
            text = f.read()
    except Exception as e:
        raise _StepFail("dump", e)
    try:
        if target == "file":
            loaded = hp.load(path)
        else:
            with open(path, "rb") as f:
                loaded = hp.load(f)
    except Exception as e:
        raise _StepFail("load", e)
    finally:
        try:
            os.unlink(path)
        except OSError:
            pass
    return text, loaded


def _dump_only(target, obj, tmpdir, counter):
    import yaml
    import holopy as hp
    counter[0] += 1
    if target == "yaml":
        return yaml.dump(obj).encode()
    path = os.path.join(tmpdir, ("o%d.yaml" if counter[0] % 2 else "o%d")
                        % counter[0])
    if target == "file":
        hp.save(path, obj)
    else:
        with open(path, "wb") as f:
            hp.save(f, obj)
    with open(path, "rb") as f:
        text = f.read()
    os.unlink(path)
    return text


def _exc_key(e):
    """stable short description of an exception (no addresses / positions)"""
    import re
    s = str(e).strip().split("\n")[0]
    s = re.sub(r"0x[0-9a-f]+", "0x..", s)
    return "%s: %s" % (type(e).__name__, s[:140])


def _text_diff(t1, t2):
    a = t1.decode("utf8", "replace").split("\n")
    b = t2.decode("utf8", "replace").split("\n")
    for x, y in zip(a, b):
        if x != y:
            return "%r -> %r" % (x.strip()[:90], y.strip()[:90])
    return "%d lines -> %d lines (first extra: %r)" % (
        len(a), len(b), (a + b)[min(len(a), len(b))].strip()[:90]
        if len(a) != len(b) else "")


class _Findings:
    """violations of one object: (check, reason-key) -> detail"""

    def __init__(self):
        self.items = {}
        self.notes = {}

    def add(self, check, key, detail, where):
        it = self.items.setdefault((check, key), {"detail": detail,
                                                  "where": []})
        if where not in it["where"]:
            it["where"].append(where)


def _compare(fs, ref, obs, where, plain, eq_result):
    """reference observation vs the observation of a reloaded object"""
    if obs["cls"] != ref["cls"]:
        fs.add("same-class", "%s->%s" % (ref["cls"], obs["cls"]),
               "class %s came back as %s" % (ref["cls"], obs["cls"]), where)
        return
    for name, a in ref["args"].items():
        b = obs["args"].get(name)
        if a == b:
            continue
        path, x, y = _first_diff(a, b, name)
        if a == ["none"]:
            fs.add("none-arg-kept", "%s:%s" % (name, _show(y, 60)),
                   "argument %s was None, reads back %s" % (name, _show(y)),
                   where)
        else:
            fs.add("arg-readback", "%s:%s->%s" % (path, _show(x, 50),
                                                  _show(y, 50)),
                   "constructor argument %s: original %s, reloaded %s" %
                   (path, _show(x), _show(y)), where)
    for k in sorted(set(ref["pub"]) | set(obs["pub"])):
        a, b = ref["pub"].get(k), obs["pub"].get(k)
        if a != b:
            d = _first_diff(a, b, k) if a is not None and b is not None \
                else (k, a, b)
            path, x, y = d
            fs.add("public-state", "%s:%s->%s" % (path, _show(x, 50),
                                                  _show(y, 50)),
                   "public attribute %s (derived from constructor arguments "
                   "that are not readable themselves): original %s, "
                   "reloaded %s" % (path, _show(x), _show(y)), where)
    if ref["beh"] != obs["beh"]:
        fs.add("derived-behaviour", "%r->%r" % (ref["beh"], obs["beh"]),
               "behaviour probe: original %r, reloaded %r" %
               (ref["beh"], obs["beh"]), where)
    if ref["sharing"] != obs["sharing"]:
        # one prior object used in several places is one quantity (a model
        # built on the object ties those places): the reloaded object is
        # only equivalent if the places still share one object
        fs.add("prior-sharing-kept", "%r->%r" % (ref["sharing"],
                                                 obs["sharing"]),
               "places that shared one prior object in the original: %r; "
               "in the reloaded object: %r" % (ref["sharing"],
                                               obs["sharing"]), where)
    if plain and eq_result is not True:
        fs.add("library-eq", repr(eq_result),
               "all arguments were lists/scalars but `loaded == original` "
               "is %s" % (eq_result,), where)


def _lib_eq(loaded, orig):
    try:
        r = loaded == orig
        if isinstance(r, (bool, np.bool_)):
            return bool(r)
        return "non-bool %s" % type(r).__name__
    except Exception as e:
        return "raises %s" % type(e).__name__


def _run_chain(fs, ck, obj, ref, seq, tmpdir, counter, plain, texts, extra,
               cache=None):
    """obj -> save/load through seq[0] -> ... ; compares after every step.
    With a cache (mixed sequences) a prefix that was executed before is not
    executed again."""
    cur = obj
    prev_text = None
    for k, target in enumerate(seq):
        where = "%s@%d" % (">".join(seq[:k + 1]), k + 1)
        key = tuple(seq[:k + 1])
        if cache is not None and key in cache:
            st = cache[key]
            if st is None:
                return
            prev_text, cur = st
            continue
        try:
            text, loaded = _roundtrip(target, cur, tmpdir, counter)
            ck.trans += 2
        except _StepFail as sf:
            ck.trans += 1
            check = "dump-accepts" if sf.stage == "dump" else "load-accepts"
            what = ("saving raised" if sf.stage == "dump" else
                    "the loader rejects the text the library wrote:")
            fs.add(check, _exc_key(sf.exc), "%s %s" % (what,
                                                       _exc_key(sf.exc)),
                   where)
            if cache is not None:
                cache[key] = None
            return
        texts.append(text)
        if prev_text is not None and target == seq[k - 1] and \
                text != prev_text:
            fs.add("text-fixpoint", _text_diff(prev_text, text),
                   "saving the reloaded object does not reproduce the text: "
                   + _text_diff(prev_text, text), where)
        obs = _observe(loaded)
        _compare(fs, ref, obs, where, plain, _lib_eq(loaded, obj)
                 if plain else None)
        if extra is not None:
            extra(fs, loaded, where)
        prev_text, cur = text, loaded
        if cache is not None:
            cache[key] = (text, loaded)
    # one more dump: the text after the last cycle
    if cache is None:
        try:
            text = _dump_only(seq[-1], cur, tmpdir, counter)
            ck.trans += 1
            if text != prev_text:
                fs.add("text-fixpoint", _text_diff(prev_text, text),
                       "saving the reloaded object does not reproduce the "
                       "text: " + _text_diff(prev_text, text),
                       "%s@%d+" % (">".join(seq), len(seq)))
        except Exception as e:
            fs.add("dump-accepts", _exc_key(e),
                   "saving a reloaded object raised %s" % _exc_key(e),
                   "%s@%d+" % (">".join(seq), len(seq)))


def _is_plain(v):
    from holopy.core.holopy_object import HoloPyObject
    if v is None or isinstance(v, (bool, int, float, complex, str,
                                   np.generic)):
        return True
    if isinstance(v, list):
        return all(_is_plain(x) for x in v)
    if isinstance(v, dict):
        return all(_is_plain(x) for x in v.values())
    if isinstance(v, HoloPyObject):
        return True          # decided by the label's flag
    return False             # tuples, arrays, functions, classes, ...


def _refusals():
    from holopy.scattering.errors import (InvalidScatterer,
                                          ParameterSpecificationError)
    from holopy.core.errors import DependencyMissing
    return (InvalidScatterer, ParameterSpecificationError, DependencyMissing)


def build(clsname, vec):
    """-> (status, object or exception, plain?, python-ish call string)"""
    R = _registry()
    cls = discover()[clsname]
    kwargs, plain = {}, True
    shown = []
    for name, default in init_args(cls):
        lab = vec.get(name, OMIT)
        if lab == OMIT:
            if isinstance(default, (tuple, np.ndarray)):
                plain = False
            continue
        fn, pl = R[lab]
        val = fn()
        kwargs[name] = val
        plain = plain and pl and _is_plain(val)
        shown.append("%s=<%s>" % (name, lab))
    call = "%s(%s)" % (clsname, ", ".join(shown))
    try:
        obj = cls(**kwargs)
    except _refusals() as e:
        return "refused", e, plain, call
    except Exception as e:
        return "not-constructible", e, plain, call
    if clsname in MODEL_CLASSES:
        t = vec.get(TIES_AXIS, "none")
        if t == "tiex":
            # a tie that cannot be expressed by sharing one prior object:
            # a scatterer parameter with the scaling or the noise level
            # (possible whenever their priors are equal)
            names = list(obj.parameters)
            inside = [n for n in ("r", "center.0", "0:center.0", "r.0")
                      if n in names]
            outside = [n for n in ("alpha", "noise_sd") if n in names]
            if not inside or not outside:
                return "refused", ValueError("no cross tie"), plain, call
            plan = [([inside[0], outside[0]], None)]
        elif t != "none":
            plan = TIE_PLANS[vec["scatterer"]][:int(t[-1])]
        if t != "none":
            try:
                for names, new in plan:
                    obj.add_tie(list(names), new)
            except ValueError as e:
                return "refused", e, plain, call + ".add_tie(...)"
            call += "".join(".add_tie(%r, %r)" % (n, nn) for n, nn in plan)
    return "ok", obj, plain, call


# --------------------------------------------------------------------------
# models: names, priors, ties and value-to-place mapping
# --------------------------------------------------------------------------
PRIMES = [2.0, 3.0, 5.0, 7.0, 11.0, 13.0, 17.0, 19.0, 23.0, 29.0, 31.0, 37.0,
          41.0, 43.0, 47.0, 53.0, 59.0, 61.0, 67.0, 71.0]


def _model_observe(m):
    out = {}
    names = list(m.parameters.keys())
    out["names"] = names
    cn = _Canon()
    out["priors"] = [cn(p) for p in m.parameters.values()]
    vecs = []
    try:
        guess = dict(m.initial_guess)
    except Exception as e:
        guess = None
        out["guess-error"] = type(e).__name__
    if guess is not None:
        vecs.append(("guesses", guess))
    k = len(names)
    vecs.append(("distinct primes", {n: PRIMES[i % len(PRIMES)] +
                                     100.0 * (i // len(PRIMES))
                                     for i, n in enumerate(names)}))
    vecs.append(("reversed primes", {n: PRIMES[(k - 1 - i) % len(PRIMES)]
                                     for i, n in enumerate(names)}))
    out["vecs"] = vecs
    maps = []
    for label, v in vecs:
        row = {}
        for what, fn in (("scatterer", m.scatterer_from_parameters),
                         ("theory", m.theory_from_parameters)):
            try:
                with warnings.catch_warnings():
                    warnings.simplefilter("ignore")
                    row[what] = _Canon()(fn(dict(v)))
            except Exception as e:
                row[what] = ["raises", type(e).__name__]
        maps.append((label, row))
    out["maps"] = maps
    ties = getattr(m, "_maps", None)
    out["ties"] = None if ties is None else _Canon()(ties)
    return out


def _model_extra(ref_m):
    ref = _model_observe(ref_m)

    def extra(fs, loaded, where):
        try:
            names = list(loaded.parameters.keys())
        except Exception as e:
            fs.add("model-parameter-names", _exc_key(e),
                   "reloaded model: .parameters raised %s" % _exc_key(e),
                   where)
            return
        if names != ref["names"]:
            fs.add("model-parameter-names", "%r->%r" % (ref["names"], names),
                   "parameter names: original %r, reloaded %r" %
                   (ref["names"], names), where)
            return
        cn = _Canon()
        pri = [cn(p) for p in loaded.parameters.values()]
        for n, a, b in zip(names, ref["priors"], pri):
            if a != b:
                fs.add("model-parameter-priors", "%s:%s->%s" %
                       (n, _show(a, 60), _show(b, 60)),
                       "prior of parameter %r: original %s, reloaded %s" %
                       (n, _show(a), _show(b)), where)
        for (label, row), (_, v) in zip(ref["maps"], ref["vecs"]):
            for what, fn in (("scatterer", loaded.scatterer_from_parameters),
                             ("theory", loaded.theory_from_parameters)):
                try:
                    with warnings.catch_warnings():
                        warnings.simplefilter("ignore")
                        got = _Canon()(fn(dict(v)))
                except Exception as e:
                    got = ["raises", type(e).__name__]
                if got != row[what]:
                    d = _first_diff(row[what], got, what)
                    fs.add("model-mapping", "%s:%s:%s" % (what, label, d[0]),
                           "%s_from_parameters(%s): original %s, reloaded %s"
                           " (first difference at %s: %s vs %s)" %
                           (what, label, _show(row[what]), _show(got), d[0],
                            _show(d[1], 60), _show(d[2], 60)), where)
        ties = getattr(loaded, "_maps", None)
        if ref["ties"] is not None and ties is not None:
            got = _Canon()(ties)
            if got != ref["ties"]:
                d = _first_diff(ref["ties"], got, "maps")
                fs.add("model-ties", "%s:%s->%s" % (d[0], _show(d[1], 50),
                                                    _show(d[2], 50)),
                       "placeholder map (which place takes which parameter):"
                       " first difference at %s: original %s, reloaded %s" %
                       (d[0], _show(d[1]), _show(d[2])), where)
    return extra, ref


# --------------------------------------------------------------------------
# run
# --------------------------------------------------------------------------
def _mixed_sequences(maxlen=3):
    out = []
    for n in range(2, maxlen + 1):
        for seq in itertools.product(TARGETS, repeat=n):
            if len(set(seq)) > 1:
                out.append(list(seq))
    return out


def _check_object(ck, clsname, vec, mixed, tmpdir, stats, texts_fp):
    """-> list of (check, key, message) for this object"""
    status, obj, plain, call = build(clsname, vec)
    ck.trans += 1
    stats[status] = stats.get(status, 0) + 1
    if status != "ok":
        stats.setdefault("reasons", {}).setdefault(
            "%s: %s" % (status, _exc_key(obj)), []).append(call)
        texts_fp.append(status)
        return [], call
    fs = _Findings()
    counter = [0]
    texts = []
    with warnings.catch_warnings():
        warnings.simplefilter("ignore")
        ref = _observe(obj)
        extra = None
        if clsname in MODEL_CLASSES:
            extra, mref = _model_extra(obj)
            stats["model-parameters"] = max(stats.get("model-parameters", 0),
                                            len(mref["names"]))
        for target in TARGETS:
            _run_chain(fs, ck, obj, ref, [target] * 3, tmpdir, counter,
                       plain, texts, extra)
        if mixed:
            cache = {}
            for seq in _mixed_sequences(int(mixed)):
                _run_chain(fs, ck, obj, ref, seq, tmpdir, counter, plain,
                           texts, extra, cache=cache)
    stats["objects"] = stats.get("objects", 0) + 1
    for k in fs.notes:
        stats[k] = stats.get(k, 0) + 1
    stats["roundtrips"] = stats.get("roundtrips", 0) + counter[0]
    if plain:
        stats["plain"] = stats.get("plain", 0) + 1
    texts_fp.append(digest(*texts[:3]))
    out = []
    for (check, key), it in fs.items.items():
        out.append((check, key, it["detail"], it["where"]))
    return out, call


def _run_obj(case, ck):
    clsname = case["cls"]
    stats, texts_fp = {}, []
    tmpdir = tempfile.mkdtemp(prefix="c15_")
    agg = {}
    try:
        flags = case.get("mixed") or [0] * len(case["vectors"])
        for vec, mixed in zip(case["vectors"], flags):
            found, call = _check_object(ck, clsname, vec, mixed,
                                        tmpdir, stats, texts_fp)
            for check, key, detail, where in found:
                a = agg.setdefault((check, key), {"detail": detail,
                                                  "calls": [], "where": where,
                                                  "n": 0})
                a["n"] += 1
                if len(a["calls"]) < 3:
                    a["calls"].append(call)
    finally:
        shutil.rmtree(tmpdir, ignore_errors=True)
    nobj = max(1, stats.get("objects", 0))
    for (check, key), a in sorted(agg.items()):
        if len(ck.viol) >= MAXVIOL:
            ck.true("more-violations", False,
                    "%d further distinct findings in this case suppressed"
                    % (len(agg) - MAXVIOL))
            break
        ck.true(check, False,
                "%s -- %s [in %d of %d objects of this case; targets/cycles "
                "%s]" % (a["calls"][0], a["detail"], a["n"], nobj,
                         ",".join(a["where"][:4]) +
                         ("..." if len(a["where"]) > 4 else "")),
                objects=a["calls"], key=key)
    if stats.get("objects", 0) == 0:
        outcome = "refused" if stats.get("refused") else "not-constructible"
    else:
        outcome = "ok"
    res = ck.result(fp=digest(texts_fp), outcome=outcome)
    res["stats"] = stats
    return res


def _run_discover(case, ck):
    classes = discover()
    rows = {}
    for clsname, cls in classes.items():
        axes, reason = class_axes(clsname, cls, case["tier"])
        if axes is None:
            rows[clsname] = "skipped: " + reason
            continue
        base = {nm: labs[0] for nm, labs in axes.items()}
        with warnings.catch_warnings():
            warnings.simplefilter("ignore")
            status, obj, _, call = build(clsname, base)
        ck.trans += 1
        rows[clsname] = "ok" if status == "ok" else \
            "%s: %s" % (status, _exc_key(obj))
        if clsname not in TABLE:
            rows[clsname] += " (no hand-written alphabets: defaults only)"
    res = ck.result(fp=digest(sorted(rows.items())), outcome="ok",
                    nontrivial=False)
    res["stats"] = {"classes": rows}
    return res


def _run_filehist(case, ck):
    """objects of different written length saved one after the other under
    ONE file name (and into one reopened stream target): every sequence of
    <= 3 (thorough 4) saves; after each save the file loads to the object
    just saved"""
    import itertools
    import shutil
    import tempfile
    import warnings
    import holopy as hp
    from holopy.core.prior import Uniform, Gaussian, BoundedGaussian
    from holopy.scattering import Sphere, Spheres, Mie
    objs = {
        "uniform": lambda: Uniform(0, 1),
        "bounded": lambda: BoundedGaussian(1.5, 0.1, lower_bound=1.0,
                                           upper_bound=2.0, name="index"),
        "gaussian": lambda: Gaussian(3.0, 0.5),
        "sphere": lambda: Sphere(n=1.59, r=0.5, center=(1.0, 2.0, 3.0)),
        "spheres": lambda: Spheres([
            Sphere(n=1.59, r=0.5, center=(1.0, 2.0, 3.0)),
            Sphere(n=1.45 + 0.01j, r=0.25, center=(4.0, 2.0, 3.5))]),
        "mie": lambda: Mie(False, True),
    }
    depth = 3 if case.get("tier") == "quick" else 4
    tmp = tempfile.mkdtemp(prefix="c15f_")
    acc = []
    try:
        k = 0
        # what each object loads as from a file name that never existed
        fresh = {}
        for name in objs:
            fn = os.path.join(tmp, "fresh_%s.yaml" % name)
            with warnings.catch_warnings():
                warnings.simplefilter("ignore")
                hp.save(fn, objs[name]())
                fresh[name] = repr(hp.load(fn))
        for seq in itertools.chain.from_iterable(
                itertools.product(sorted(objs), repeat=L)
                for L in range(2, depth + 1)):
            k += 1
            fn = os.path.join(tmp, "f%d.yaml" % k)
            for i, name in enumerate(seq):
                obj = objs[name]()
                with warnings.catch_warnings():
                    warnings.simplefilter("ignore")
                    try:
                        hp.save(fn, obj)
                        back = hp.load(fn)
                        ck.trans += 2
                    except Exception as e:          # noqa
                        ck.true("file-name-reused", False, "%s saved as step "
                                "%d of %s under one file name: %s: %s" %
                                (name, i + 1, ">".join(seq),
                                 type(e).__name__, str(e)[:200]))
                        continue
                ck.true("file-name-reused", repr(back) == fresh[name] and
                        type(back) is type(obj), "%s saved as step %d of %s "
                        "under one file name loads as %r; from a new file "
                        "name it loads as %s" %
                        (name, i + 1, ">".join(seq), back, fresh[name]))
            acc.append(seq[-1])
    finally:
        shutil.rmtree(tmp, ignore_errors=True)
    return ck.result(fp=digest(acc))


def run_case(case):
    ck = Checker()
    if case["kind"] == "filehist":
        return _run_filehist(case, ck)
    if case["kind"] == "discover":
        return _run_discover(case, ck)
    return _run_obj(case, ck)


def coverage_extra(cases, results):
    tier = cases[0].get("tier", "quick")
    classes = discover()
    per_class = {}
    removed_total = 0
    for clsname, cls in classes.items():
        axes, reason = class_axes(clsname, cls, tier)
        if axes is None:
            per_class[clsname] = {"skipped": reason}
            continue
        blocks, removed, D = _vectors(clsname, axes, tier)
        removed_total += removed
        per_class[clsname] = {
            "arguments": len(axes), "alphabet_sizes":
                {k: len(v) for k, v in axes.items()},
            "deviation_bound": D,
            "full_product": D >= len(axes),
            "vectors": sum(len(vs) for _, vs in blocks),
            "removed_by_side_conditions": removed}
    tot = {}
    reasons = {}
    class_status = {}
    for c, r in zip(cases, results):
        st = (r or {}).get("stats") or {}
        for k in ("objects", "roundtrips", "refused", "not-constructible",
                  "plain", "ok", "prior-sharing-lost"):
            tot[k] = tot.get(k, 0) + int(st.get(k, 0))
        for k, v in (st.get("reasons") or {}).items():
            e = reasons.setdefault(k, {"count": 0, "first": v[0]})
            e["count"] += len(v)
        if "classes" in st:
            class_status = st["classes"]
        if c.get("kind") == "obj":
            pc = per_class.setdefault(c["cls"], {})
            pc["objects_saved"] = pc.get("objects_saved", 0) + \
                int(st.get("objects", 0))
    return {"classes_discovered": len(classes),
            "class_status": class_status,
            "per_class": per_class,
            "objects_saved_and_reloaded": tot.get("objects", 0),
            "save_load_round_trips": tot.get("roundtrips", 0),
            "objects_with_list_scalar_arguments": tot.get("plain", 0),
            "vectors_refused_by_holopy": tot.get("refused", 0),
            "vectors_not_constructible": tot.get("not-constructible", 0),
            "not_built": reasons,
            "vectors_removed_by_side_conditions": removed_total,
            "noted_only_objects_whose_shared_prior_reloads_as_copies":
                tot.get("prior-sharing-lost", 0),
            "targets": TARGETS, "cycles": [1, 2, 3],
            "mixed_target_sequences_per_base_object":
                len(_mixed_sequences()),
            "value_labels": len(_registry())}

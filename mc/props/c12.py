"""C12 -- posterior = prior x Gaussian likelihood, exactly as documented.

Bounded-exhaustive: a deviation-bounded product of model configurations
(model kind x noise source x optics source x prior kinds x data form), each
combined with an enumerated set of parameter vectors (every parameter in
{guess, lower bound, upper bound, 1 ulp outside each, interior, far-outside /
invalid, + constraint boundary values}).  Every execution runs on the real
Model.lnprior / lnlike / lnposterior / forward and is compared with

* closed-form log densities written here (math module),
* the Gaussian log density of (F - D)/sd summed with math.fsum, where F is
  computed by this harness through the public calc_holo on a scatterer /
  theory / optics built from plain numbers (not through the model),
* a forward-calculation counter (counting calc_func for ExactModel, a
  counting wrapper around holopy.inference.model.calc_holo for AlphaModel),
* an exact rational evaluation of the LimitOverlaps rule.

The `pixels=k` path is driven with a scripted numpy.random.choice answering
every ordered k-selection of a 2x2 (thorough: also 2x3) image.
"""
import itertools
import math
from fractions import Fraction

import numpy as np

from lib import Checker, bits_equal, deviations, digest, ulp_diff

PROPERTY = "C12"
RULE = ("config axes: model kind [11: AlphaModel alpha prior / alpha fixed, "
        "ExactModel with counting calc_func, 2 spheres + LimitOverlaps "
        "fraction 0.1/0/1/0.125, 2 spheres sharing one radius prior, MieLens "
        "theory parameter under AlphaModel / ExactModel, medium-index "
        "parameter] x noise source [9: model "
        "scalar / data / both / none / model prior / scalar on 2 channels / "
        "per-channel on model / on data / on both] x optics source [4] x "
        "prior-kind pattern [12] x data form [4]; all config vectors with <= 2 "
        "deviations from the default.  Parameter vectors: per parameter "
        "{guess, lower, upper, 1 ulp below lower, 1 ulp above upper, "
        "interior, far-outside or invalid (r<0)} (+ overlap boundary values); "
        "thorough: full product for configs with <= 1 deviation (<= 4 "
        "parameters; D<=3 for 5), D<=1 for 2-deviation configs, plus all 81 "
        "prior-kind patterns at D<=2; quick: D<=2 on the default config, "
        "D<=1 on 1-deviation configs, D<=1 over {guess, upper, lower-1ulp, "
        "far} on 2-deviation configs of a reduced config alphabet.  "
        "pixels=k: every "
        "ordered k-selection of a 2x2 image (thorough: also 2x3) scripted "
        "through numpy.random.choice.  Non-trivial = distinct fingerprint of "
        "the observed (lnprior, lnposterior) values")
ASSUMPTIONS = [
    "the public calc_holo is the reference for 'the public hologram "
    "calculation' (its own correctness is C01/C02)",
    "math.log / math.fsum are correct to 1 ulp",
    "forward calculations of AlphaModel are observed through the module "
    "attribute holopy.inference.model.calc_holo; if that seam records "
    "nothing the short-circuit is decided on ExactModel only (reported as "
    "metric seam-missing)",
    "only values of the stated alphabets are explored",
]
TOLERANCES = {
    "lnprior-closed-form": 1e-12,
    "lnprior-sum": "64 eps * sum|terms| (order of summation is free)",
    "posterior-sum": "32 eps * (|lnprior| + |lnlike|)",
    "lnlike-formula": 1e-11,
    "forward-bits": "bit-identical",
    "wrapper": "bit-identical (same call, sign flipped)",
    "pixels-path": "bit-identical (same scripted selection)",
}
TIMEOUT = 600
EXHAUSTIVE = False

NEG_INF = float("-inf")
EPS = 2.0 ** -52
NMED, WL, POL = 1.33, 0.66, (1, 0)
WL2 = {"red": 0.66, "green": 0.52}
CH = ["red", "green"]
SD_MODEL, SD_DATA = 0.05, 0.07
SD_MODEL_CH = {"red": 0.05, "green": 0.08}
SD_DATA_CH = {"red": 0.06, "green": 0.03}
WRONG = dict(medium_index=1.0, illum_wavelen=0.52, illum_polarization=(0, 1))
WRONG2 = dict(medium_index=1.0, illum_wavelen={"red": 0.45, "green": 0.7},
              illum_polarization=(0, 1))

# ---------------------------------------------------------------------------
# parameter sites
# ---------------------------------------------------------------------------
R2 = 0.25                       # fixed radius of the second sphere
TOUCH = 0.5 + R2                # centre distance at which guess radii touch
TOUCH_M = float(np.nextafter(TOUCH, 0.0))
SITES = {
    "n": dict(guess=1.59, U=(1.4, 1.7), G=(1.59, 0.05),
              B=(1.59, 0.05, 1.4, 1.7), far=2.5),
    "r": dict(guess=0.5, U=(0.3, 0.8), G=(0.5, 0.1),
              B=(0.5, 0.1, -0.25, 0.8), far=-0.1),       # far = invalid
    "z": dict(guess=5.0, U=(4.0, 6.0), G=(5.0, 0.5),
              B=(5.0, 0.5, 4.0, 6.0), far=9.0),
    "x": dict(guess=0.17, U=(-0.5, 0.5), G=(0.17, 0.2),
              B=(0.17, 0.2, -0.5, 0.5), far=2.0),
    "alpha": dict(guess=0.8, U=(0.5, 1.0), G=(0.8, 0.1),
                  B=(0.8, 0.1, 0.5, 1.0), far=1.5),
    "lens_angle": dict(guess=0.8, U=(0.6, 1.0), G=(0.8, 0.05),
                       B=(0.8, 0.05, 0.6, 1.0), far=1.3),
    "medium_index": dict(guess=1.33, U=(1.3, 1.36), G=(1.33, 0.01),
                         B=(1.33, 0.01, 1.3, 1.36), far=1.0),
    "noise_sd": dict(guess=0.05, U=(0.02, 0.1), G=(0.05, 0.01),
                     B=(0.05, 0.01, 0.02, 0.1), far=0.5),
    "r1": dict(guess=0.5, U=(0.3, 0.8), G=(0.5, 0.1),
               B=(0.5, 0.1, -0.25, 0.8), far=-0.1),      # far = invalid
    "x2": dict(guess=1.5, U=(0.0, 3.0), G=(1.5, 0.5),
               B=(1.5, 0.5, 0.0, 3.0), far=-1.0,
               # overlap exactly 0.125 * smallest diameter; touching;
               # touching less 1 ulp
               extra=[TOUCH - 2 * R2 * 0.125, TOUCH, TOUCH_M]),
}


def _site(guess, lo, hi, sd, far, blo=None):
    return dict(guess=guess, U=(lo, hi), G=(guess, sd),
                B=(guess, sd, lo if blo is None else blo, hi), far=far)


# "wide": every leaf of two spheres + the scaling is a parameter (11
# parameters: two-digit placeholder indices); "tie3": three spheres whose
# separately defined, equal index priors are tied with add_tie
SITES.update({
    "wn1": _site(1.59, 1.4, 1.7, 0.05, 2.5),
    "wr1": _site(0.5, 0.3, 0.8, 0.1, -0.1, blo=-0.25),
    "wx1": _site(0.0625, -0.5, 0.5, 0.2, 2.0),
    "wy1": _site(0.1, -0.5, 0.5, 0.2, 2.0),
    "wz1": _site(5.0, 4.0, 6.0, 0.5, 9.0),
    "wn2": _site(1.45, 1.36, 1.5, 0.03, 2.5),
    "wr2": _site(0.25, 0.125, 0.375, 0.05, -0.1, blo=-0.25),
    "wx2": _site(1.5, 1.375, 3.0, 0.3, 5.0),
    "wy2": _site(0.15, -0.5, 0.5, 0.2, 2.0),
    "wz2": _site(5.25, 4.0, 6.0, 0.5, 9.0),
    "tn": _site(1.59, 1.4, 1.7, 0.05, 2.5),
    "tr1": _site(0.5, 0.3, 0.8, 0.1, -0.1, blo=-0.25),
    "tr2": _site(0.4375, 0.3, 0.8, 0.1, -0.1, blo=-0.25),
    "tr3": _site(0.5625, 0.3, 0.8, 0.1, -0.1, blo=-0.25),
    # "layered": a two-layer sphere whose layer radii are parameters (any
    # negative radius makes the scatterer invalid)
    "lr1": _site(0.3, 0.1, 0.45, 0.05, -0.1, blo=-0.25),
    "lr2": _site(0.5, 0.46, 0.8, 0.05, -0.1, blo=-0.25),
    # non-spherical particles and a sphere given by layer thicknesses: any
    # negative dimension makes the scatterer invalid
    "sa": _site(0.4, 0.3, 0.6, 0.05, -0.1, blo=-0.25),
    "sc": _site(0.6, 0.45, 0.8, 0.05, -0.1, blo=-0.25),
    "cd": _site(0.6, 0.4, 0.8, 0.05, -0.1, blo=-0.25),
    "ch": _site(0.8, 0.6, 1.0, 0.05, -0.1, blo=-0.25),
    "lt1": _site(0.3, 0.1, 0.45, 0.05, -0.1, blo=-0.25),
    "lt2": _site(0.2, 0.05, 0.4, 0.05, -0.1, blo=-0.25),
    # "expr": the height is written as 10 - h, the radius as 1 - gap
    "h": _site(5.0, 4.0, 6.0, 0.5, 9.0),
    "gap": _site(0.5, 0.2, 0.7, 0.1, 2.0),
})
RADIUS_SITES = ("r", "r1", "wr1", "wr2", "tr1", "tr2", "tr3", "lr1", "lr2",
                "sa", "sc", "cd", "ch", "lt1", "lt2")
VAL_NAMES_UB = ["guess", "lower", "upper", "lower-1ulp", "upper+1ulp",
                "interior", "far"]
VAL_NAMES_G = ["guess", "mu-2sd", "mu+2sd", "interior", "far"]


def site_alphabet(site, kind):
    d = SITES[site]
    if kind in ("U", "B"):
        lb, ub = d["U"] if kind == "U" else d["B"][2:]
        vals = [d["guess"], lb, ub, float(np.nextafter(lb, -np.inf)),
                float(np.nextafter(ub, np.inf)), lb + 0.37 * (ub - lb),
                d["far"]]
    else:
        mu, sd = d["G"]
        vals = [mu, mu - 2 * sd, mu + 2 * sd, mu + 0.7 * sd, d["far"]]
    return vals + list(d.get("extra", []))


# ---------------------------------------------------------------------------
# configuration axes
# ---------------------------------------------------------------------------
KINDS = ["alpha-prior", "alpha-fixed", "exact", "two-0.1", "two-0", "two-1",
         "two-0.125", "two-tied", "lens", "exact-lens", "medium"]
KIND_SITES = {
    "alpha-prior": ["n", "r", "z", "alpha"],
    "alpha-fixed": ["n", "r", "z", "x"],
    "exact": ["n", "r", "z", "x"],
    "two-0.1": ["r1", "x2", "alpha"],
    "two-0": ["r1", "x2", "alpha"],
    "two-1": ["r1", "x2", "alpha"],
    "two-0.125": ["r1", "x2", "alpha"],
    "two-tied": ["r1", "x2", "alpha"],      # one prior used for both radii
    "lens": ["n", "lens_angle", "alpha"],
    "exact-lens": ["n", "lens_angle", "z"],
    "medium": ["n", "r", "medium_index", "alpha"],
    # dedicated cases only (not part of the configuration axes):
    "norad": ["n", "r", "z", "alpha"],       # Mie with non-default options
    "exact-norad": ["n", "r", "z", "x"],
    "wide": ["wn1", "wr1", "wx1", "wy1", "wz1", "wn2", "wr2", "wx2", "wy2",
             "wz2", "alpha"],
    "tie3": ["tn", "tr1", "tr2", "tr3", "alpha"],
    "tie3-rev": ["tn", "tr1", "tr2", "tr3", "alpha"],
    "tie2of3": ["tn", "tr1", "tr2", "tr3", "alpha"],
    "layered": ["n", "lr1", "lr2", "alpha"],
    "expr": ["n", "gap", "h", "alpha"],
    "spheroid": ["n", "sa", "sc", "alpha"],
    "cylinder": ["n", "cd", "ch", "alpha"],
    "layered-t": ["n", "lt1", "lt2", "alpha"],
    # three spheres under LimitOverlaps: the pair that can overlap does not
    # include the sphere listed last
    "three-0.1": ["r1", "x2", "alpha"],
}
EXTRA_KINDS = ["norad", "exact-norad", "wide", "tie3", "tie3-rev", "tie2of3",
               "layered", "three-0.1", "expr", "spheroid", "cylinder",
               "layered-t"]
TIE3_CENTERS = [(0.0, 0.1, 5.0), (1.5, 0.1, 5.0), (0.25, 1.625, 5.5)]
FRACTION = {"two-0.1": 0.1, "two-0": 0, "two-1": 1, "two-0.125": 0.125,
            "two-tied": 0.1, "three-0.1": 0.1}
NOISES = ["model", "data", "both", "none", "model-prior", "model@2ch",
          "model-ch", "data-ch", "both-ch"]
OPTICS = ["model", "data", "both", "split"]
PATTERNS = ["UUUU", "GUUU", "UGUU", "UUGU", "UUUG", "BUUU", "UBUU", "UUBU",
            "UUUB", "GGGG", "BBBB", "GBUG"]
DATAS = ["grid", "subset", "noisy", "noisy-subset"]
CFG_AXES = {"kind": KINDS, "noise": NOISES, "optics": OPTICS,
            "priors": PATTERNS, "data": DATAS}
ALL_PATTERNS = ["".join(p) for p in itertools.product("UGB", repeat=4)]
# quick tier: 2-deviation configurations only over these reduced alphabets
QUICK_PAIR = {"kind": ["alpha-prior", "exact", "two-0.1", "two-0", "two-tied",
                       "lens"],
              "noise": ["model", "data", "both", "none", "model-ch",
                        "data-ch"],
              "optics": ["model", "data", "both"],
              "priors": ["UUUU", "GUUU", "UBUU", "GGGG"],
              "data": ["grid", "subset", "noisy"]}


def cfg_id(cfg):
    return "k=%s,n=%s,o=%s,p=%s,d=%s" % (cfg["kind"], cfg["noise"],
                                         cfg["optics"], cfg["priors"],
                                         cfg["data"])


def cfg_sites(cfg):
    """ordered (site, prior kind) list of the configuration"""
    sites = list(KIND_SITES[cfg["kind"]])
    pat = cfg["priors"]
    out = [(s, pat[i % len(pat)]) for i, s in enumerate(sites)]
    if cfg["noise"] in ("model-prior", "dict-prior"):
        out.append(("noise_sd", "U"))
    return out


LITE_UB = [0, 2, 3, 6]         # guess, upper, lower-1ulp, far/invalid
LITE_G = [0, 2, 4]             # guess, mu+2sd, far/invalid


def param_vectors(cfg, D, block=None, lite=False):
    """index vectors (tuples) over the sites' alphabets with at most D
    deviations from the all-guess vector; block=b keeps only vectors whose
    first index is b; lite restricts every alphabet to {guess, upper bound,
    1 ulp below lower, far/invalid} (+ the overlap boundary values)"""
    ss = cfg_sites(cfg)
    axes = {}
    for s, k in ss:
        n = len(site_alphabet(s, k))
        if lite:
            base = LITE_G if k == "G" else LITE_UB
            nb = 5 if k == "G" else 7
            axes[s] = base + list(range(nb, n))
        else:
            axes[s] = list(range(n))
    pos = {s: list(range(len(v))) for s, v in axes.items()}
    for vec in deviations(pos, D):
        t = tuple(axes[s][vec[s]] for s, _ in ss)
        if block is not None and t[0] != block:
            continue
        yield t


def cases(tier, seed):
    out = []
    idx_axes = {k: list(range(len(v))) for k, v in CFG_AXES.items()}
    for vec in deviations(idx_axes, 2):
        cfg = {k: CFG_AXES[k][i] for k, i in vec.items()}
        ndev = sum(1 for i in vec.values() if i)
        nsites = len(cfg_sites(cfg))
        lite = False
        if tier == "thorough":
            if ndev <= 1:
                D = nsites if nsites <= 4 else 3
                nb = len(site_alphabet(*cfg_sites(cfg)[0]))
                for b in range(nb):
                    out.append({"id": "cfg:%s:D=%d:b=%d" % (cfg_id(cfg), D, b),
                                "kind": "cfg", "cfg": cfg, "D": D,
                                "block": b, "lite": False})
                continue
            D = 1
        else:
            D = 2 if ndev == 0 else 1
            lite = ndev == 2
            if lite and any(cfg[k] not in QUICK_PAIR[k] for k in cfg):
                continue
        out.append({"id": "cfg:%s:D=%d%s" % (cfg_id(cfg), D,
                                              ":lite" if lite else ""),
                    "kind": "cfg", "cfg": cfg, "D": D, "block": None,
                    "lite": lite})
    # every prior-kind pattern on the default configuration (thorough)
    if tier == "thorough":
        for p in ALL_PATTERNS:
            if p in PATTERNS:
                continue
            cfg = {"kind": "alpha-prior", "noise": "model", "optics": "model",
                   "priors": p, "data": "grid"}
            out.append({"id": "cfg:%s:D=2" % cfg_id(cfg), "kind": "cfg",
                        "cfg": cfg, "D": 2, "block": None, "lite": False})
    # per-channel noise given as a dict on the model (dedicated cases)
    for kind in ("alpha-prior", "exact"):
        for noise in ("dict", "dict-prior", "list-ch", "tuple-data-ch"):
            cfg = {"kind": kind, "noise": noise, "optics": "model",
                   "priors": "UUUU", "data": "noisy"}
            out.append({"id": "dictnoise:%s:%s" % (kind, noise),
                        "kind": "cfg", "cfg": cfg, "D": 1, "block": None,
                        "lite": False})
    # more than ten parameters, theory objects with non-default options,
    # parameters tied with add_tie (dedicated cases)
    for kind in EXTRA_KINDS:
        for noise, optics, pat, data in (
                ("model", "model", "UUUU", "noisy"),
                ("data", "data", "UGBU", "subset")):
            cfg = {"kind": kind, "noise": noise, "optics": optics,
                   "priors": pat, "data": data}
            D = 1 if tier == "quick" else 2
            out.append({"id": "extra:%s:D=%d" % (cfg_id(cfg), D),
                        "kind": "cfg", "cfg": cfg, "D": D, "block": None,
                        "lite": False})
    # things a model must not share or demand (dedicated cases)
    for nm in ("constraints-not-shared", "support-before-substitution",
               "zero-d-optics", "several-constraints"):
        out.append({"id": "misc:" + nm, "kind": "misc", "what": nm})
    # one model object evaluated against several data sets in every order
    for mk in MODEL_KINDS:
        out.append({"id": "misc:one-model-several-data:" + mk,
                    "kind": "misc", "what": "several-data", "model": mk,
                    "tier": tier})
    # pixels=k path under every scripted selection
    shapes = [(2, 2)] if tier == "quick" else [(2, 2), (2, 3)]
    for shape in shapes:
        tot = shape[0] * shape[1]
        for kind in ("alpha-prior", "exact"):
            for noise in ("model", "data-ch"):
                for k in range(1, tot + 1):
                    if shape == (2, 3) and (noise != "model" or k > 4):
                        continue
                    for first in range(tot):
                        out.append({
                            "id": "pixels:%dx%d:%s:%s:k=%d:first=%d" %
                                  (shape[0], shape[1], kind, noise, k, first),
                            "kind": "pixels", "shape": list(shape),
                            "mkind": kind, "noise": noise, "k": k,
                            "first": first})
    return out


# ---------------------------------------------------------------------------
# building the model, the data and the harness's own substituted objects
# ---------------------------------------------------------------------------
class Counter:
    def __init__(self):
        self.n = 0


def _mk_prior(site, kind):
    from holopy.inference import prior
    d = SITES[site]
    name = "p_" + site
    if kind == "U":
        return prior.Uniform(d["U"][0], d["U"][1], guess=d["guess"],
                             name=name)
    if kind == "G":
        return prior.Gaussian(d["G"][0], d["G"][1], name=name)
    return prior.BoundedGaussian(*d["B"], name=name)


def _truth_holo(shape, nch):
    from holopy.core.metadata import detector_grid
    from holopy.scattering import Sphere, Mie, calc_holo
    if nch == 2:
        det = detector_grid(shape, 0.1, extra_dims={"illumination": CH})
        wl = WL2
    else:
        det = detector_grid(shape, 0.1)
        wl = WL
    sph = Sphere(n=1.55, r=0.55, center=(0.17, 0.11, 5.2))
    return calc_holo(det, sph, medium_index=NMED, illum_wavelen=wl,
                     illum_polarization=POL, theory=Mie(), scaling=0.9)


def _pattern(shape):
    idx = np.indices(shape)
    ph = 1.0
    for ax, w in zip(idx, (2.3, 0.7, 1.1, 0.45)):
        ph = ph + w * ax
    return 0.04 * np.sin(ph)


class Ctx:
    pass


def _mk_scat(kind, g):
    """the scatterer of a model kind from g(site, fixed value)"""
    from holopy.scattering import Sphere, Spheres
    if kind.startswith("two") or kind.startswith("three"):
        tied = kind == "two-tied"
        mem = [Sphere(n=1.59, r=g("r1", 0.5), center=(0.0, 0.1, 5.0)),
               Sphere(n=1.45, r=g("r1", 0.5) if tied else R2,
                      center=(g("x2", 1.5), 0.1, 5.0))]
        if kind.startswith("three"):
            # far from the other two for every value of the alphabets
            mem.append(Sphere(n=1.5, r=0.25, center=(0.0, 3.5, 5.0)))
        return Spheres(mem, warn=False)
    if kind == "expr":
        # reflected arithmetic: a number minus / over a parameter
        return Sphere(n=g("n", 1.59), r=1.0 - g("gap", 0.5),
                      center=(0.17, 0.11, 10.0 - g("h", 5.0)))
    if kind == "spheroid":
        from holopy.scattering import Spheroid
        return Spheroid(n=g("n", 1.59), r=(g("sa", 0.4), g("sc", 0.6)),
                        rotation=(0, 0.4, 0), center=(0.17, 0.11, 5.0))
    if kind == "cylinder":
        from holopy.scattering import Cylinder
        return Cylinder(n=g("n", 1.59), d=g("cd", 0.6), h=g("ch", 0.8),
                        rotation=(0, 0.4, 0), center=(0.17, 0.11, 5.0))
    if kind == "layered-t":
        from holopy.scattering.scatterer import LayeredSphere
        return LayeredSphere(n=[g("n", 1.59), 1.45],
                             t=[g("lt1", 0.3), g("lt2", 0.2)],
                             center=(0.17, 0.11, 5.0))
    if kind == "layered":
        return Sphere(n=[g("n", 1.59), 1.45],
                      r=[g("lr1", 0.3), g("lr2", 0.5)],
                      center=(0.17, 0.11, 5.0))
    if kind == "wide":
        return Spheres([Sphere(n=g("wn1", 1.59), r=g("wr1", 0.5),
                               center=(g("wx1", 0.0625), g("wy1", 0.1),
                                       g("wz1", 5.0))),
                        Sphere(n=g("wn2", 1.45), r=g("wr2", 0.25),
                               center=(g("wx2", 1.5), g("wy2", 0.15),
                                       g("wz2", 5.25)))], warn=False)
    if kind.startswith("tie"):
        return Spheres([Sphere(n=g("tn%d" % i, 1.59), r=g("tr%d" % (i + 1),
                                                           0.5),
                               center=TIE3_CENTERS[i]) for i in range(3)],
                       warn=False)
    return Sphere(n=g("n", 1.59), r=g("r", 0.5),
                  center=(g("x", 0.17), 0.11, g("z", 5.0)))


def _mk_theory(kind, lens_angle=None):
    from holopy.scattering import Mie, MieLens
    if kind in ("lens", "exact-lens"):
        return MieLens(lens_angle=lens_angle)
    if kind in ("norad", "exact-norad"):
        return Mie(compute_escat_radial=False, full_radial_dependence=False)
    if kind in ("spheroid", "cylinder"):
        from holopy.scattering import Tmatrix
        return Tmatrix()
    return Mie()


def build(cfg, shape=(4, 4), subset_pixels=7):
    """construct model + data for a configuration.  Returns Ctx."""
    import xarray as xr
    from holopy.core.metadata import make_subset_data, update_metadata
    from holopy.inference import AlphaModel, ExactModel
    from holopy.inference.model import LimitOverlaps
    import holopy.inference.model as M
    from holopy.scattering import (Sphere, Spheres, Mie, MieLens, calc_holo)

    c = Ctx()
    c.cfg = cfg
    kind, noise, optics = cfg["kind"], cfg["noise"], cfg["optics"]
    c.nch = 2 if (noise.endswith("ch") or noise.startswith("dict")) else 1
    # ("list-ch" / "tuple-data-ch": one noise level per channel as a bare
    # sequence in the order of the data's channels)
    c.sites = cfg_sites(cfg)
    c.priors = {s: _mk_prior(s, k) for s, k in c.sites}
    c.kinds = dict(c.sites)
    c.names = {s: "p_" + s for s, _ in c.sites}
    P = c.priors
    wl = WL2 if c.nch == 2 else WL
    wrong = WRONG2 if c.nch == 2 else WRONG

    def site(s, fixed):
        return P[s] if s in P else fixed

    # ---- scatterer / theory with priors -----------------------------------
    c.two = kind.startswith("two") or kind.startswith("three")
    c.tied = kind == "two-tied"
    constraints = [LimitOverlaps(FRACTION[kind])] if c.two else []
    tie_names = None
    if kind.startswith("tie"):
        # the index priors of the three spheres are separately defined and
        # equal; 'tie3' ties all three, 'tie3-rev' names them in reverse
        # order, 'tie2of3' ties the first and the last only
        extra_n = [_mk_prior("tn", c.kinds["tn"]).renamed("p_tn_%d" % i)
                   for i in (1, 2)]
        npri = [P["tn"]] + extra_n
        if kind == "tie2of3":
            npri[1] = 1.59
            tie_names = ["p_tn", "p_tn_2"]
        else:
            tie_names = ["p_tn", "p_tn_1", "p_tn_2"]
        if kind == "tie3-rev":
            tie_names = tie_names[::-1]

        def site(s, fixed):
            if s.startswith("tn"):
                return npri[int(s[2:])]
            return P[s] if s in P else fixed
    scat = _mk_scat(kind, site)
    theory = _mk_theory(kind, P.get("lens_angle"))
    # ---- optics -------------------------------------------------------------
    mopt = {}
    if optics in ("model", "both"):
        mopt = dict(medium_index=NMED, illum_wavelen=wl,
                    illum_polarization=POL)
    elif optics == "split":
        mopt = dict(medium_index=NMED)
    if "medium_index" in P:
        mopt["medium_index"] = P["medium_index"]
    if optics == "model":
        dopt = {}
    elif optics == "data":
        dopt = dict(medium_index=NMED, illum_wavelen=wl,
                    illum_polarization=POL)
    elif optics == "both":
        dopt = dict(wrong)
    else:                                   # split: data's medium is ignored
        dopt = dict(medium_index=wrong["medium_index"], illum_wavelen=wl,
                    illum_polarization=POL)
    # ---- noise ----------------------------------------------------------------
    chx = lambda d: xr.DataArray([d[k] for k in CH], dims=["illumination"],
                                 coords={"illumination": CH})
    mnoise, dnoise = None, None
    if noise in ("model", "both", "model@2ch"):
        mnoise = SD_MODEL
    if noise in ("data", "both"):
        dnoise = SD_DATA
    if noise == "model-prior":
        mnoise = P["noise_sd"]
    if noise in ("model-ch", "both-ch"):
        mnoise = chx(SD_MODEL_CH)
    if noise in ("data-ch", "both-ch"):
        dnoise = dict(SD_DATA_CH)          # update_metadata converts the dict
    if noise == "list-ch":
        mnoise = [SD_MODEL_CH[k] for k in CH]
    if noise == "tuple-data-ch":
        dnoise = tuple(SD_DATA_CH[k] for k in CH)
    if noise == "dict":
        mnoise = dict(SD_MODEL_CH)
    if noise == "dict-prior":
        mnoise = {"red": SD_MODEL_CH["red"], "green": P["noise_sd"]}
    c.noise_mode = noise
    # ---- model ------------------------------------------------------------------
    c.counter = Counter()
    c.exact = kind.startswith("exact")
    c.public_calc_holo = calc_holo
    if c.exact:
        def counting_calc(detector, scatterer, **kw):
            c.counter.n += 1
            return calc_holo(detector, scatterer, **kw)
        c.model = ExactModel(scat, calc_func=counting_calc, noise_sd=mnoise,
                             theory=theory, constraints=constraints, **mopt)
        c.fixed_alpha = 1.0
        c.seam = True
    else:
        alpha = site("alpha", 0.7)
        c.fixed_alpha = 0.7
        c.model = AlphaModel(scat, alpha=alpha, noise_sd=mnoise,
                             theory=theory, constraints=constraints, **mopt)
        c.seam = hasattr(M, "calc_holo")
        if c.seam:
            orig = M.calc_holo

            def counting_holo(*a, **kw):
                c.counter.n += 1
                return orig(*a, **kw)
            M.calc_holo = counting_holo
    if tie_names:
        c.model.add_tie(tie_names, new_name="p_tn")
    # ---- data ---------------------------------------------------------------------
    truth = _truth_holo(shape, c.nch)
    vals = truth.values.copy()
    if cfg["data"].startswith("noisy"):
        vals = vals + _pattern(vals.shape)
    data = truth.copy(data=vals)
    data.attrs = {"medium_index": None, "illum_wavelen": None,
                  "illum_polarization": None, "noise_sd": None}
    kw = dict(dopt)
    if dnoise is not None:
        kw["noise_sd"] = dnoise
    if kw:
        data = update_metadata(data, **kw)
    c.grid_data = data
    if cfg["data"].endswith("subset"):
        data = make_subset_data(data, pixels=subset_pixels, seed=3)
    c.data = data
    # ---- what the harness knows to be the applicable optics / noise -------------
    c.optics_true = dict(medium_index=NMED, illum_wavelen=wl,
                         illum_polarization=POL)
    return c


def names_ok(c):
    """map every site to the key model.parameters uses for its prior: the
    prior's own name, else (naming is C11's subject, not this property's)
    the unique parameter that equals the prior apart from its name"""
    mp = c.model.parameters
    got = list(mp)
    if sorted(got) == sorted(c.names.values()):
        return True, got
    names = {}
    for s, _ in c.sites:
        mine = c.priors[s].renamed(None)
        hits = [nm for nm, p in mp.items() if p.renamed(None) == mine]
        if len(hits) != 1 or hits[0] in names.values():
            return False, got
        names[s] = hits[0]
    if len(names) != len(mp):
        return False, got
    c.names = names
    return True, got


def values_of(c, vec):
    return {s: site_alphabet(s, k)[i] for (s, k), i in zip(c.sites, vec)}


def pars_of(c, vals):
    return {c.names[s]: v for s, v in vals.items()}


def harness_forward(c, vals, detector):
    """the public hologram calculation on objects built from plain numbers"""
    kind = c.cfg["kind"]

    def g(s, fixed):
        if kind.startswith("tie") and s.startswith("tn"):
            if kind == "tie2of3" and s == "tn1":
                return 1.59
            return vals["tn"]
        return vals[s] if s in vals else fixed
    scat = _mk_scat(kind, g)
    theory = _mk_theory(kind, vals.get("lens_angle"))
    opt = dict(c.optics_true)
    if "medium_index" in vals:
        opt["medium_index"] = vals["medium_index"]
    alpha = g("alpha", c.fixed_alpha)
    return c.public_calc_holo(detector, scat, theory=theory, scaling=alpha,
                              **opt)


# ---------------------------------------------------------------------------
# oracles
# ---------------------------------------------------------------------------
def support_and_density(c, vals):
    """(all values inside their supports?, per-site closed-form log density
    -- None where the property gives no closed form: BoundedGaussian is
    documented as 'proportional to' only)"""
    ok = True
    terms = []
    for s, k in c.sites:
        v = vals[s]
        d = SITES[s]
        if k == "U":
            lb, ub = d["U"]
            if v < lb or v > ub:
                ok = False
                terms.append(NEG_INF)
            else:
                terms.append(-math.log(ub - lb))
        elif k == "G":
            mu, sd = d["G"]
            terms.append(-math.log(sd) - 0.5 * math.log(2 * math.pi)
                         - (v - mu) ** 2 / (2 * sd * sd))
        else:
            mu, sd, lb, ub = d["B"]
            if v < lb or v > ub:
                ok = False
                terms.append(NEG_INF)
            else:
                terms.append(None)      # "proportional to": no closed form
    return ok, terms


def scatterer_valid(c, vals):
    for s in RADIUS_SITES:
        if s in vals and vals[s] < 0:
            return False
    if "gap" in vals and 1.0 - vals["gap"] < 0:      # r = 1 - gap
        return False
    return True


def constraint_ok(c, vals):
    """exact rational evaluation of 'largest overlap <= fraction * smallest
    diameter'; returns True/False/None (None: within rounding of the
    boundary without being exactly on it -> not asserted)"""
    if not c.two:
        return True
    r1 = Fraction(vals.get("r1", 0.5))
    r2 = r1 if c.tied else Fraction(R2)
    dist = abs(Fraction(vals.get("x2", 1.5)))
    overlap = max(Fraction(0), r1 + r2 - dist)
    limit = 2 * min(r1, r2) * Fraction(FRACTION[c.cfg["kind"]])
    margin = limit - overlap
    if margin != 0 and abs(margin) < Fraction(1, 10 ** 12) and \
            not (overlap > 0 and limit == 0):
        return None
    return margin >= 0


def noise_expected(c, vals):
    """('sd', scalar or per-channel list) | ('missing',)"""
    m = c.noise_mode
    if m in ("model", "both", "model@2ch"):
        return ("sd", SD_MODEL)
    if m == "data":
        return ("sd", SD_DATA)
    if m == "model-prior":
        return ("sd", vals["noise_sd"])
    if m in ("model-ch", "both-ch", "dict", "list-ch"):
        return ("sd", [SD_MODEL_CH[k] for k in CH])
    if m == "dict-prior":
        return ("sd", [SD_MODEL_CH["red"], vals["noise_sd"]])
    if m in ("data-ch", "tuple-data-ch"):
        return ("sd", [SD_DATA_CH[k] for k in CH])
    # none
    if all(k == "U" for _, k in c.sites):
        return ("sd", 1.0)
    return ("missing",)


def gauss_loglike(F, D, sd):
    """sum over pixels of log N(D | F, sd); F, D DataArrays; sd scalar or
    list per channel (dimension 'illumination').  Returns (value, scale)."""
    F = F.transpose(*D.dims)
    terms = []
    if isinstance(sd, list):
        for lab, s in zip(CH, sd):
            f = np.asarray(F.sel(illumination=lab).values, float).ravel()
            d = np.asarray(D.sel(illumination=lab).values, float).ravel()
            for a, b in zip(f, d):
                terms += [-0.5 * math.log(2 * math.pi), -math.log(s),
                          -0.5 * ((a - b) / s) ** 2]
    else:
        f = np.asarray(F.values, float).ravel()
        d = np.asarray(D.values, float).ravel()
        for a, b in zip(f, d):
            terms += [-0.5 * math.log(2 * math.pi), -math.log(sd),
                      -0.5 * ((a - b) / sd) ** 2]
    n = len(terms) // 3
    assert n == D.size
    scale = abs(math.fsum(terms[0::3])) + abs(math.fsum(terms[1::3])) + \
        abs(math.fsum(terms[2::3]))
    return math.fsum(terms), max(scale, 1.0)


def _is_missing(e):
    return type(e).__name__ == "MissingParameter"


# ---------------------------------------------------------------------------
# one parameter vector
# ---------------------------------------------------------------------------
def check_vector(c, ck, vec, tag, acc=None, lite=False):
    vals = values_of(c, vec)
    pars = pars_of(c, vals)
    what = "%s vals=%r" % (tag, vals)
    in_sup, terms = support_and_density(c, vals)
    valid = scatterer_valid(c, vals)
    cons = constraint_ok(c, vals)
    model, data = c.model, c.data
    ndev = sum(1 for i in vec if i)

    # ---- lnprior ---------------------------------------------------------
    ck.trans += 1
    try:
        lp = float(model.lnprior(pars))
    except Exception as e:                                   # noqa
        ck.true("lnprior-computable", False, "lnprior raised %s: %s (%s)" %
                (type(e).__name__, str(e)[:200], what))
        return
    ck.true("lnprior-not-nan", lp == lp and lp != float("inf"),
            "lnprior is %r (%s)" % (lp, what))
    if cons is None and in_sup and valid:
        ck.metric("constraint-boundary-skipped", 1.0)
        return
    exp_neginf = (not in_sup) or (not valid) or (cons is False)
    if exp_neginf:
        why = []
        if not in_sup:
            why.append("outside-support")
        if not valid:
            why.append("invalid-scatterer")
        if cons is False:
            why.append("constraint")
        ck.true("lnprior-neginf:" + "+".join(why),
                lp == NEG_INF, "lnprior = %r, expected -inf (%s) (%s)" %
                (lp, ", ".join(why), what))
    else:
        ck.true("lnprior-finite", lp != NEG_INF and lp == lp,
                "lnprior = %r although every value is inside its support, "
                "the scatterer is valid and no constraint is violated (%s)"
                % (lp, what))
        # sum of the parameters' own log densities
        own = [float(c.priors[s].lnprob(vals[s])) for s, _ in c.sites]
        ck.trans += len(own)
        tot = 0
        for t in own:
            tot = tot + t
        unit = EPS * max(math.fsum(abs(t) for t in own), abs(lp), 1e-300)
        e = abs(lp - math.fsum(own)) / unit
        ck.metric("lnprior-sum-eps", e)
        ck.true("lnprior-sum", e <= 64, "lnprior %r differs from the sum of "
                "the priors' own lnprob %r by %.3g eps*sum|terms| (%s)" %
                (lp, tot, e, what))
        cf = [t if t is not None else o for t, o in zip(terms, own)]
        ref = math.fsum(cf)
        scale = max(1.0, math.fsum(abs(t) for t in cf))
        e = abs(lp - ref) / scale
        ck.metric("lnprior-closed-form", e)
        ck.true("lnprior-closed-form", e <= 1e-12,
                "lnprior %r differs from the closed-form sum of log "
                "densities %r by %.3e (%s)" % (lp, ref, e, what))
    if acc is not None:
        acc.append(repr(lp))

    # ---- lnposterior -----------------------------------------------------
    nexp = noise_expected(c, vals)
    c.counter.n = 0
    post, post_exc = None, None
    try:
        post = float(model.lnposterior(pars, data))
    except Exception as e:                                   # noqa
        post_exc = e
    ck.trans += 1
    ncalc_post = c.counter.n
    if exp_neginf:
        if post_exc is not None:
            ck.true("posterior-neginf", _is_missing(post_exc) and
                    nexp[0] == "missing",
                    "lnposterior raised %s: %s for a vector with lnprior = "
                    "-inf (%s)" % (type(post_exc).__name__, post_exc, what))
        else:
            ck.true("posterior-neginf", post == NEG_INF, "lnposterior = %r "
                    "although lnprior must be -inf (%s)" % (post, what))
        ck.true("short-circuit", ncalc_post == 0, "%d hologram "
                "calculation(s) were made although the prior is -inf (%s)" %
                (ncalc_post, what))
        if acc is not None:
            acc.append("S")
        # the likelihood itself does not depend on the prior: check it on
        # the single-deviation vectors whose scatterer is valid
        if valid and ndev <= 1 and nexp[0] == "sd" and not lite:
            _check_like(c, ck, vals, pars, what, nexp)
        return
    # ---- finite prior: likelihood and forward model ----------------------
    if nexp[0] == "missing":
        ck.true("noise-missing", post_exc is not None and
                _is_missing(post_exc), "no noise level on the model or the "
                "data and non-uniform priors: expected MissingParameter, got "
                "%r / %r (%s)" % (post, post_exc, what))
        try:
            model.lnlike(pars, data)
            ck.true("noise-missing", False, "lnlike returned a value without "
                    "any noise level (%s)" % what)
        except Exception as e:                               # noqa
            ck.true("noise-missing", _is_missing(e), "lnlike raised %s "
                    "instead of MissingParameter (%s)" %
                    (type(e).__name__, what))
        ck.trans += 1
        # the forward model does not need a noise level
        _check_forward(c, ck, vals, pars, what)
        if acc is not None:
            acc.append("M")
        return
    if c.seam and post_exc is None and ncalc_post == 0 and post != NEG_INF:
        c.seam = False
        ck.metric("seam-missing", 1.0)
    ll = _check_like(c, ck, vals, pars, what, nexp)
    if ll == "refused":
        if acc is not None:
            acc.append("R")
        return
    if post_exc is not None:
        ck.true("posterior-computable", False, "lnposterior raised %s: %s "
                "(%s)" % (type(post_exc).__name__, str(post_exc)[:200], what))
        return
    if ll is not None:
        s = lp + ll
        if math.isinf(s) or math.isinf(post):
            e = 0.0 if s == post else float("inf")
        else:
            e = abs(post - s) / (EPS * max(abs(lp) + abs(ll), 1e-300))
        ck.metric("posterior-sum-eps", e)
        ck.true("posterior-sum", e <= 32, "lnposterior %r != lnprior %r + "
                "lnlike %r = %r (%.3g eps*(|lnprior|+|lnlike|)) (%s)" %
                (post, lp, ll, s, e, what))
    if acc is not None:
        acc.append(repr(post))


def _check_like(c, ck, vals, pars, what, nexp):
    """forward == public calc_holo; lnlike == Gaussian log density.
    Returns lnlike, None (lnlike failed) or 'refused'"""
    Fh = _check_forward(c, ck, vals, pars, what)
    if Fh is None:
        return "refused"
    try:
        ll = float(c.model.lnlike(pars, c.data))
    except Exception as e:                                   # noqa
        ck.trans += 1
        ck.true("lnlike-computable", False, "lnlike raised %s: %s (%s)" %
                (type(e).__name__, str(e)[:200], what))
        return None
    ck.trans += 1
    ref, scale = gauss_loglike(Fh, c.data, nexp[1])
    e = abs(ll - ref) / scale
    ck.metric("lnlike-formula", e)
    ck.true("lnlike-formula", e <= 1e-11, "lnlike = %r, Gaussian log "
            "density of the residuals at sd=%r is %r (rel. diff %.3e) "
            "(%s)" % (ll, nexp[1], ref, e, what))
    return ll


def _check_forward(c, ck, vals, pars, what):
    """model.forward == harness calc_holo, bit for bit; returns harness F"""
    try:
        Fh = harness_forward(c, vals, c.data)
    except Exception as e:                                   # noqa
        # the public calculation itself refuses this input: nothing to
        # compare the model with
        ck.metric("public-calc-refused", 1.0)
        return None
    Fm = c.model.forward(pars, c.data)
    ck.trans += 2
    ok = hasattr(Fm, "dims") and set(Fm.dims) == set(Fh.dims)
    ck.true("forward-dims", ok, "forward returned %r, public calc_holo dims "
            "%r (%s)" % (getattr(Fm, "dims", type(Fm)), Fh.dims, what))
    if not ok:
        return Fh
    Fm = Fm.transpose(*Fh.dims)
    same = bits_equal(np.asarray(Fm.values), np.asarray(Fh.values))
    if not same:
        d = float(np.max(np.abs(Fm.values - Fh.values))) \
            if Fm.shape == Fh.shape else float("inf")
        ck.metric("forward-bits", d)
    else:
        ck.metric("forward-bits", 0.0)
    ck.true("forward-bits", same, "model.forward differs from the public "
            "calc_holo on the substituted scatterer/theory/optics/scaling "
            "(%s)" % what, obs=np.asarray(Fm.values).ravel()[:4].tolist(),
            exp=np.asarray(Fh.values).ravel()[:4].tolist())
    for cname in ("x", "y"):
        ck.true("forward-coords", cname in Fm.coords and np.array_equal(
            np.asarray(Fm.coords[cname].values),
            np.asarray(c.data.coords[cname].values)),
            "forward: coordinate %s differs from the data's (%s)" %
            (cname, what))
    return Fh


# ---------------------------------------------------------------------------
# case kinds
# ---------------------------------------------------------------------------
def _run_cfg(case, ck):
    from holopy.core.utils import LnpostWrapper
    cfg = case["cfg"]
    c = build(cfg)
    ok, got = names_ok(c)
    if not ok:
        # parameter naming is C11's subject; without it nothing here can be
        # addressed through the public dict interface
        ck.true("parameter-names", False, "model.parameters keys %r, "
                "expected the priors' own names %r" %
                (got, sorted(c.names.values())))
        return "names"
    acc = []
    nvec = 0
    for vec in param_vectors(cfg, case["D"], case.get("block"),
                             case.get("lite", False)):
        check_vector(c, ck, vec, "vec=%s" % (list(vec),), acc=acc,
                     lite=case.get("lite", False))
        nvec += 1
        if len(ck.viol) >= 12:        # the case is decided; keep replays small
            break
    ck.metric("vectors-per-case", nvec)
    # ---- list form == dict form; LnpostWrapper ---------------------------
    if case.get("block") in (None, 0):
        order = list(c.model.parameters)
        alph = {s: site_alphabet(s, k) for s, k in c.sites}
        guess = {s: alph[s][0] for s, _ in c.sites}
        s0 = c.sites[0][0]
        outside = dict(guess)
        outside[s0] = SITES[s0]["far"]
        interior = {s: alph[s][5 if c.kinds[s] != "G" else 3]
                    for s, _ in c.sites}
        for label, vals in (("guess", guess), ("far", outside),
                            ("interior", interior)):
            pars = pars_of(c, vals)
            plist = [pars[nm] for nm in order]
            try:
                a = c.model.lnprior(pars)
                b = c.model.lnprior(plist)
                ck.trans += 2
                ck.true("list-form", ulp_diff(a, b) == 0, "lnprior(list) %r "
                        "!= lnprior(dict) %r at %s" % (b, a, label))
            except Exception as e:                           # noqa
                ck.true("list-form", False, "lnprior raised %s at %s" %
                        (type(e).__name__, label))
            try:
                ref = c.model.lnposterior(pars, c.data)
            except Exception as e:                           # noqa
                ref = e
            for minus in (False, True):
                w = LnpostWrapper(c.model, c.data, None, minus)
                c.counter.n = 0
                try:
                    got = w.evaluate(plist)
                except Exception as e:                       # noqa
                    got = e
                ck.trans += 1
                if isinstance(ref, Exception) or isinstance(got, Exception):
                    ck.true("wrapper", type(ref) is type(got),
                            "LnpostWrapper(minus=%r).evaluate gave %r, "
                            "lnposterior gave %r at %s" %
                            (minus, got, ref, label))
                    continue
                exp = -ref if minus else ref
                ck.true("wrapper", ulp_diff(got, exp) == 0,
                        "LnpostWrapper(minus=%r).evaluate = %r, expected %r "
                        "(lnposterior = %r) at %s" %
                        (minus, got, exp, ref, label))
                if ref == NEG_INF:
                    ck.true("short-circuit", c.counter.n == 0,
                            "LnpostWrapper.evaluate computed a hologram for "
                            "a vector with prior -inf (%s)" % label)
                acc.append(repr(got))
    return digest(*acc)


class ChoiceScript:
    """scripted numpy.random.choice"""

    def __init__(self):
        self.answer = None
        self.calls = []

    def __call__(self, a, size=None, replace=True, p=None):
        self.calls.append((a, size, replace))
        return np.array(self.answer, dtype=int)


def _run_pixels(case, ck):
    from holopy.core.metadata import make_subset_data
    from holopy.core.utils import LnpostWrapper
    shape = tuple(case["shape"])
    tot = shape[0] * shape[1]
    k = case["k"]
    cfg = {"kind": case["mkind"], "noise": case["noise"], "optics": "model",
           "priors": "UUGU", "data": "noisy"}
    c = build(cfg, shape=shape)
    ok, got = names_ok(c)
    if not ok:
        ck.true("parameter-names", False, "model.parameters keys %r" % got)
        return "names"
    alph = {s: site_alphabet(s, kk) for s, kk in c.sites}
    guess = {s: alph[s][0] for s, _ in c.sites}
    interior = {s: alph[s][5 if c.kinds[s] != "G" else 3]
                for s, _ in c.sites}
    outside = dict(guess)
    outside[c.sites[0][0]] = alph[c.sites[0][0]][3]     # 1 ulp below lower
    order = list(c.model.parameters)
    nexp = noise_expected(c, guess)
    full = c.data
    script = ChoiceScript()
    real_choice = np.random.choice
    sels = [(case["first"],) + rest for rest in itertools.permutations(
        [i for i in range(tot) if i != case["first"]], k - 1)]
    acc = []
    seam_hit = True
    try:
        np.random.choice = script
        for sel in sels:
            script.answer = list(sel)
            for label, vals in (("guess", guess), ("interior", interior)):
                pars = pars_of(c, vals)
                what = "selection %r, k=%d, %s" % (list(sel), k, label)
                script.calls = []
                a = float(c.model.lnposterior(pars, full, pixels=k))
                ck.trans += 1
                if not script.calls:
                    seam_hit = False
                    break
                sub = make_subset_data(full, pixels=k)
                b = float(c.model.lnposterior(pars, sub))
                ck.trans += 2
                ck.true("pixels-path", ulp_diff(a, b) == 0 and a == a,
                        "lnposterior(pixels=%d) = %r, on make_subset_data "
                        "with the same selection %r (%s)" % (k, a, b, what))
                ck.true("pixels-size", sub.size == k * c.nch,
                        "subset has %d values, expected %d (%s)" %
                        (sub.size, k * c.nch, what))
                if k >= 2:
                    # the same option on data that are a subset already:
                    # the first k - 1 of its locations
                    script.answer = list(range(k - 1))
                    a2 = float(c.model.lnposterior(pars, sub, pixels=k - 1))
                    sub2 = make_subset_data(sub, pixels=k - 1)
                    b2 = float(c.model.lnposterior(pars, sub2))
                    script.answer = list(sel)
                    ck.trans += 3
                    ck.true("pixels-path-on-subset", ulp_diff(a2, b2) == 0 and
                            a2 == a2 and sub2.size == (k - 1) * c.nch,
                            "lnposterior(subset of %d, pixels=%d) = %r, on "
                            "make_subset_data of that subset (%d values) %r "
                            "(%s)" % (k, k - 1, a2, sub2.size, b2, what))
                # independent value: prior + Gaussian density on the subset
                Fh = harness_forward(c, vals, sub)
                ll, scale = gauss_loglike(Fh, sub, nexp[1])
                lp = float(c.model.lnprior(pars))
                e = abs(a - (lp + ll)) / (scale + abs(lp))
                ck.metric("pixels-formula", e)
                ck.true("pixels-formula", e <= 1e-11, "lnposterior(pixels=%d)"
                        " = %r, lnprior + Gaussian log density on the "
                        "selected pixels = %r (%.3e) (%s)" %
                        (k, a, lp + ll, e, what))
                # subset pixels carry the grid hologram's values
                Fg = harness_forward(c, vals, full)
                fx = np.asarray(sub.coords["x"].values)
                fy = np.asarray(sub.coords["y"].values)
                for j in range(k):
                    g = Fg.sel(x=fx[j], y=fy[j]).values.ravel()
                    h = Fh.isel(flat=j).values.ravel()
                    e = float(np.max(np.abs(g - h)))
                    ck.metric("subset-vs-grid", e)
                    ck.true("subset-vs-grid", e <= 1e-12, "forward value on "
                            "subset pixel %d differs from the grid value at "
                            "the same position by %.2e (%s)" % (j, e, what))
                for minus in (False, True):
                    script.calls = []
                    w = LnpostWrapper(c.model, full, k, minus)
                    g = float(w.evaluate([pars[nm] for nm in order]))
                    ck.trans += 1
                    ck.true("wrapper-pixels", ulp_diff(g, -a if minus else a)
                            == 0, "LnpostWrapper(new_pixels=%d, minus=%r)."
                            "evaluate = %r, lnposterior(pixels) = %r (%s)" %
                            (k, minus, g, a, what))
                acc.append(repr(a))
            if not seam_hit:
                break
            # out of support: -inf, nothing computed
            c.counter.n = 0
            p = float(c.model.lnposterior(pars_of(c, outside), full,
                                          pixels=k))
            ck.trans += 1
            ck.true("posterior-neginf", p == NEG_INF, "lnposterior(pixels=%d)"
                    " = %r for a value 1 ulp below the lower bound" % (k, p))
            ck.true("short-circuit", c.counter.n == 0, "hologram computed "
                    "for a vector outside the prior's support (pixels path)")
    finally:
        np.random.choice = real_choice
    if not seam_hit:
        # the code no longer draws through numpy.random.choice: enumerate
        # seeds of the real generator instead
        ck.metric("choice-seam-missing", 1.0)
        for seed in range(5):
            for label, vals in (("guess", guess), ("interior", interior)):
                pars = pars_of(c, vals)
                np.random.seed(seed)
                a = float(c.model.lnposterior(pars, full, pixels=k))
                sub = make_subset_data(full, pixels=k, seed=seed)
                b = float(c.model.lnposterior(pars, sub))
                ck.trans += 3
                ck.true("pixels-path", ulp_diff(a, b) == 0 and a == a,
                        "seed %d: lnposterior(pixels=%d) = %r, explicit "
                        "subset %r" % (seed, k, a, b))
                acc.append(repr(a))
    return digest(*acc)


MODEL_KINDS = ["alpha-no-noise", "alpha-own-noise", "exact-no-noise",
               "alpha-no-optics"]


def _run_several_data(case, ck):
    """one model object, data sets that differ in noise level, values, shape,
    pixel size and wavelength, every sequence of <= 3 of them: each value is
    the Gaussian log-density of THAT data set at the applicable noise level
    (the model's own if it has one, else the data's), whatever was evaluated
    before"""
    import itertools
    import warnings
    from holopy.inference import AlphaModel, ExactModel
    from holopy.core.prior import Uniform
    from holopy.core.metadata import update_metadata, detector_grid
    from holopy.scattering import Sphere, Mie, calc_holo
    kind = case["model"]
    c0 = (0.17, 0.11, 5.0)
    truth = Sphere(n=1.59, r=0.5, center=c0)

    def dataset(shape, spacing, wl, noise, bump):
        det = update_metadata(detector_grid(shape, spacing),
                              medium_index=NMED, illum_wavelen=wl,
                              illum_polarization=POL, noise_sd=noise)
        d = calc_holo(det, truth, theory=Mie(), scaling=0.75)
        i = np.arange(d.size).reshape(d.shape)
        return d + bump * ((i % 3) - 1.0)
    DATA = {"A": dataset((4, 4), 0.1, WL, 0.05, 0.01),
            "B": dataset((4, 4), 0.1, WL, 0.2, 0.03),
            "C": dataset((5, 3), 0.15, WL, 0.01, 0.002),
            "D": dataset((4, 4), 0.1, WL * 0.8, 0.1, 0.01)}

    def model():
        sph = Sphere(n=1.59, r=Uniform(0.3, 0.8), center=c0)
        optics = {} if kind == "alpha-no-optics" else dict(
            medium_index=NMED, illum_polarization=POL)
        if kind == "alpha-own-noise":
            return AlphaModel(sph, alpha=0.7, noise_sd=0.07, theory=Mie(),
                              **optics)
        if kind == "exact-no-noise":
            return ExactModel(sph, calc_holo, theory=Mie(), **optics)
        return AlphaModel(sph, alpha=0.7, theory=Mie(), **optics)

    def expected(name, r):
        d = DATA[name]
        det = update_metadata(detector_grid(d.shape[1:], float(
            d.x[1] - d.x[0]) if len(d.x) > 1 else 0.1))
        F = calc_holo(d, Sphere(n=1.59, r=r, center=c0), NMED,
                      d.attrs["illum_wavelen"], POL, theory=Mie(),
                      scaling=1.0 if kind == "exact-no-noise" else 0.7)
        sd = 0.07 if kind == "alpha-own-noise" else float(d.attrs["noise_sd"])
        return gauss_loglike(F, d, sd)
    acc = []
    names = sorted(DATA)
    depth = 3
    with warnings.catch_warnings():
        warnings.simplefilter("ignore")
        want = {(nm, r): expected(nm, r) for nm in names for r in (0.45, 0.5)}
        lp = {r: model().lnprior([r]) for r in (0.45, 0.5)}
        for seq in itertools.chain.from_iterable(
                itertools.product(names, repeat=L)
                for L in range(1, depth + 1)):
            m = model()
            for k, nm in enumerate(seq):
                r = 0.45 if k % 2 == 0 else 0.5
                w, scale = want[(nm, r)]
                try:
                    ll = float(m.lnlike([r], DATA[nm]))
                    lpost = float(m.lnposterior([r], DATA[nm]))
                    # the same likelihood asked for right after the prior of
                    # ANOTHER point (priors of a batch first, likelihoods
                    # afterwards)
                    m.lnprior([0.95 - r])
                    ll2 = float(m.lnlike([r], DATA[nm]))
                    m.lnprior([0.95 - r])
                    lpost2 = float(m.lnposterior([r], DATA[nm]))
                    ck.trans += 6
                    ck.true("lnlike-formula:after-lnprior-elsewhere",
                            ll2 == ll and lpost2 == lpost,
                            "%s, data %s: lnlike(%r) is %r, but %r right "
                            "after lnprior(%r); lnposterior %r / %r" %
                            (kind, nm, r, ll, ll2, 0.95 - r, lpost, lpost2))
                except Exception as e:          # noqa
                    ck.true("lnlike-formula:several-data", False, "%s, data "
                            "sets %s, step %d raised %s: %s" %
                            (kind, ">".join(seq), k + 1, type(e).__name__, e))
                    break
                e1 = abs(ll - w) / scale
                ck.metric("several-data", e1)
                ck.true("lnlike-formula:several-data", e1 <= 1e-9,
                        "%s evaluated on data sets %s: at step %d (data %s, "
                        "noise %r) lnlike is %r, the Gaussian log-density "
                        "is %r" % (kind, ">".join(seq), k + 1, nm,
                                   DATA[nm].attrs["noise_sd"], ll, w))
                ck.true("posterior-sum:several-data",
                        abs(lpost - (lp[r] + ll)) <= 1e-9 * scale,
                        "%s on %s step %d: lnposterior %r != lnprior %r + "
                        "lnlike %r" % (kind, ">".join(seq), k + 1, lpost,
                                       lp[r], ll))
            acc.append(repr(round(w, 6)))
    return digest(acc)


def _run_misc(case, ck):
    import warnings
    if case["what"] == "several-data":
        return _run_several_data(case, ck)
    from holopy.inference import AlphaModel
    from holopy.inference.model import LimitOverlaps
    from holopy.core.prior import Uniform
    from holopy.scattering import Sphere, Spheres, Mie, calc_holo
    from holopy.core.metadata import update_metadata
    what = case["what"]
    from holopy.core.metadata import detector_grid
    det = update_metadata(detector_grid((4, 4), 0.1), medium_index=NMED,
                          illum_wavelen=WL,
                          illum_polarization=POL, noise_sd=0.05)

    def two(x2):
        return Spheres([Sphere(n=1.59, r=0.5, center=(0.0, 0.1, 5.0)),
                        Sphere(n=1.45, r=0.25, center=(x2, 0.1, 5.0))],
                       warn=False)
    if what == "constraints-not-shared":
        # overlapping configuration: forbidden only under the constraint
        vals = [0.6]
        m1 = AlphaModel(two(Uniform(0.0, 3.0)), alpha=0.7, theory=Mie())
        before = m1.lnprior(vals)
        m2 = AlphaModel(two(Uniform(0.0, 3.0)), alpha=0.7, theory=Mie())
        m2.constraints.append(LimitOverlaps(0.0))
        after = m1.lnprior(vals)
        m3 = AlphaModel(two(Uniform(0.0, 3.0)), alpha=0.7, theory=Mie())
        ck.trans += 4
        ck.true("constraints-not-shared", before == after and
                math.isfinite(before), "a constraint appended to ANOTHER "
                "model changed this model's log-prior from %r to %r" %
                (before, after))
        ck.true("constraints-not-shared", m3.lnprior(vals) == before and
                len(m3.constraints) == 0, "a model created afterwards "
                "starts with %d constraint(s), log-prior %r" %
                (len(m3.constraints), m3.lnprior(vals)))
        lst = []
        m4 = AlphaModel(two(Uniform(0.0, 3.0)), alpha=0.7, theory=Mie(),
                        constraints=lst)
        lst.append(LimitOverlaps(0.0))
        ck.true("constraints-not-shared", m4.lnprior(vals) == before,
                "appending to the caller's list after construction changed "
                "the model's log-prior to %r" % m4.lnprior(vals))
        return digest(repr(before))
    if what == "several-constraints":
        # every constraint of the list counts, wherever it stands
        loose, tight = LimitOverlaps(1.0), LimitOverlaps(0.0)
        acc = []
        data = calc_holo(det, two(2.0), theory=Mie())
        for name, cons, vals, allowed in (
                ("[tight, loose]", [tight, loose], [0.6], False),
                ("[loose, tight]", [loose, tight], [0.6], False),
                ("[tight, loose, loose]", [tight, loose, loose], [0.6],
                 False),
                ("[tight, loose]", [tight, loose], [2.0], True),
                ("[loose, loose]", [loose, loose], [0.6], True)):
            m = AlphaModel(two(Uniform(0.0, 3.0)), alpha=0.7, theory=Mie(),
                           constraints=list(cons))
            with warnings.catch_warnings():
                warnings.simplefilter("ignore")
                lp = m.lnprior(vals)
                lpost = m.lnposterior(vals, data)
            ck.trans += 2
            ck.true("lnprior-neginf:constraint",
                    (math.isfinite(lp) and math.isfinite(lpost)) if allowed
                    else (lp == NEG_INF and lpost == NEG_INF),
                    "constraints %s (tight forbids any overlap, loose allows "
                    "all) at x2 = %r: lnprior %r, lnposterior %r, expected "
                    "%s" % (name, vals[0], lp, lpost,
                            "finite" if allowed else "-inf"))
            acc.append(repr(lp))
        return digest(acc)
    if what == "support-before-substitution":
        # the radius is written as 1 / p: a value of p outside its support
        # (0.0) cannot even be substituted
        acc = []
        for zero in (0.0, np.float64(0.0), 0):
            p = Uniform(1.0, 3.0)
            m = AlphaModel(Sphere(n=1.59, r=1 / p, center=(0.17, 0.11, 5.0)),
                           alpha=0.7, theory=Mie())
            data = calc_holo(det, Sphere(n=1.59, r=0.5,
                                         center=(0.17, 0.11, 5.0)))
            for fn in ("lnprior", "lnposterior"):
                try:
                    with warnings.catch_warnings():
                        warnings.simplefilter("ignore")
                        v = (m.lnprior([zero]) if fn == "lnprior" else
                             m.lnposterior([zero], data))
                    ck.trans += 1
                    ck.true("lnprior-neginf:outside-support",
                            v == NEG_INF, "%s at p = %r (outside "
                            "Uniform(1, 3), radius 1 / p) is %r" %
                            (fn, zero, v))
                    acc.append(repr(v))
                except Exception as e:
                    ck.true("lnprior-neginf:outside-support", False, "%s at "
                            "p = %r (outside Uniform(1, 3), radius 1 / p) "
                            "raised %s: %s" % (fn, zero, type(e).__name__,
                                                e))
        return digest(acc)
    # zero-d-optics: numbers that arrive wrapped in 0-d arrays
    sph = Sphere(n=1.59, r=Uniform(0.3, 0.8), center=(0.17, 0.11, 5.0))
    data = calc_holo(det, Sphere(n=1.59, r=0.5, center=(0.17, 0.11, 5.0)))
    ref = AlphaModel(sph, alpha=0.7, medium_index=NMED, illum_wavelen=WL,
                     theory=Mie()).lnposterior([0.45], data)
    acc = [repr(ref)]
    for kw in ({"medium_index": np.array(NMED)},
               {"illum_wavelen": np.array(WL)}, {"alpha": np.array(0.7)},
               {"noise_sd": np.array(0.05)}):
        args = dict(alpha=0.7, medium_index=NMED, illum_wavelen=WL)
        args.update(kw)
        try:
            v = AlphaModel(sph, theory=Mie(), **args).lnposterior([0.45],
                                                                  data)
            ck.trans += 1
            ck.true("zero-d-optics", abs(v - ref) <= 1e-9 * abs(ref),
                    "model with %s as a 0-d array: lnposterior %r, with the "
                    "plain number %r" % (list(kw)[0], v, ref))
        except Exception as e:
            ck.true("zero-d-optics", False, "model with %s as a 0-d array "
                    "raised %s: %s" % (list(kw)[0], type(e).__name__, e))
    return digest(acc)


def run_case(case):
    ck = Checker()
    if case["kind"] == "misc":
        return ck.result(fp=_run_misc(case, ck))
    if case["kind"] == "cfg":
        fp = _run_cfg(case, ck)
    else:
        fp = _run_pixels(case, ck)
    return ck.result(fp=fp)


def coverage_extra(cases, results):
    ncfg = len({cfg_id(c["cfg"]) for c in cases if c["kind"] == "cfg"})
    nvec = 0
    for c in cases:
        if c["kind"] == "cfg":
            nvec += sum(1 for _ in param_vectors(c["cfg"], c["D"],
                                                 c.get("block"),
                                                 c.get("lite", False)))
    npix = sum(1 for c in cases if c["kind"] == "pixels")
    return {"configurations": ncfg, "parameter_vectors": nvec,
            "pixel_selection_cases": npix,
            "config_axes": {k: list(v) for k, v in CFG_AXES.items()},
            "config_deviation_bound": 2,
            "value_alphabet": VAL_NAMES_UB + [
                "(x2 also: overlap = 0.125 diameters, touching, touching "
                "less 1 ulp)"],
            "value_alphabet_gaussian": VAL_NAMES_G,
            "seam_missing_cases": sum(
                1 for r in results
                if r.get("metrics", {}).get("seam-missing")),
            "choice_seam_missing_cases": sum(
                1 for r in results
                if r.get("metrics", {}).get("choice-seam-missing"))}

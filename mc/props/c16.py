"""C16 -- images keep values, coordinates and metadata through I/O and metadata
edits.

Bounded-exhaustive, executed on the real file system (a private directory
under $TMPDIR per case, removed at the end of the case):

* h5      : HDF5 save -> load, 1..3 cycles, every vector within D deviations
            of a default over shape x dtype x spacing x name x file-name form
            x kind of each of the four metadata fields (None / scalar /
            per-channel dict / labelled array) [+ "all four the same kind"];
            values, coordinates, dims, name, attrs identical (bit-identity
            for values and coordinates);
* h5val   : one case per (field, Python/NumPy scalar type or vector
            spelling);
* tiff    : TIFF export -> hp.load, 1..3 cycles, one block per (channel
            layout, scaling option, depth option); inside a block dtype x
            spacing x name x metadata kind x route (save_image / hp.save);
            metadata, spacing, name preserved, values within one quantisation
            step of the stated scaling (single precision for float TIFFs);
* raster  : gray / RGB / RGBA PNG and TIFF files written by PIL from known
            arrays, load_image x channel x spacing x name x metadata;
* average : load_average over EVERY order of the file list of 1..4 images,
            with / without reference image, gray and colour;
* update  : update_metadata over every subset of the four fields x value
            kinds x base images;
* seq     : every enabled operation sequence of length d over
            {save A, save B, load, update_metadata, save current, save
            current as TIFF, load TIFF} on one pair of file names, against a
            reference model of the file contents;
* hist    : load_average / load_image results pushed through save -> load.

Oracles: numpy / math only (the arrays the files were written from, numpy
mean / std, v/|v|), or the identity the property states.
"""
import itertools
import math
import os
import shutil
import tempfile
import warnings

import numpy as np

from lib import Checker, deviations, digest, fp_xarray, ulp_diff, vec_id

PROPERTY = "C16"
RULE = ("cases = (h5) every vector within D deviations (quick 2, thorough 3, "
        "plus the full 4^4 product of metadata kinds on both multi-channel "
        "shapes) of the default over shape x dtype x spacing x name x "
        "file-name form x kind of each metadata field, each run through 3 "
        "save/load cycles (quick: 2 cycles for vectors with 2 deviations); "
        "(tiff) one block per channel layout x scaling "
        "option x depth option with dtype x spacing x name x metadata kind x "
        "route inside (quick: <= 1 deviation, thorough: full product), 3 "
        "cycles; (raster) one block per PIL-written raster x file type with "
        "channel x spacing x name x metadata inside; (average) one case per "
        "raster kind x n in 1..4 x reference image x spacing x metadata "
        "override, EVERY permutation of the file list inside; (update) one "
        "block per base image x kind of the first field with the full "
        "product of the other fields' kinds inside; (seq) every enabled "
        "operation sequence of length d (3 quick / 4 thorough) over a 7-letter"
        " operation alphabet, one case per 2-letter prefix; a case is "
        "non-trivial when its observed fingerprint differs from other cases'")
ASSUMPTIONS = [
    "PIL writes and reads back the gray / RGB / RGBA rasters used as inputs "
    "without loss (verified inside each raster / average case before HoloPy "
    "is called; a raster PIL cannot round-trip is outcome 'pil-unsupported')",
    "numpy mean / std(ddof=0) are correct; 'relative noise' is the mean over "
    "pixels of (population standard deviation / mean) per pixel, the "
    "definition pinned by HoloPy's own tests (test_2_colour_noise_sd, "
    "TestAccumulator.test_std)",
    "a nameless image cannot be stored nameless (netCDF variables and TIFF "
    "metadata need a name): for name=None both None and the file stem are "
    "accepted after loading",
    "metadata are compared canonically: Python / NumPy numbers by value "
    "(np.float64(1.33) == 1.33), labelled arrays by dims, labels and float64 "
    "bit pattern, dicts by items; a 0-d unlabelled array equals its number",
    "TIFF: 'stated quantisation' = (hi - lo)/(2^8 - 1) for depth 8, "
    "(hi - lo)/(2^15 - 1) for depth 16 (the range _save_im uses), IEEE "
    "single precision for float output (PIL mode 'F'), where (lo, hi) is "
    "the stated scaling ('auto' = the image's min and max); scaling=None "
    "with an integer depth is granted a step of 1; every cycle is compared "
    "with its own input",
    "TIFF side-conditions (removed before execution, listed in the "
    "evidence): an axis with a single pixel has no spacing to store; "
    "scaling=None is only enumerated for images whose maximum exceeds 1 "
    "(for max <= 1 _save_im applies an undocumented x(2^depth - 1) scaling "
    "whose inverse is nowhere stated); explicit scalings enclose the data "
    "(no clipping); colour images PIL cannot write (float or 16-bit RGB) "
    "are outcome 'refused'",
    "TIFF files cannot carry channel labels: RGB-named channels are "
    "compared by label, other labels by position",
    "load_image: refusals by BadImage / LoadError (colour image without a "
    "channel, channel number beyond the image) are outcome 'refused'",
    "labelled polarization arrays passed to update_metadata already have "
    "unit rows (HoloPy treats an array with a 'vector' dimension as a "
    "finished vector)",
    "only the stated alphabets are explored",
]
TOLERANCES = {
    "h5-values": 0.0, "h5-coords": 0.0,
    "tiff-quantisation-steps": 1.0,
    "tiff-float32-eps-units": 32.0,
    "tiff-coords": 1e-12,
    "raster-coords-ulp": 4.0,
    "raster-values": 0.0,
    "average-mean": 1e-12, "average-noise": 1e-12,
    "average-order-mean": 1e-12, "average-order-noise": 1e-12,
    "update-pol-norm-ulp": 4.0, "update-pol-direction-ulp": 4.0,
}
TIMEOUT = 600

ILL = "illumination"
FIELDS = ["medium_index", "illum_wavelen", "illum_polarization", "noise_sd"]
F32 = 2.0 ** -24

SCALAR = {"medium_index": 1.33, "illum_wavelen": 0.66,
          "illum_polarization": (1, 0), "noise_sd": 0.1}
PERCH = {"medium_index": [1.33, 1.34, 1.35],
         "illum_wavelen": [0.66, 0.52, 0.45],
         "illum_polarization": [(1, 0), (0, 1), (1, 1)],
         "noise_sd": [0.1, 0.2, 0.3]}
POLROWS = [[1.0, 0.0, 0.0], [0.0, 1.0, 0.0], [0.6, 0.8, 0.0]]

SHAPES = {"5x4x2": ([5, 4, 2], ["red", "green"]),
          "4x5": ([4, 5], None), "1x1": ([1, 1], None),
          "2x3": ([2, 3], None), "1x7": ([1, 7], None),
          "3x3x3": ([3, 3, 3], ["red", "green", "blue"]),
          # an illumination axis with a single channel
          "3x4x1": ([3, 4, 1], ["red"])}
SPACINGS = {"iso": 0.1, "aniso": [0.1, 0.2],
            # 3*0.7/0.7 < 3 in floating point: the reference-image crop of
            # load_average has to round, not truncate
            "odd": [0.3, 0.7]}
NAMES = {"img": "img", "none": None, "a b": "a b",
         "unicode": "Probe_5\u00b5m K\u00fcgelchen",
         # the name of one of the image's own axes (a frame loaded from
         # x.png is called "x")
         "axis-x": "x", "axis-ill": "illumination"}
KINDS = ["none", "scalar", "dict", "array"]

H5_AXES = {
    "shape": ["5x4x2", "4x5", "1x1", "2x3", "1x7", "3x3x3", "3x4x1"],
    "dtype": ["float64", "float32", "int16", "uint8"],
    "spacing": ["iso", "aniso"],
    "name": ["img", "none", "a b", "unicode", "axis-x", "axis-ill"],
    "target": ["ext", "noext"],
    "medium_index": KINDS, "illum_wavelen": KINDS,
    "illum_polarization": KINDS, "noise_sd": KINDS,
    "allkind": ["-", "scalar", "dict", "array"],
}
H5_D = {"quick": 2, "thorough": 3}
CYCLES = 3

TIFF_LAYOUTS = {
    "gray": None,
    "rg": ([5, 4, 2], ["red", "green"]),
    "gr": ([5, 4, 2], ["green", "red"]),
    "rb": ([4, 3, 2], ["red", "blue"]),
    "rgb": ([3, 3, 3], ["red", "green", "blue"]),
    "ab": ([4, 3, 2], ["a", "b"]),
}
TIFF_SCALINGS = ["auto", "none", "minmax", "wide"]
TIFF_DEPTHS = [8, 16, "float"]
TIFF_INNER = {
    "gshape": ["4x5", "2x3"],
    "dtype": ["float64", "float32", "int16", "uint8"],
    "spacing": ["aniso", "iso"],
    "name": ["img", "none", "unicode"],
    "meta": ["scalar", "none", "dict", "array"],
    "route": ["save_image", "hp.save", "save_image:.tiff"],
}

RASTERS = ["L8:4x5", "L8:1x1", "L8:1x7", "I16:4x5", "F32:4x5", "RGB:4x5",
           "RGB:2x3", "RGB:1x7", "RGB:7x1", "RGB:1x1", "RGBA:3x2"]
CHANNELS = [None, 0, 2, [0, 2], [2, 0], "all", 3, [0, 1]]
RSPACINGS = [0.1, [0.1, 0.2], [0.25, 0.125]]

SEQ_OPS = ["SA", "SB", "L", "U", "SC", "ST", "LT"]
SEQ_DEPTH = {"quick": 3, "thorough": 4}


# --------------------------------------------------------------------------
# enumeration
# --------------------------------------------------------------------------
def _h5_feasible(v):
    multi = SHAPES[v["shape"]][1] is not None
    kinds = [v[f] for f in FIELDS]
    if v["allkind"] != "-":
        if any(k != "none" for k in kinds):
            return False
        kinds = [v["allkind"]]
    if not multi and any(k in ("dict", "array") for k in kinds):
        return False
    return True


def _h5_vectors(tier):
    seen = set()
    out, removed = [], 0
    for vec in deviations(H5_AXES, H5_D[tier]):
        v = {k: H5_AXES[k][i] for k, i in vec.items()}
        if not _h5_feasible(v):
            removed += 1
            continue
        key = vec_id(v)
        seen.add(key)
        out.append(v)
    if tier == "thorough":
        for shape in ("5x4x2", "3x3x3"):
            for kinds in itertools.product(KINDS, repeat=4):
                v = {k: H5_AXES[k][0] for k in H5_AXES}
                v["shape"] = shape
                v.update(dict(zip(FIELDS, kinds)))
                key = vec_id(v)
                if key not in seen:
                    seen.add(key)
                    out.append(v)
    return out, removed


def _tiff_inner(tier, layout, scaling, depth):
    axes = dict(TIFF_INNER)
    if layout != "gray":
        axes["gshape"] = ["-"]
    else:
        axes["meta"] = ["scalar", "none"]
    if not (scaling == "auto" and depth == 8):
        axes["route"] = ["save_image"]
    D = 1 if tier == "quick" else len(axes)
    out = []
    for vec in deviations(axes, D):
        out.append({k: axes[k][i] for k, i in vec.items()})
    return out


def cases(tier, seed):
    out = []
    vecs, _ = _h5_vectors(tier)
    for v in vecs:
        ndev = sum(1 for k in H5_AXES if v[k] != H5_AXES[k][0])
        out.append({"id": "h5:" + vec_id(v), "kind": "h5", "v": v,
                    "cycles": CYCLES if tier == "thorough" or ndev <= 1
                    else 2})
    # a per-channel polarization whose array has the vector axis first
    for shape in ("5x4x2", "3x3x3"):
        v = {k: H5_AXES[k][0] for k in H5_AXES}
        v["shape"] = shape
        v["illum_polarization"] = "array-T"
        out.append({"id": "h5:pol-vector-axis-first:" + shape, "kind": "h5",
                    "v": v, "cycles": 2})
    for f in FIELDS:
        types = (["np.float64", "int", "np.float32", "np.int64", "0d-array",
                  "zero"]
                 if f != "illum_polarization" else
                 ["list", "ndarray", "3-vector", "unnormalised", "int-tuple"])
        for t in types:
            out.append({"id": "h5val:%s:%s" % (f, t), "kind": "h5val",
                        "field": f, "type": t})
    for lay in TIFF_LAYOUTS:
        for sc in TIFF_SCALINGS:
            for dp in TIFF_DEPTHS:
                out.append({"id": "tiff:layout=%s:scaling=%s:depth=%s" %
                            (lay, sc, dp), "kind": "tiff", "layout": lay,
                            "scaling": sc, "depth": dp, "tier": tier})
    out.append({"id": "tiff:constant-image", "kind": "tiffconst"})
    for dp in (8, 16):
        out.append({"id": "tiff:unit-range:scaling=none:depth=%d" % dp,
                    "kind": "tiffunit", "depth": dp})
    out.append({"id": "tiff:image-set", "kind": "tiffset"})
    for r in RASTERS:
        for ext in ("png", "tif"):
            if r.startswith("F32") and ext == "png":
                continue        # PNG has no float mode
            out.append({"id": "raster:%s:%s" % (r, ext), "kind": "raster",
                        "raster": r, "ext": ext})
    nmax = 4 if tier == "thorough" else 3
    for rk in ("gray-png", "gray16-tif", "rgb-png", "gray32f-tif"):
        for n in range(1, nmax + 1):
            refs = ["none", "plain", "meta", "roi"]
            if rk == "gray32f-tif":
                # floating-point frames: the mean is the double-precision
                # mean of the stored values
                refs = ["none", "plain"]
            for ref in refs:
                for sp in ("iso", "aniso", "odd"):
                    if sp == "odd" and ref == "none":
                        continue
                    if ref != "none" and sp == "aniso" and tier == "quick":
                        continue
                    chans = ["-"] if not rk.startswith("rgb") else (
                        ["[0,2]", "all", "[2,1]"] if ref == "none"
                        else ["fromref"])
                    for ch in chans:
                        for ov in ("no", "override"):
                            if ov == "override" and (n != 2):
                                continue
                            out.append({
                                "id": "average:%s:n=%d:ref=%s:sp=%s:ch=%s:"
                                      "args=%s" % (rk, n, ref, sp, ch, ov),
                                "kind": "average", "raster": rk, "n": n,
                                "ref": ref, "spacing": sp, "channel": ch,
                                "override": ov})
    for base in ("gray-none", "gray-scalar+extra", "rg-none", "rg-dict",
                 "rgb-array"):
        multi = not base.startswith("gray")
        kinds = (["absent", "scalar", "dict", "array"] if multi else
                 ["absent", "scalar", "npscalar"])
        for k in kinds:
            out.append({"id": "update:%s:medium_index=%s" % (base, k),
                        "kind": "update", "base": base, "first": k})
    out.append({"id": "update:polarization-spellings", "kind": "updatepol"})
    out.append({"id": "update:dict-on-2d-image", "kind": "misc16",
                "what": "dict2d"})
    out.append({"id": "raster:labelled-metadata-arrays", "kind": "misc16",
                "what": "labelled"})
    d = SEQ_DEPTH[tier]
    for a in SEQ_OPS:
        for b in SEQ_OPS:
            if _seq_enabled([a, b]):
                out.append({"id": "seq:%s,%s" % (a, b), "kind": "seq",
                            "prefix": [a, b], "depth": d})
    for h in ("average->h5:gray", "average->h5:rgb", "average->tif:gray",
              "load_image->h5:gray", "load_image->h5:rgb[0,2]",
              "load_image->tif:gray", "load_image->tif:rgb[0,2]"):
        out.append({"id": "hist:" + h, "kind": "hist", "what": h})
    return out


# --------------------------------------------------------------------------
# builders (numpy only + HoloPy's factory for the image object)
# --------------------------------------------------------------------------
def _content(shape, dtype, h5=False):
    n = int(np.prod(shape))
    base = (np.arange(n) * 37) % 101
    kind = np.dtype(dtype).kind
    if kind == "f":
        a = base / 7.0 + 3.0
        if h5 and n >= 3:
            a[0] = -0.0
            a[-1] = 1e-300 if dtype == "float64" else 1e-30
    elif dtype == "int16":
        # signed counts whose RANGE (40000) does not fit the type itself
        a = base * 400 - 20000
    else:
        a = base * 2 + 3
    return a.reshape(shape).astype(dtype)


def _meta_value(field, kind, labels):
    import xarray as xr
    if kind in ("none", "absent"):
        return None
    if kind == "scalar":
        return SCALAR[field]
    if kind == "npscalar":
        if field == "illum_polarization":
            return np.array([0.0, 1.0])
        return np.float64(SCALAR[field]) + 0.5
    n = len(labels)
    if kind == "dict":
        pairs = list(zip(labels, PERCH[field]))
        # same mapping, but written in other orders than the image's
        # channel axis: reversed for the wavelength, rotated by one for the
        # noise level (with two channels: the channel order itself), so
        # that among the fields there is always a dictionary whose order is
        # neither the channel order nor the alphabetical one
        if field == "illum_wavelen":
            pairs = pairs[::-1]
        elif field == "noise_sd" and len(pairs) > 2:
            pairs = pairs[1:] + pairs[:1]
        return {l: v for l, v in pairs}
    if kind == "array-T":
        # the same per-channel polarization with the vector axis first
        return xr.DataArray(
            np.array(POLROWS[:n]).T, dims=["vector", ILL],
            coords={"vector": ["x", "y", "z"], ILL: list(labels)})
    if kind == "array":
        if field == "illum_polarization":
            return xr.DataArray(
                np.array(POLROWS[:n]), dims=[ILL, "vector"],
                coords={ILL: list(labels), "vector": ["x", "y", "z"]})
        return xr.DataArray(np.array(PERCH[field][:n]), dims=[ILL],
                            coords={ILL: list(labels)})
    raise ValueError(kind)


def _sp(s):
    return tuple(s) if isinstance(s, list) else s


def _mkimage(shape, labels, dtype, spacing, name, kinds, h5=False,
             arr=None):
    from holopy.core.metadata import data_grid
    if arr is None:
        arr = _content(shape, dtype, h5=h5)
    extra = {ILL: list(labels)} if labels else None
    kw = {f: _meta_value(f, kinds.get(f, "none"), labels) for f in FIELDS}
    with warnings.catch_warnings():
        warnings.simplefilter("ignore")
        im = data_grid(arr, spacing=_sp(spacing), name=name or "tmp",
                       extra_dims=extra, **kw)
    if name is None:
        im.name = None
    return im


def _check_built(ck, im, kinds, labels, what):
    """the image factory attaches every per-channel value to the channel it
    was given for, in whatever order a dictionary lists them"""
    import xarray as xr
    if not labels:
        return
    for f in ("medium_index", "illum_wavelen", "noise_sd"):
        if kinds.get(f) not in ("dict", "array"):
            continue
        got = im.attrs.get(f)
        if isinstance(got, dict):
            # kept as a dictionary: the mapping itself must be unchanged
            ok = {k: float(v) for k, v in got.items()} == \
                dict(zip(labels, PERCH[f]))
        else:
            ok = isinstance(got, xr.DataArray) and ILL in got.dims
            if ok:
                for lab, want in zip(labels, PERCH[f]):
                    v = float(got.sel({ILL: lab}).values)
                    ok = ok and v == want
        ck.true("construct-per-channel", ok, "%s: %s given per channel as "
                "%s %r is stored as %r" %
                (what, f, kinds[f], _meta_value(f, kinds[f], labels),
                 None if got is None else
                 dict(zip(_labels(got[ILL]), np.asarray(
                     got.values).ravel().tolist()))
                 if isinstance(got, xr.DataArray) and ILL in got.dims
                 else got))


# --------------------------------------------------------------------------
# canonical forms / comparisons
# --------------------------------------------------------------------------
def _canon(v):
    import xarray as xr
    if v is None:
        return None
    if isinstance(v, xr.DataArray):
        if v.ndim == 0 and len(v.coords) == 0:
            return _canon(v.values[()])
        vals = np.asarray(v.values)
        if vals.dtype.kind in "biuf":
            body = [float(x).hex() for x in
                    np.asarray(vals, dtype=float).ravel()]
        else:
            body = [repr(x) for x in vals.ravel().tolist()]
        return ["da", list(map(str, v.dims)), list(vals.shape),
                [[str(d), _labels(v[d])] for d in v.dims], body]
    if isinstance(v, np.ndarray):
        if v.ndim == 0:
            return _canon(v[()])
        return ["list", [_canon(x) for x in v.tolist()]]
    if isinstance(v, dict):
        return ["dict", sorted([[repr(k), _canon(x)] for k, x in v.items()])]
    if isinstance(v, (list, tuple)):
        return ["list", [_canon(x) for x in v]]
    if isinstance(v, (bool, np.bool_)):
        return ["bool", bool(v)]
    if isinstance(v, (int, float, np.integer, np.floating)):
        return ["num", float(v).hex()]
    if isinstance(v, (complex, np.complexfloating)):
        return ["cnum", float(v.real).hex(), float(v.imag).hex()]
    if isinstance(v, str):
        return ["str", v]
    return ["repr", repr(v)]


def _labels(c):
    out = []
    for x in np.asarray(c.values).ravel().tolist():
        out.append(x if isinstance(x, (str, int, float)) else repr(x))
    return out


def _short(v):
    s = repr(v).replace("\n", " ")
    return s if len(s) < 240 else s[:240] + "..."


def _cmp_attrs(ck, check, orig, got, what, fields=None):
    ka, kb = sorted(map(str, orig)), sorted(map(str, got))
    if fields is None:
        ck.true(check + "-keys", ka == kb,
                "%s: attribute names changed: %r -> %r" % (what, ka, kb))
        fields = [k for k in orig if k in got]
    for f in fields:
        if f not in got:
            ck.true(check, False, "%s: attribute %s is missing" % (what, f))
            continue
        a, b = _canon(orig.get(f)), _canon(got[f])
        ck.true(check, a == b, "%s: attribute %s changed: %s -> %s" %
                (what, f, _short(orig.get(f)), _short(got[f])),
                field=f)


def _cmp_coords_exact(ck, check, orig, got, what):
    ca, cb = sorted(map(str, orig.coords)), sorted(map(str, got.coords))
    ck.true(check, ca == cb, "%s: coordinate names %r -> %r" % (what, ca, cb))
    for k in orig.coords:
        if k not in got.coords:
            continue
        a, b = orig.coords[k], got.coords[k]
        ck.true(check, tuple(a.dims) == tuple(b.dims),
                "%s: coordinate %s dims %r -> %r" % (what, k, a.dims, b.dims))
        av, bv = np.asarray(a.values), np.asarray(b.values)
        if av.dtype.kind in "biuf":
            same = av.dtype == bv.dtype and av.shape == bv.shape and \
                av.tobytes() == bv.tobytes()
            ck.true(check, same, "%s: coordinate %s not bit-identical: "
                    "%s %s -> %s %s" % (what, k, av.dtype, av.tolist(),
                                        bv.dtype, _short(bv.tolist())))
        else:
            ck.true(check, av.shape == bv.shape and
                    av.tolist() == bv.tolist(),
                    "%s: coordinate %s labels %r -> %r" %
                    (what, k, av.tolist(), bv.tolist()))


def _cmp_exact(ck, pre, orig, got, names, what, attrs_fields=None):
    """got must be the same image as orig (bit-identical values/coords)."""
    import xarray as xr
    if not ck.true(pre + "-type", isinstance(got, xr.DataArray),
                   "%s: loaded object is %s" % (what, type(got).__name__)):
        return
    ck.true(pre + "-dims", tuple(got.dims) == tuple(orig.dims),
            "%s: dims %r -> %r" % (what, orig.dims, got.dims))
    a, b = np.asarray(orig.values), np.asarray(got.values)
    same = a.dtype == b.dtype and a.shape == b.shape and \
        a.tobytes() == b.tobytes()
    ck.metric(pre + "-values", 0.0 if same else 1.0)
    ck.true(pre + "-values", same, "%s: values not bit-identical (%s %r -> "
            "%s %r)" % (what, a.dtype, a.shape, b.dtype, b.shape),
            obs=_short(b.ravel()[:6].tolist()),
            exp=_short(a.ravel()[:6].tolist()))
    _cmp_coords_exact(ck, pre + "-coords", orig, got, what)
    ck.true(pre + "-name", got.name in names,
            "%s: name %r -> %r" % (what, orig.name, got.name))
    _cmp_attrs(ck, pre + "-attrs", orig.attrs, got.attrs, what,
               fields=attrs_fields)


def _exc(e):
    return "%s: %s" % (type(e).__name__, str(e).replace("\n", " ")[:200])


# --------------------------------------------------------------------------
# h5
# --------------------------------------------------------------------------
def _h5_cycles(ck, d, im, target, tag, cycles=CYCLES, pre="h5"):
    import holopy as hp
    acc = []
    cur = im
    first_stem = None
    for c in range(1, cycles + 1):
        stem = "%s_c%d" % (tag, c)
        first_stem = first_stem or stem
        path = os.path.join(d, stem + (".h5" if target == "ext" else ""))
        fpb = fp_xarray(cur)
        what = "cycle %d" % c
        try:
            with warnings.catch_warnings():
                warnings.simplefilter("ignore")
                hp.save(path, cur)
            ck.trans += 1
        except Exception as e:
            ck.true(pre + "-save", False, "%s: save raised %s" %
                    (what, _exc(e)))
            return acc
        ck.true(pre + "-file", os.path.isfile(os.path.join(d, stem + ".h5")),
                "%s: no file %s.h5 was written" % (what, stem))
        ck.true(pre + "-input-purity", fp_xarray(cur) == fpb,
                "%s: save() modified the image it was given" % what)
        try:
            with warnings.catch_warnings():
                warnings.simplefilter("ignore")
                got = hp.load(path)
            ck.trans += 1
        except Exception as e:
            ck.true(pre + "-load", False, "%s: load raised %s" %
                    (what, _exc(e)))
            return acc
        names = (im.name,) if im.name is not None else (None, first_stem)
        _cmp_exact(ck, pre, im, got, names, what)
        acc.append(fp_xarray(got) if hasattr(got, "dims") else repr(got))
        cur = got
    return acc


def _run_h5(case, ck, d):
    v = case["v"]
    shape, labels = SHAPES[v["shape"]]
    kinds = {f: (v["allkind"] if v["allkind"] != "-" else v[f])
             for f in FIELDS}
    try:
        im = _mkimage(shape, labels, v["dtype"], SPACINGS[v["spacing"]],
                      NAMES[v["name"]], kinds, h5=True)
        _check_built(ck, im, kinds, labels, "data_grid(%r)" % (v,))
        ck.trans += 1
    except Exception as e:
        ck.true("h5-build", False, "data_grid raised %s" % _exc(e))
        return "build-failed"
    fp0 = fp_xarray(im)
    acc = _h5_cycles(ck, d, im, v["target"], "f",
                     cycles=case.get("cycles", CYCLES))
    ck.true("h5-input-purity", fp_xarray(im) == fp0,
            "the original image changed during save/load")
    return digest(*acc)


def _run_h5val(case, ck, d):
    import xarray as xr
    f, t = case["field"], case["type"]
    base = SCALAR[f]
    val = {"np.float64": lambda: np.float64(base),
           "int": lambda: 2, "zero": lambda: 0.0,
           "np.float32": lambda: np.float32(1.5),
           "np.int64": lambda: np.int64(2),
           "0d-array": lambda: xr.DataArray(np.float64(base)),
           "list": lambda: [0, 1], "ndarray": lambda: np.array([1.0, 1.0]),
           "3-vector": lambda: (0.0, 1.0, 0.0),
           "unnormalised": lambda: (3, 4), "int-tuple": lambda: (1, 1),
           }[t]()
    from holopy.core.metadata import data_grid
    acc = []
    for shape, labels in (([4, 5], None), ([5, 4, 2], ["red", "green"])):
        arr = _content(shape, "float64")
        try:
            im = data_grid(arr, spacing=0.1, name="img",
                           extra_dims={ILL: labels} if labels else None,
                           **{f: val})
            ck.trans += 1
        except Exception as e:
            ck.true("h5val-build", False, "data_grid(%s=%r) raised %s" %
                    (f, val, _exc(e)))
            continue
        if f == "illum_polarization":
            ref = np.zeros(3)
            ref[:len(val)] = np.asarray(val, dtype=float)
            ref = ref / math.sqrt(float((ref ** 2).sum()))
            got = np.asarray(im.attrs[f].values)
            e = ulp_diff(got, ref)
            ck.metric("update-pol-direction-ulp", e)
            ck.true("h5val-pol", e <= 4, "polarization %r stored as %r, "
                    "expected %r" % (val, got.tolist(), ref.tolist()))
        else:
            ck.true("h5val-stored", _canon(im.attrs[f]) == _canon(val),
                    "%s=%r stored as %r" % (f, val, im.attrs[f]))
        acc += _h5_cycles(ck, d, im, "ext", "v%d" % len(shape), cycles=2,
                          pre="h5val")
    return digest(*acc)


# --------------------------------------------------------------------------
# tiff
# --------------------------------------------------------------------------
def _tiff_tol(lo, hi, depth, scaling, vmax):
    f32 = TOLERANCES["tiff-float32-eps-units"] * F32 * \
        max(abs(lo), abs(hi), vmax, 1e-300)
    if depth == "float":
        return f32, f32
    levels = 255.0 if depth == 8 else 32767.0
    step = 1.0 if scaling == "none" else (hi - lo) / levels
    return step * TOLERANCES["tiff-quantisation-steps"] + f32, step


def _cmp_tiff(ck, cur, got, names, what, tol, step, bylabel):
    import xarray as xr
    if not ck.true("tiff-type", isinstance(got, xr.DataArray),
                   "%s: loaded object is %s" % (what, type(got).__name__)):
        return None
    ok = ck.true("tiff-dims", set(got.dims) == set(cur.dims) and
                 tuple(got.dims[:3]) == tuple(cur.dims[:3]),
                 "%s: dims %r -> %r" % (what, cur.dims, got.dims))
    if not ok:
        return None
    for ax in ("x", "y", "z"):
        a = np.asarray(cur[ax].values, dtype=float)
        b = np.asarray(got[ax].values, dtype=float)
        if not ck.true("tiff-coords", a.shape == b.shape,
                       "%s: %d pixels along %s -> %d" %
                       (what, a.size, ax, b.size)):
            return None
        e = float(np.abs(a - b).max() / max(np.abs(a).max(), 1e-300)) \
            if a.size and np.abs(a).max() > 0 else float(np.abs(a - b).max())
        ck.metric("tiff-coords", e)
        ck.true("tiff-coords", e <= TOLERANCES["tiff-coords"],
                "%s: %s coordinates (spacing) changed: %r -> %r" %
                (what, ax, a.tolist(), b.tolist()))
    if ILL in cur.dims:
        la, lb = _labels(cur[ILL]), _labels(got[ILL])
        if not ck.true("tiff-channels", len(la) == len(lb),
                       "%s: channels %r -> %r" % (what, la, lb)):
            return None
        if bylabel:
            if not ck.true("tiff-channels", sorted(la) == sorted(lb),
                           "%s: channel labels %r -> %r" % (what, la, lb)):
                return None
            pairs = [(cur.sel({ILL: l}).values, got.sel({ILL: l}).values, l)
                     for l in la]
        else:
            pairs = [(cur.isel({ILL: i}).values, got.isel({ILL: i}).values,
                      "#%d" % i) for i in range(len(la))]
    else:
        pairs = [(cur.values, got.values, "")]
    worst = 0.0
    for a, b, l in pairs:
        a = np.asarray(a, dtype=float)
        b = np.asarray(b, dtype=float)
        if not ck.true("tiff-values", a.shape == b.shape,
                       "%s: shape %r -> %r" % (what, a.shape, b.shape)):
            return None
        with np.errstate(all="ignore"):
            e = np.abs(a - b)
        e = float("inf") if not np.all(np.isfinite(b)) else float(e.max())
        worst = max(worst, e)
        ck.true("tiff-values", e <= tol,
                "%s: channel %s values differ by %.4g > %.4g (one step = "
                "%.4g)" % (what, l, e, tol, step),
                obs=_short(b.ravel()[:6].tolist()),
                exp=_short(a.ravel()[:6].tolist()))
    ck.true("tiff-name", got.name in names, "%s: name %r -> %r" %
            (what, cur.name, got.name))
    _cmp_attrs(ck, "tiff-attrs", {f: cur.attrs.get(f) for f in FIELDS},
               got.attrs, what)
    return worst


def _tiff_one(ck, d, tag, im, scaling, depth, route, bylabel, multi):
    """1..3 TIFF cycles of one image; returns (outcome, fingerprint part)"""
    import holopy as hp
    from holopy.core.io import save_image
    v0 = np.asarray(im.values, dtype=float)
    lo0, hi0 = float(v0.min()), float(v0.max())
    if scaling == "wide":
        sc = (int(math.floor(lo0)) - 10, int(math.ceil(hi0)) + 45)
        if im.dtype.kind in "iu":      # bounds representable in the dtype
            info = np.iinfo(im.dtype)
            sc = (max(sc[0], int(info.min)), min(sc[1], int(info.max)))
    elif scaling == "minmax":
        sc = (lo0, hi0)
    else:
        sc = {"auto": "auto", "none": None}[scaling]
    ext = ".tiff" if route.endswith(":.tiff") else ".tif"
    cur = im
    acc = []
    first = None
    for c in range(1, CYCLES + 1):
        stem = "%s_c%d" % (tag, c)
        first = first or stem
        path = os.path.join(d, stem + ext)
        what = "%s cycle %d" % (tag, c)
        vals = np.asarray(cur.values, dtype=float)
        lo, hi = (float(vals.min()), float(vals.max())) \
            if scaling in ("auto", "none") else (float(sc[0]), float(sc[1]))
        tol, step = _tiff_tol(lo, hi, depth, scaling,
                              float(np.abs(vals).max()))
        fpb = fp_xarray(cur)
        try:
            with warnings.catch_warnings():
                warnings.simplefilter("ignore")
                if route == "hp.save":
                    hp.save(path, cur)
                else:
                    save_image(path, cur, scaling=sc, depth=depth)
            ck.trans += 1
        except TypeError as e:
            if multi and "Cannot handle this data type" in str(e):
                return "refused", acc      # PIL has no such colour mode
            ck.true("tiff-save", False, "%s: save_image(scaling=%r, "
                    "depth=%r) raised %s" % (what, sc, depth, _exc(e)))
            return "error", acc
        except Exception as e:
            ck.true("tiff-save", False, "%s: save_image(scaling=%r, "
                    "depth=%r) raised %s" % (what, sc, depth, _exc(e)))
            return "error", acc
        ck.true("tiff-input-purity", fp_xarray(cur) == fpb,
                "%s: saving modified the image it was given" % what)
        try:
            with warnings.catch_warnings():
                warnings.simplefilter("ignore")
                got = hp.load(path)
            ck.trans += 1
        except Exception as e:
            ck.true("tiff-load", False, "%s: load raised %s" %
                    (what, _exc(e)))
            return "error", acc
        names = (im.name,) if im.name is not None else (None, first)
        worst = _cmp_tiff(ck, cur, got, names, what, tol, step, bylabel)
        if worst is None:
            return "error", acc
        if depth != "float" and scaling != "none":
            ck.metric("tiff-quantisation-steps", worst / step)
        else:
            ck.metric("tiff-float32-eps-units", worst / (F32 * max(
                abs(lo), abs(hi), float(np.abs(vals).max()), 1e-300)))
        acc.append(np.round(np.asarray(got.values, dtype=float), 6))
        cur = got
    return "ok", acc


def _run_tiff(case, ck, d):
    lay, scaling, depth, tier = (case["layout"], case["scaling"],
                                 case["depth"], case["tier"])
    inner = _tiff_inner(tier, lay, scaling, depth)
    acc = []
    counts = {"ok": 0, "refused": 0, "error": 0}
    for i, v in enumerate(inner):
        if lay == "gray":
            shape, labels = SHAPES[v["gshape"]]
        else:
            shape, labels = TIFF_LAYOUTS[lay]
        kinds = {f: v["meta"] for f in FIELDS}
        try:
            im = _mkimage(shape, labels, v["dtype"], SPACINGS[v["spacing"]],
                          NAMES[v["name"]], kinds)
            _check_built(ck, im, kinds, labels, "data_grid(%r)" % (v,))
        except Exception as e:
            ck.true("tiff-build", False, "data_grid raised %s for %r" %
                    (_exc(e), v))
            continue
        tag = "i%d[%s]" % (i, ",".join("%s=%s" % kv for kv in v.items()))
        tag = tag.replace("/", "_").replace(" ", "_")
        fp0 = fp_xarray(im)
        out, a = _tiff_one(ck, d, tag, im, scaling, depth, v["route"],
                           bylabel=(lay != "ab"), multi=labels is not None)
        ck.true("tiff-input-purity", fp_xarray(im) == fp0,
                "%s: the original image changed" % tag)
        counts[out] += 1
        acc += a
        # keep replay files readable: at most 12 violations per block
        if len(ck.viol) > 12:
            extra = len(ck.viol) - 12
            ck.viol = ck.viol[:12]
            ck.viol[-1] = dict(ck.viol[-1])
            ck.viol[-1]["msg"] += "  [+%d more violations in this block]" \
                % extra
            break
    outcome = "ok"
    if counts["ok"] == 0 and counts["refused"] > 0 and counts["error"] == 0:
        outcome = "refused"
    return digest(*acc, counts), outcome, counts


def _run_tiffconst(case, ck, d):
    """a constant image (e.g. a blank detector) through the default export"""
    import holopy as hp
    acc = []
    for val, dtype in ((7.0, "float64"), (0.0, "float64"), (9, "uint8")):
        arr = np.full((3, 4), val).astype(dtype)
        im = _mkimage([3, 4], None, dtype, 0.1, "img",
                      {f: "scalar" for f in FIELDS}, arr=arr)
        path = os.path.join(d, "const_%s_%s.tif" % (val, dtype))
        try:
            with warnings.catch_warnings():
                warnings.simplefilter("ignore")
                hp.save(path, im)
                got = hp.load(path)
            ck.trans += 2
        except Exception as e:
            ck.true("tiff-constant", False, "constant image %r (%s): %s" %
                    (val, dtype, _exc(e)))
            continue
        g = np.asarray(got.values, dtype=float)
        ok = g.shape == im.shape and np.all(np.isfinite(g)) and \
            float(np.abs(g - float(val)).max()) <= 1.0
        ck.true("tiff-constant", ok, "constant image of %r (%s) reloads as "
                "%s" % (val, dtype, _short(g.ravel()[:4].tolist())))
        acc.append(np.nan_to_num(g, nan=-1.0))
    return digest(*acc)


def _run_misc16(case, ck, d):
    import xarray as xr
    from PIL import Image
    from holopy.core.metadata import data_grid, update_metadata
    from holopy.core.io import load_image
    if case["what"] == "dict2d":
        # per-channel metadata on an image that has a scalar z coordinate
        # (one plane picked out of a stack), and on a 2 x 2 image whose pixel
        # coordinates happen to equal the channel labels 0, 1
        acc = []
        im = data_grid(_content([3, 4, 2], "float64"), spacing=0.1,
                       extra_dims={ILL: ["red", "green"]})
        for label, img, wl in (
                ("image.isel(z=0)", im.isel(z=0),
                 {"red": 0.66, "green": 0.52}),
                ("2x2 image with channels 0, 1",
                 data_grid(_content([2, 2, 2], "float64"), spacing=1,
                           extra_dims={ILL: [0, 1]}), {0: 0.66, 1: 0.52})):
            try:
                out = update_metadata(img, illum_wavelen=wl)
                ck.trans += 1
            except Exception as e:
                ck.true("update-accepts", False, "update_metadata(%s, "
                        "illum_wavelen=dict) raised %s" % (label, _exc(e)))
                continue
            got = out.attrs["illum_wavelen"]
            ok = isinstance(got, xr.DataArray) and tuple(got.dims) == (ILL,) \
                and {k: float(got.sel({ILL: k})) for k in wl} == wl
            ck.true("update-named-field", ok, "update_metadata(%s, "
                    "illum_wavelen=%r) stored %s" % (label, wl, _short(got)))
            acc.append(repr(sorted(wl.items(), key=str)))
        return digest(acc)
    # labelled arrays given to load_image, listed in another order than the
    # requested colour channels
    arr = (np.arange(4 * 5 * 3) * 3 % 250).reshape(4, 5, 3).astype("uint8")
    path = os.path.join(d, "rgb.png")
    Image.fromarray(arr).save(path)
    wl = xr.DataArray([0.52, 0.66], dims=[ILL], coords={ILL: ["green",
                                                              "red"]})
    pol = xr.DataArray([[0.0, 1.0, 0.0], [1.0, 0.0, 0.0]],
                       dims=[ILL, "vector"],
                       coords={ILL: ["green", "red"],
                               "vector": ["x", "y", "z"]})
    acc = []
    for ch in ((0, 1), (1, 0)):
        try:
            im = load_image(path, spacing=0.1, channel=ch, illum_wavelen=wl,
                            illum_polarization=pol)
            ck.trans += 1
        except Exception as e:
            ck.true("raster-accepts", False, "load_image(channel=%r, "
                    "labelled wavelength / polarization arrays) raised %s" %
                    (ch, _exc(e)))
            continue
        w = im.attrs["illum_wavelen"]
        p = im.attrs["illum_polarization"]
        ok = float(w.sel({ILL: "red"})) == 0.66 and \
            float(w.sel({ILL: "green"})) == 0.52 and \
            [float(v) for v in p.sel({ILL: "red"}).values[:2]] == [1.0, 0.0]
        ck.true("raster-metadata-by-label", ok, "load_image(channel=%r) "
                "with arrays labelled ['green', 'red']: red has wavelength "
                "%r and polarization %r" %
                (ch, float(w.sel({ILL: "red"})),
                 p.sel({ILL: "red"}).values.tolist()))
        acc.append(repr(ch))
    return digest(acc)


def _run_tiffunit(case, ck, d):
    """an image whose values lie in [0, 1] (a normalised intensity, a mask)
    exported without scaling: the stored values are the image's, to within
    one count"""
    import holopy as hp
    from holopy.core.io import save_image
    arr = ((np.arange(20) * 7) % 20).reshape(4, 5) / 19.0
    im = _mkimage([4, 5], None, "float64", 0.1, "img",
                  {f: "scalar" for f in FIELDS}, arr=arr)
    path = os.path.join(d, "unit_%d.tif" % case["depth"])
    try:
        with warnings.catch_warnings():
            warnings.simplefilter("ignore")
            save_image(path, im, scaling=None, depth=case["depth"])
            got = hp.load(path)
        ck.trans += 2
    except Exception as e:
        ck.true("tiff-unit-range", False, "values in [0, 1], scaling=None: "
                "%s" % _exc(e))
        return "exc"
    g = np.asarray(got.values, dtype=float).reshape(arr.shape)
    e = float(np.abs(g - arr).max())
    ck.metric("tiff-unit-range-error", e)
    ck.true("tiff-unit-range", e <= 1.0, "values 0..1 exported with "
            "scaling=None, depth=%s reload as %s..%s (error %.3g counts)" %
            (case["depth"], _short(g.min()), _short(g.max()), e))
    return digest(g)


def _run_tiffset(case, ck, d):
    """save_images: a set of images with different value ranges written in
    one call; every file must reload to its own image"""
    import holopy as hp
    from holopy.core.io import save_images
    acc = []
    ims, paths = [], []
    for k, (lo, hi) in enumerate(((0.0, 1.0), (10.0, 50.0), (-3.0, 2.0))):
        arr = lo + (hi - lo) * ((np.arange(20) * 7) % 20).reshape(4, 5) / 19.0
        ims.append(_mkimage([4, 5], None, "float64", [0.1, 0.2], "im%d" % k,
                            {f: "scalar" for f in FIELDS}, arr=arr))
        paths.append(os.path.join(d, "set_%d.tif" % k))
    for depth in (8, 16):
        try:
            with warnings.catch_warnings():
                warnings.simplefilter("ignore")
                save_images(paths, ims, depth=depth)
            ck.trans += 1
        except Exception as e:
            ck.true("tiffset-save", False, "save_images(depth=%r) raised %s"
                    % (depth, _exc(e)))
            continue
        for im, path in zip(ims, paths):
            try:
                with warnings.catch_warnings():
                    warnings.simplefilter("ignore")
                    got = hp.load(path)
                ck.trans += 1
            except Exception as e:
                ck.true("tiffset-load", False, "loading %s raised %s" %
                        (os.path.basename(path), _exc(e)))
                continue
            v = np.asarray(im.values, dtype=float)
            g = np.asarray(got.values, dtype=float)
            tol, step = _tiff_tol(float(v.min()), float(v.max()), depth,
                                  "auto", float(np.abs(v).max()))
            e = float(np.abs(g.reshape(v.shape) - v).max()) \
                if g.size == v.size else float("inf")
            ck.metric("tiffset-steps", e / step)
            ck.true("tiffset-values", e <= tol, "image %s of a set written "
                    "by save_images(depth=%r) reloads with an error of %.3g "
                    "(%.1f quantisation steps of its own range)" %
                    (im.name, depth, e, e / step))
            acc.append(np.round(g, 6))
    return digest(*acc)


# --------------------------------------------------------------------------
# raster loading
# --------------------------------------------------------------------------
def _raster_array(spec, k=0):
    mode, shp = spec.split(":")
    nx, ny = [int(t) for t in shp.split("x")]
    nch = {"L8": 0, "I16": 0, "F32": 0, "RGB": 3, "RGBA": 4}[mode]
    shape = (nx, ny) + ((nch,) if nch else ())
    n = int(np.prod(shape))
    base = (np.arange(n) * (37 + 6 * k) + 11 * k)
    if mode == "I16":
        return ((base * 523) % 65521 + 1).reshape(shape).astype("uint16")
    if mode == "F32":
        return ((base % 251) / 7.0 + 0.25).reshape(shape).astype("float32")
    return (base % 251 + 1).reshape(shape).astype("uint8")


def _write_raster(path, arr):
    from PIL import Image
    Image.fromarray(arr).save(path)
    with Image.open(path) as im:
        back = np.asarray(im)
    return back.shape == arr.shape and np.array_equal(back, arr)


def _expected_coords(n, s):
    return np.array([i * s for i in range(n)], dtype=float)


def _check_grid(ck, pre, im, nx, ny, sx, sy, what):
    for ax, n, s in (("x", nx, sx), ("y", ny, sy)):
        if ax not in im.coords:
            ck.true(pre + "-coords", False, "%s: no %s coordinate" %
                    (what, ax))
            continue
        got = np.asarray(im[ax].values, dtype=float)
        ref = _expected_coords(n, s)
        e = ulp_diff(got, ref)
        ck.metric("raster-coords-ulp", e)
        ck.true(pre + "-coords", e <= TOLERANCES["raster-coords-ulp"],
                "%s: pixel positions along %s are %s, expected i*%r = %s" %
                (what, ax, _short(got.tolist()), s, _short(ref.tolist())))


def _run_raster(case, ck, d):
    import holopy as hp
    from holopy.core.errors import BadImage, LoadError
    spec, ext = case["raster"], case["ext"]
    arr = _raster_array(spec)
    stem = spec.replace(":", "_")
    path = os.path.join(d, stem + "." + ext)
    try:
        ok = _write_raster(path, arr)
    except Exception:
        ok = False
    if not ok:
        return "pil-unsupported", "pil-unsupported", {}
    A = arr.astype(float)
    color = arr.ndim == 3
    nx, ny = arr.shape[:2]
    counts = {"ok": 0, "refused": 0, "error": 0}
    acc = []
    metas = [{}, dict(medium_index=1.33, illum_wavelen=0.66,
                      illum_polarization=(0, 1), noise_sd=0.1)]
    for ch in CHANNELS:
        for sp in RSPACINGS:
            for name in (None, "nm"):
                for mi, meta in enumerate(metas):
                    if mi == 1 and (name is not None or
                                    sp != RSPACINGS[1]):
                        continue
                    what = "load_image(%s.%s, spacing=%r, channel=%r, " \
                        "name=%r%s)" % (stem, ext, sp, ch, name,
                                        ", metadata" if meta else "")
                    chan = list(ch) if isinstance(ch, list) else ch
                    try:
                        with warnings.catch_warnings():
                            warnings.simplefilter("ignore")
                            im = hp.load_image(path, spacing=_sp(sp),
                                               channel=chan, name=name,
                                               **meta)
                        ck.trans += 1
                    except (BadImage, LoadError) as e:
                        expected_refusal = color and (
                            ch is None or
                            (ch != "all" and
                             max(np.atleast_1d(ch)) >= arr.shape[2]))
                        ck.true("raster-refusal", expected_refusal,
                                "%s refused although the request is "
                                "satisfiable: %s" % (what, _exc(e)))
                        counts["refused"] += 1
                        continue
                    except Exception as e:
                        ck.true("raster-load", False, "%s raised %s" %
                                (what, _exc(e)))
                        counts["error"] += 1
                        continue
                    counts["ok"] += 1
                    sx, sy = (sp, sp) if not isinstance(sp, list) else sp
                    # expected pixel block
                    if not color:
                        exp, labels = A, None
                    elif ch is None:
                        ck.true("raster-channels", False,
                                "%s returned an image for a colour file "
                                "without a channel" % what)
                        continue
                    elif ch == "all":
                        idx = list(range(arr.shape[2]))
                        exp, labels = A[:, :, idx], idx
                    elif isinstance(ch, list):
                        if max(ch) >= arr.shape[2]:
                            ck.true("raster-channels", False, "%s returned "
                                    "an image for a missing channel" % what)
                            continue
                        exp, labels = A[:, :, ch], list(ch)
                    else:
                        if ch >= arr.shape[2]:
                            ck.true("raster-channels", False, "%s returned "
                                    "an image for a missing channel" % what)
                            continue
                        exp, labels = A[:, :, ch], None
                    dims = ("z", "x", "y") + ((ILL,) if labels else ())
                    if not ck.true("raster-dims", tuple(im.dims) == dims and
                                   im.shape == (1,) + exp.shape,
                                   "%s: dims %r shape %r, expected %r %r" %
                                   (what, im.dims, im.shape, dims,
                                    (1,) + exp.shape)):
                        continue
                    got = np.asarray(im.values)[0]
                    same = np.array_equal(got, exp)
                    ck.metric("raster-values", 0.0 if same else float(
                        np.abs(got - exp).max()))
                    ck.true("raster-values", same,
                            "%s: pixel values differ from the file "
                            "(requested channels in requested order)" % what,
                            obs=_short(got.ravel()[:6].tolist()),
                            exp=_short(exp.ravel()[:6].tolist()))
                    _check_grid(ck, "raster", im, nx, ny, sx, sy, what)
                    if labels:
                        names = ["red", "green", "blue"]
                        want = [names[c] for c in labels] \
                            if max(labels) <= 2 else labels
                        ck.true("raster-channel-labels",
                                _labels(im[ILL]) == want,
                                "%s: channel labels %r, expected %r" %
                                (what, _labels(im[ILL]), want))
                    ck.true("raster-name", im.name == (name or stem),
                            "%s: name %r" % (what, im.name))
                    if meta:
                        pol = im.attrs.get("illum_polarization")
                        ck.true("raster-metadata",
                                im.attrs.get("medium_index") == 1.33 and
                                im.attrs.get("illum_wavelen") == 0.66 and
                                im.attrs.get("noise_sd") == 0.1 and
                                pol is not None and
                                np.array_equal(np.asarray(pol.values),
                                               [0.0, 1.0, 0.0]),
                                "%s: metadata arguments not stored: %s" %
                                (what, _short(dict(im.attrs))))
                    else:
                        ck.true("raster-metadata",
                                all(im.attrs.get(f) is None for f in FIELDS),
                                "%s: metadata appeared from nowhere: %s" %
                                (what, _short(dict(im.attrs))))
                    acc.append(digest(got, _labels(im[ILL]) if labels
                                      else None,
                                      np.asarray(im.x.values),
                                      np.asarray(im.y.values)))
        if len(ck.viol) > 12:
            extra = len(ck.viol) - 12
            ck.viol = ck.viol[:12]
            ck.viol[-1] = dict(ck.viol[-1])
            ck.viol[-1]["msg"] += "  [+%d more violations in this block]" \
                % extra
            break
    return digest(*acc, counts), "ok", counts


# --------------------------------------------------------------------------
# averaging
# --------------------------------------------------------------------------
def _run_average(case, ck, d):
    import xarray as xr
    from holopy.core.io import load_average
    rk, n, refk, spk, chk, ov = (case["raster"], case["n"], case["ref"],
                                 case["spacing"], case["channel"],
                                 case["override"])
    spec, ext = {"gray-png": ("L8:4x5", "png"),
                 "gray16-tif": ("I16:4x5", "tif"),
                 "gray32f-tif": ("F32:4x5", "tif"),
                 "rgb-png": ("RGB:4x5", "png")}[rk]
    color = rk.startswith("rgb")
    paths, A = [], []
    for k in range(n):
        arr = _raster_array(spec, k)
        p = os.path.join(d, "im%d.%s" % (k, ext))
        if not _write_raster(p, arr):
            return "pil-unsupported", "pil-unsupported"
        paths.append(p)
        A.append(arr.astype(float))
    spacing = SPACINGS[spk]
    sx, sy = (spacing, spacing) if not isinstance(spacing, list) else spacing
    kw = {}
    ref = None
    rows, cols = list(range(4)), list(range(5))
    chan_idx = None
    labels = None
    if refk != "none":
        rshape = [3, 4] + ([2] if color else [])
        rl = ["green", "blue"] if color else None
        kinds = {f: "none" for f in FIELDS}
        if refk == "meta":
            kinds = {f: ("dict" if color and f != "medium_index"
                         else "scalar") for f in FIELDS}
        ref = _mkimage(rshape, rl, "float64", spacing, "reference", kinds)
        rows, cols = list(range(3)), list(range(4))
        if refk == "roi":
            # a reference image that is a region of interest away from the
            # origin of the files: pixels (1..3, 1..4)
            ref = ref.assign_coords(x=ref.x + sx, y=ref.y + sy)
            rows, cols = [1, 2, 3], [1, 2, 3, 4]
        if color:
            chan_idx, labels = [1, 2], ["green", "blue"]
    else:
        kw["spacing"] = _sp(spacing)
        if color:
            chan_idx = {"[0,2]": [0, 2], "all": [0, 1, 2],
                        "[2,1]": [2, 1]}[chk]
            labels = [["red", "green", "blue"][c] for c in chan_idx]
            kw["channel"] = "all" if chk == "all" else list(chan_idx)
    if ov == "override":
        kw["medium_index"] = 1.5
        kw["illum_polarization"] = (0, 1)
    stack = np.stack(A)[:, rows][:, :, cols]
    if color:
        stack = stack[..., chan_idx]
    mean_ref = stack.mean(axis=0)
    with np.errstate(all="ignore"):
        noise_ref = (stack.std(axis=0) / mean_ref).mean(axis=(0, 1))
    scale = float(np.abs(mean_ref).max())
    first = None
    acc = []
    ref_fp = fp_xarray(ref) if ref is not None else None
    for perm in itertools.permutations(range(n)):
        what = "load_average(order %r)" % (list(perm),)
        try:
            with warnings.catch_warnings():
                warnings.simplefilter("ignore")
                r = load_average([paths[i] for i in perm], refimg=ref, **kw)
            ck.trans += 1
        except Exception as e:
            ck.true("average-call", False, "%s raised %s" % (what, _exc(e)))
            return digest(*acc), "error"
        dims = ("z", "x", "y") + ((ILL,) if color else ())
        if not ck.true("average-dims", isinstance(r, xr.DataArray) and
                       tuple(r.dims) == dims and
                       r.shape == (1,) + mean_ref.shape,
                       "%s: dims %r shape %r, expected %r %r" %
                       (what, getattr(r, "dims", None),
                        getattr(r, "shape", None), dims,
                        (1,) + mean_ref.shape)):
            return digest(*acc), "error"
        got = np.asarray(r.values, dtype=float)[0]
        if color:
            ck.true("average-channels", _labels(r[ILL]) == labels,
                    "%s: channels %r, expected %r" %
                    (what, _labels(r[ILL]), labels))
        e = float(np.abs(got - mean_ref).max()) / scale
        ck.metric("average-mean", e)
        ck.true("average-mean", e <= TOLERANCES["average-mean"],
                "%s: mean image differs from numpy.mean by %.3g (relative)"
                % (what, e), obs=_short(got.ravel()[:5].tolist()),
                exp=_short(mean_ref.ravel()[:5].tolist()))
        ns = r.attrs.get("noise_sd")
        if n >= 2:
            if ck.true("average-noise", ns is not None,
                       "%s: noise_sd is None for %d images" % (what, n)):
                nv = np.asarray(getattr(ns, "values", ns), dtype=float)
                if color:
                    okl = isinstance(ns, xr.DataArray) and \
                        tuple(ns.dims) == (ILL,) and \
                        _labels(ns[ILL]) == labels
                    ck.true("average-noise", okl, "%s: per-channel noise_sd "
                            "is not labelled by %r: %s" %
                            (what, labels, _short(ns)))
                if nv.shape == np.shape(noise_ref):
                    e = float(np.max(np.abs(nv - noise_ref) /
                                     np.abs(noise_ref)))
                else:
                    e = float("inf")
                ck.metric("average-noise", e)
                ck.true("average-noise", e <= TOLERANCES["average-noise"],
                        "%s: noise_sd %s differs from mean(std/mean) %s "
                        "(relative %.3g)" % (what, _short(nv.tolist()),
                                             _short(np.asarray(
                                                 noise_ref).tolist()), e))
        # coordinates
        if ref is not None:
            for ax in ("x", "y"):
                ck.true("average-coords",
                        np.array_equal(np.asarray(r[ax].values),
                                       np.asarray(ref[ax].values)),
                        "%s: %s coordinates differ from the reference "
                        "image's" % (what, ax))
        else:
            _check_grid(ck, "average", r, len(rows), len(cols), sx, sy, what)
        # metadata
        if ref is not None:
            skip = {"noise_sd"} if n >= 2 else set()
            exp_attrs = {f: ref.attrs.get(f) for f in FIELDS
                         if f not in skip}
            if ov == "override":
                exp_attrs["medium_index"] = 1.5
                exp_attrs["illum_polarization"] = xr.DataArray(
                    np.array([0.0, 1.0, 0.0]), dims=["vector"],
                    coords={"vector": ["x", "y", "z"]})
            _cmp_attrs(ck, "average-metadata", exp_attrs, r.attrs, what,
                       fields=list(exp_attrs))
        elif ov == "override":
            pol = r.attrs.get("illum_polarization")
            ck.true("average-metadata",
                    r.attrs.get("medium_index") == 1.5 and pol is not None
                    and np.array_equal(np.asarray(pol.values),
                                       [0.0, 1.0, 0.0]),
                    "%s: metadata arguments not stored: %s" %
                    (what, _short(dict(r.attrs))))
        # order independence
        nvv = None if ns is None else np.asarray(
            getattr(ns, "values", ns), dtype=float)
        if first is None:
            first = (got, nvv)
        else:
            e = float(np.abs(got - first[0]).max()) / scale
            ck.metric("average-order-mean", e)
            ck.true("average-order-mean",
                    e <= TOLERANCES["average-order-mean"],
                    "%s: mean depends on the file order (%.3g relative to "
                    "order [0..n))" % (what, e))
            if n >= 2 and nvv is not None and first[1] is not None and \
                    nvv.shape == first[1].shape:
                e = float(np.max(np.abs(nvv - first[1]) /
                                 np.abs(first[1])))
                ck.metric("average-order-noise", e)
                ck.true("average-order-noise",
                        e <= TOLERANCES["average-order-noise"],
                        "%s: noise_sd depends on the file order (%.3g)" %
                        (what, e))
        if ref is not None:
            ck.true("average-input-purity", fp_xarray(ref) == ref_fp,
                    "%s modified the reference image" % what)
        acc.append(np.round(got, 9))
        if nvv is not None:
            acc.append(np.round(nvv, 12))
    return digest(*acc), "ok"


# --------------------------------------------------------------------------
# update_metadata
# --------------------------------------------------------------------------
def _update_base(base):
    if base == "gray-none":
        return _mkimage([4, 5], None, "float64", 0.1, "img", {}), None
    if base == "gray-scalar+extra":
        im = _mkimage([4, 5], None, "float32", [0.1, 0.2], None,
                      {f: "scalar" for f in FIELDS})
        im.attrs["user_note"] = "keep me"
        return im, None
    if base == "rg-none":
        return _mkimage([5, 4, 2], ["red", "green"], "float64", 0.1, "img",
                        {}), ["red", "green"]
    if base == "rg-dict":
        return _mkimage([5, 4, 2], ["red", "green"], "int16", 0.1, "img",
                        {f: "dict" for f in FIELDS}), ["red", "green"]
    if base == "rgb-array":
        lab = ["red", "green", "blue"]
        return _mkimage([3, 3, 3], lab, "float64", [0.1, 0.2], "img",
                        {f: "array" for f in FIELDS}), lab
    raise ValueError(base)


NEWVAL = {  # values different from what the bases carry
    "scalar": {"medium_index": 1.5, "illum_wavelen": 0.405,
               "illum_polarization": (3, 4), "noise_sd": 0.25},
    "npscalar": {"medium_index": np.float64(1.25),
                 "illum_wavelen": np.float64(0.785),
                 "illum_polarization": np.array([1.0, -1.0]),
                 "noise_sd": np.float64(0.5)},
    "perch": {"medium_index": [1.4, 1.41, 1.42],
              "illum_wavelen": [0.7, 0.55, 0.4],
              "illum_polarization": [(0, 1), (1, 1), (1, 0)],
              "noise_sd": [0.01, 0.02, 0.03]},
    "polrows": [[0.0, 1.0, 0.0], [0.8, 0.6, 0.0], [1.0, 0.0, 0.0]],
}


def _new_value(field, kind, labels):
    import xarray as xr
    if kind == "absent":
        return None
    if kind in ("scalar", "npscalar"):
        return NEWVAL[kind][field]
    n = len(labels)
    # dict insertion order reversed with respect to the image's labels
    if kind == "dict":
        pairs = list(zip(labels, NEWVAL["perch"][field]))[::-1]
        return {l: v for l, v in pairs}
    if field == "illum_polarization":
        return xr.DataArray(np.array(NEWVAL["polrows"][:n]),
                            dims=[ILL, "vector"],
                            coords={ILL: list(labels),
                                    "vector": ["x", "y", "z"]})
    return xr.DataArray(np.array(NEWVAL["perch"][field][:n]), dims=[ILL],
                        coords={ILL: list(labels)})


def _unit(v):
    r = np.zeros(3)
    v = np.asarray(v, dtype=float)
    r[:v.size] = v
    return r / math.sqrt(float((r ** 2).sum()))


def _check_pol(ck, what, got, given, kind, labels):
    import xarray as xr
    if not ck.true("update-pol", isinstance(got, xr.DataArray) and
                   "vector" in got.dims and
                   _labels(got["vector"]) == ["x", "y", "z"],
                   "%s: polarization is not an (x, y, z) vector: %s" %
                   (what, _short(got))):
        return
    if kind in ("scalar", "npscalar"):
        rows = [(np.asarray(got.values, dtype=float), _unit(given), "")] \
            if got.ndim == 1 else None
        if rows is None:
            ck.true("update-pol", False, "%s: polarization has dims %r" %
                    (what, got.dims))
            return
    else:
        if not ck.true("update-pol", set(got.dims) == {ILL, "vector"} and
                       sorted(_labels(got[ILL])) == sorted(labels),
                       "%s: per-channel polarization dims %r labels %r" %
                       (what, got.dims, _labels(got[ILL]) if ILL in
                        got.coords else None)):
            return
        rows = []
        for l in labels:
            g = np.asarray(got.sel({ILL: l}).transpose("vector").values,
                           dtype=float)
            if kind == "dict":
                ref = _unit(given[l])
            else:
                ref = np.asarray(given.sel({ILL: l}).values, dtype=float)
            rows.append((g, ref, " [%s]" % l))
    for g, ref, l in rows:
        nrm = math.sqrt(float((g ** 2).sum()))
        e = abs(nrm - 1.0) / np.spacing(1.0)
        ck.metric("update-pol-norm-ulp", e)
        ck.true("update-pol-unit", e <= TOLERANCES["update-pol-norm-ulp"],
                "%s: polarization%s has length %r" % (what, l, nrm))
        e = ulp_diff(g, ref)
        ck.metric("update-pol-direction-ulp", e)
        ck.true("update-pol-direction",
                e <= TOLERANCES["update-pol-direction-ulp"],
                "%s: polarization%s is %r, expected v/|v| = %r" %
                (what, l, g.tolist(), ref.tolist()))


def _check_perch(ck, what, field, got, given, kind, labels):
    import xarray as xr
    if not ck.true("update-named", isinstance(got, xr.DataArray) and
                   tuple(got.dims) == (ILL,) and
                   sorted(_labels(got[ILL])) == sorted(labels),
                   "%s: %s is not labelled by channel: %s" %
                   (what, field, _short(got))):
        return
    for l in labels:
        g = float(got.sel({ILL: l}).values)
        ref = float(given[l]) if kind == "dict" else \
            float(given.sel({ILL: l}).values)
        ck.true("update-named", g == ref, "%s: %s[%s] = %r, expected %r" %
                (what, field, l, g, ref))


def _copy_given(v):
    import copy
    return copy.deepcopy(v)


def _run_update(case, ck, d):
    import holopy as hp
    import xarray as xr
    base, first = case["base"], case["first"]
    a, labels = _update_base(base)
    kinds = ["absent", "scalar", "dict", "array"] if labels else \
        ["absent", "scalar", "npscalar"]
    fp0 = fp_xarray(a)
    acc = []
    for rest in itertools.product(kinds, repeat=3):
        ks = dict(zip(FIELDS, (first,) + rest))
        given = {f: _new_value(f, k, labels) for f, k in ks.items()}
        backup = {f: _copy_given(v) for f, v in given.items()}
        what = "update_metadata(%s; %s)" % (base, ", ".join(
            "%s=%s" % (f, k) for f, k in ks.items() if k != "absent") or
            "nothing")
        try:
            with warnings.catch_warnings():
                warnings.simplefilter("ignore")
                b = hp.core.update_metadata(a, **given)
            ck.trans += 1
        except Exception as e:
            ck.true("update-call", False, "%s raised %s" % (what, _exc(e)))
            continue
        ck.true("update-new-object", isinstance(b, xr.DataArray) and
                b is not a and b.attrs is not a.attrs,
                "%s did not return a new image" % what)
        ck.true("update-original-untouched", fp_xarray(a) == fp0,
                "%s modified the original image" % what)
        for f in FIELDS:
            ck.true("update-argument-untouched",
                    _canon(given[f]) == _canon(backup[f]),
                    "%s modified its %s argument" % (what, f))
        # everything that is not a named attribute is the same
        _cmp_exact(ck, "update-kept", a, b, (a.name,), what,
                   attrs_fields=[k for k in a.attrs
                                 if ks.get(k, "absent") == "absent"])
        ck.true("update-kept-attrs-keys",
                sorted(map(str, b.attrs)) ==
                sorted(set(map(str, a.attrs)) | set(FIELDS)),
                "%s: attribute names %r -> %r" %
                (what, sorted(a.attrs), sorted(b.attrs)))
        for f, k in ks.items():
            if k == "absent":
                continue
            got = b.attrs.get(f)
            if f == "illum_polarization":
                _check_pol(ck, what, got, given[f], k, labels)
            elif f == "medium_index" or k in ("scalar", "npscalar"):
                ck.true("update-named", _canon(got) == _canon(given[f]),
                        "%s: %s = %s, expected %s" %
                        (what, f, _short(got), _short(given[f])))
            else:
                _check_perch(ck, what, f, got, given[f], k, labels)
        acc.append(digest(repr(_canon(dict(b.attrs)))))
        # the result is independent: editing it leaves the original alone
        b.attrs["noise_sd"] = -1.0
        if b.size:
            b.values.flat[0] = 12345
        ck.true("update-original-untouched", fp_xarray(a) == fp0,
                "editing the image returned by %s changed the original"
                % what)
    return digest(*acc)


def _run_updatepol(case, ck, d):
    import holopy as hp
    a, _ = _update_base("gray-scalar+extra")
    fp0 = fp_xarray(a)
    acc = []
    spell = [(1, 0), [0, 1], (1, 1), (3, 4), (0.6, 0.8), (1, 0, 0),
             (0.0, -2.0), np.array([1e-8, 1e-8]), (5e3, 12e3),
             np.array([1.0, 2.0, 2.0]), (-1, 1), (1e150, 1e150),
             # typed arrays whose squares do not fit their own type
             np.array([100, 100, 0], dtype="int8"),
             np.array([200, 100, 0], dtype="uint8"),
             np.array([300, 400, 0], dtype="int16"),
             np.array([300.0, 400.0, 0.0], dtype="float16"),
             np.array([3, 4], dtype="int8"),
             np.array([0.6, 0.8], dtype="float32")]
    import xarray as xr
    # ... and the same kind of array labelled along `vector`
    spell += [xr.DataArray(np.array(v, dtype=dt), dims="vector",
                           coords={"vector": ["x", "y", "z"]})
              for v, dt in (([0.6, 0.8, 0.0], "float32"),
                            ([300.0, 400.0, 0.0], "float16"),
                            ([3.0, 4.0, 0.0], "float16"),
                            ([100, 100, 0], "int8"))]
    for p in spell:
        what = "update_metadata(illum_polarization=%r)" % (p,)
        try:
            with warnings.catch_warnings():
                warnings.simplefilter("ignore")
                b = hp.core.update_metadata(a, illum_polarization=p)
            ck.trans += 1
        except Exception as e:
            ck.true("update-call", False, "%s raised %s" % (what, _exc(e)))
            continue
        _check_pol(ck, what, b.attrs.get("illum_polarization"), p, "scalar",
                   None)
        _cmp_exact(ck, "update-kept", a, b, (a.name,), what,
                   attrs_fields=[k for k in a.attrs
                                 if k != "illum_polarization"])
        ck.true("update-original-untouched", fp_xarray(a) == fp0,
                "%s modified the original image" % what)
        acc.append(np.asarray(b.attrs["illum_polarization"].values))
    return digest(*acc)


# --------------------------------------------------------------------------
# operation sequences on one pair of file names
# --------------------------------------------------------------------------
def _seq_enabled(seq):
    """reference model of enabledness: which file exists / is there a
    current object"""
    h5 = tif = cur = False
    for op in seq:
        if op in ("SA", "SB"):
            h5 = True
        elif op == "L":
            if not h5:
                return False
            cur = True
        elif op == "U":
            pass                      # applies to cur, or to A when no cur
        elif op == "SC":
            if not cur:
                return False
            h5 = True
        elif op == "ST":
            tif = True
        elif op == "LT":
            if not tif:
                return False
            cur = True
    return True


def _seq_objects():
    A = _mkimage([4, 5], None, "float64", [0.1, 0.2], "imgA",
                 {f: "scalar" for f in FIELDS}, h5=True)
    B = _mkimage([5, 4, 2], ["red", "green"], "int16", 0.1, "imgB",
                 {"medium_index": "scalar", "illum_wavelen": "dict",
                  "illum_polarization": "dict", "noise_sd": "array"},
                 h5=True)
    return A, B


def _run_seq(case, ck, d):
    import holopy as hp
    import xarray as xr
    prefix, depth = case["prefix"], case["depth"]
    tails = [list(t) for t in itertools.product(SEQ_OPS,
                                                repeat=depth - len(prefix))]
    seqs = [prefix + t for t in tails if _seq_enabled(prefix + t)]
    acc = []
    nseq = 0
    for si, seq in enumerate(seqs):
        sd = os.path.join(d, "s%d" % si)
        os.mkdir(sd)
        A, B = _seq_objects()
        fpA, fpB = fp_xarray(A), fp_xarray(B)
        p5, pt = os.path.join(sd, "hist.h5"), os.path.join(sd, "hist.tif")
        m_file = m_tif = None        # model: the object each file holds
        cur = None                   # implementation's current object
        m_cur = None                 # model of it (an equal DataArray)
        nseq += 1
        for step, op in enumerate(seq):
            what = "sequence %s step %d (%s)" % (",".join(seq), step + 1, op)
            try:
                with warnings.catch_warnings():
                    warnings.simplefilter("ignore")
                    if op in ("SA", "SB"):
                        obj = A if op == "SA" else B
                        hp.save(p5, obj)
                        m_file = obj
                    elif op == "L":
                        cur = hp.load(p5)
                        _cmp_exact(ck, "seq-load", m_file, cur,
                                   (m_file.name,), what)
                        m_cur = m_file
                    elif op == "U":
                        src, msrc = (cur, m_cur) if cur is not None \
                            else (A, A)
                        fps = fp_xarray(src)
                        new = hp.core.update_metadata(
                            src, noise_sd=0.25, illum_polarization=(0, 1))
                        ck.true("seq-update-purity", fp_xarray(src) == fps,
                                "%s modified its input" % what)
                        exp = msrc.copy()
                        exp.attrs = dict(msrc.attrs)
                        exp.attrs["noise_sd"] = 0.25
                        exp.attrs["illum_polarization"] = xr.DataArray(
                            np.array([0.0, 1.0, 0.0]), dims=["vector"],
                            coords={"vector": ["x", "y", "z"]})
                        _cmp_exact(ck, "seq-update", exp, new, (exp.name,),
                                   what)
                        cur, m_cur = new, exp
                    elif op == "SC":
                        hp.save(p5, cur)
                        m_file = m_cur
                    elif op == "ST":
                        src, msrc = (cur, m_cur) if cur is not None \
                            else (A, A)
                        hp.save(pt, src)
                        m_tif = msrc
                    elif op == "LT":
                        cur = hp.load(pt)
                        vals = np.asarray(m_tif.values, dtype=float)
                        lo, hi = float(vals.min()), float(vals.max())
                        tol, stp = _tiff_tol(lo, hi, 8, "auto",
                                             float(np.abs(vals).max()))
                        _cmp_tiff(ck, m_tif, cur, (m_tif.name,), what, tol,
                                  stp, True)
                        m_cur = cur
                ck.trans += 1
            except Exception as e:
                ck.true("seq-op", False, "%s raised %s" % (what, _exc(e)))
                break
            ck.true("seq-input-purity",
                    fp_xarray(A) == fpA and fp_xarray(B) == fpB,
                    "%s modified one of the shared input images" % what)
        if cur is not None and hasattr(cur, "dims"):
            acc.append(fp_xarray(cur))
        shutil.rmtree(sd, ignore_errors=True)
        if len(ck.viol) > 12:
            ck.viol = ck.viol[:12]
            break
    return digest(*acc, nseq), nseq


# --------------------------------------------------------------------------
# results of load_average / load_image pushed through save -> load
# --------------------------------------------------------------------------
def _run_hist(case, ck, d):
    import holopy as hp
    from holopy.core.io import load_average
    what = case["what"]
    src, dst = what.split("->")
    fmt, lay = dst.split(":")
    spec = "RGB:4x5" if lay.startswith("rgb") else "L8:4x5"
    paths = []
    for k in range(3):
        p = os.path.join(d, "in%d.png" % k)
        if not _write_raster(p, _raster_array(spec, k)):
            return "pil-unsupported"
        paths.append(p)
    chan = [0, 2] if lay.startswith("rgb") else None
    try:
        with warnings.catch_warnings():
            warnings.simplefilter("ignore")
            if src == "average":
                im = load_average(paths, spacing=(0.1, 0.2), channel=chan,
                                  medium_index=1.33, illum_wavelen=0.66,
                                  illum_polarization=(1, 0))
            else:
                im = hp.load_image(paths[0], spacing=(0.1, 0.2),
                                   channel=chan, medium_index=1.33,
                                   illum_wavelen=0.66,
                                   illum_polarization=(1, 0), noise_sd=0.1)
        ck.trans += 1
    except Exception as e:
        ck.true("hist-source", False, "%s raised %s" % (src, _exc(e)))
        return "error"
    fp0 = fp_xarray(im)
    if fmt == "h5":
        acc = _h5_cycles(ck, d, im, "ext", "h", cycles=2, pre="hist-h5")
    else:
        out, acc = _tiff_one(ck, d, "h", im, "auto", 8, "hp.save", True,
                             chan is not None)
        ck.true("hist-tif", out == "ok" or len(ck.viol) > 0,
                "TIFF export of the %s result was %s" % (src, out))
    ck.true("hist-input-purity", fp_xarray(im) == fp0,
            "saving / loading modified the %s result" % src)
    return digest(*acc)


# --------------------------------------------------------------------------
def run_case(case):
    ck = Checker()
    d = tempfile.mkdtemp(prefix="c16_")
    extra = {}
    outcome = "ok"
    try:
        k = case["kind"]
        if k == "h5":
            fp = _run_h5(case, ck, d)
        elif k == "h5val":
            fp = _run_h5val(case, ck, d)
        elif k == "tiff":
            fp, outcome, counts = _run_tiff(case, ck, d)
            extra["counts"] = counts
        elif k == "tiffconst":
            fp = _run_tiffconst(case, ck, d)
        elif k == "tiffunit":
            fp = _run_tiffunit(case, ck, d)
        elif k == "tiffset":
            fp = _run_tiffset(case, ck, d)
        elif k == "raster":
            fp, outcome, counts = _run_raster(case, ck, d)
            extra["counts"] = counts
        elif k == "average":
            fp, outcome = _run_average(case, ck, d)
        elif k == "update":
            fp = _run_update(case, ck, d)
        elif k == "misc16":
            fp = _run_misc16(case, ck, d)
        elif k == "updatepol":
            fp = _run_updatepol(case, ck, d)
        elif k == "seq":
            fp, nseq = _run_seq(case, ck, d)
            extra["nseq"] = nseq
        elif k == "hist":
            fp = _run_hist(case, ck, d)
        else:
            raise ValueError(k)
    finally:
        shutil.rmtree(d, ignore_errors=True)
    if outcome == "error":
        outcome = "ok"          # the violation list carries the error
    res = ck.result(fp=fp, outcome=outcome)
    res.update(extra)
    return res


def coverage_extra(cases, results):
    tier = "thorough" if any(c.get("tier") == "thorough" or
                             c.get("depth") == SEQ_DEPTH["thorough"]
                             for c in cases) else "quick"
    kinds = {}
    for c in cases:
        kinds[c["kind"]] = kinds.get(c["kind"], 0) + 1
    counts = {"ok": 0, "refused": 0, "error": 0}
    nseq = 0
    for r in results:
        for k, v in (r.get("counts") or {}).items():
            counts[k] = counts.get(k, 0) + v
        nseq += r.get("nseq", 0)
    _, removed = _h5_vectors(tier)
    return {
        "cases_per_kind": kinds,
        "h5_axes": H5_AXES, "h5_deviation_bound": H5_D[tier],
        "h5_vectors_removed_by_side_condition": removed,
        "h5_side_conditions": [
            "per-channel (dict / array) metadata need a multi-channel shape",
            "'allkind' sets all four fields and excludes per-field kinds"],
        "cycles": CYCLES,
        "tiff_blocks": {"layouts": list(TIFF_LAYOUTS),
                        "scalings": TIFF_SCALINGS, "depths": TIFF_DEPTHS,
                        "inner_axes": TIFF_INNER,
                        "inner_bound": "1 deviation" if tier == "quick"
                        else "full product"},
        "raster_alphabet": {"rasters": RASTERS, "channels": CHANNELS,
                            "spacings": RSPACINGS},
        "block_inputs": counts,
        "sequence_alphabet": SEQ_OPS, "sequence_depth": SEQ_DEPTH[tier],
        "sequences_executed": nseq,
    }

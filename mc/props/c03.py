"""C03 -- cross sections: energy conservation, optical theorem, integrals.

One case per (relative index, size parameter); inside, the full product of
medium index x wavelength x polarization.  Oracles: textbook series from the
mpmath coefficient table, optical theorem through calc_scat_matrix at
theta = 0, exact Gauss-Legendre quadrature of |S|^2 (polynomial integrand),
Rayleigh formula.
"""
import itertools
import math

import numpy as np

from lib import Checker, digest, fork_call
from oracles import mie_ref

PROPERTY = "C03"
RULE = ("one case per (relative index m, size parameter x) of the product "
        "alphabet (and per layered sphere / cluster); inside a case the "
        "complete product medium index x wavelength x polarization; "
        "non-trivial = distinct fingerprint of the four reported numbers")
ASSUMPTIONS = ["mpmath table of Mie coefficients (60 digits)",
               "numpy Gauss-Legendre nodes/weights",
               "only alphabet values are covered"]
# floors measured on the unchanged tree (thorough) in brackets
TOLERANCES = {"energy": 1e-12,                 # [1.7e-16]
              "cabs-real-index": 1e-10,        # [2.3e-15] of Cext
              "optical-theorem": 1e-10,        # [3.5e-13 since b5c7276]
              "integral-csca": 2e-6,           # [5.8e-8]
              "integral-g": 1e-6,              # [6.1e-9]
              "series": 1e-8,                  # [1.6e-10]
              "series-g": 1e-10,               # [4.3e-14]
              "rayleigh": "3 x^2 + 1e-9",      # [0.90 x^2]
              "ms-vs-mie": 1e-4,               # [1.9e-6]
              "ms-optical-theorem": 1e-6,      # [0]
              # quadrature error of the 4 pi integral for chains along z
              "ms-nonabsorbing-cabs": 3e-3,    # [6.2e-5] of Cext
              # an oblique dimer (Csca summed analytically from the cluster
              # coefficients): truncation of the expansions only
              "ms-nonabsorbing-cabs-analytic": 1e-4,
              # C_sca, C_ext, g C_sca re-derived from calc_scat_matrix
              "ms-matrix-integrals": 1e-10}    # [6.1e-14]
TOL = TOLERANCES
TIMEOUT = 900

M_ALPHA = {"quick": [1.2, 2.0, 0.75, 1.2 + 0.01j, 1.5 + 1.0j],
           "thorough": [1.2, 1.05, 1.5, 2.0, 0.75, 1.2 + 0.01j, 1.5 + 0.5j,
                        1.33 + 1e-8j, 1.5 + 1.0j, 2.5]}
X_ALPHA = {"quick": [3.0, 1e-3, 1e-2, 0.5, 30.0, 300.0],
           "thorough": [3.0, 1e-3, 3e-3, 1e-2, 0.1, 0.5, 1.0, 10.0, 30.0,
                        100.0, 300.0, 500.0]}
NMED = [1.33, 1.0]
WLS = [0.66, 0.405]
POLS = [(1, 0), (0, 1), (0.6, -0.8)]

LAYERED = [  # (indices, radii) physical, medium 1.33, wl 0.66
    ([1.45, 1.59], [0.3, 0.5]),
    ([1.59, 1.59], [0.3, 0.5]),             # one material written as 2 layers
    ([1.4, 1.5, 1.6], [0.2, 0.4, 0.6]),
    ([1.59, 1.4, 1.7, 1.45], [0.15, 0.3, 0.45, 0.6]),
    ([1.59, 1.45], [0.2, 0.6]),
    ([1.59 + 0.05j, 1.45], [0.25, 0.5]),
    ([1.33, 1.59], [0.4, 0.5]),
    ([1.7, 1.2, 1.45 + 0.01j], [0.1, 0.5, 0.9]),
    ([1.45, 1.7, 1.5], [0.3, 0.35, 0.8]),
    ([1.45, 1.59, 1.59], [0.2, 0.35, 0.5]),
    # absorbing layers outside the core, optically thick
    ([1.59, 1.45 + 0.2j], [0.4, 0.8]),
    ([1.59, 1.45 + 0.01j], [1.2, 2.5]),
    ([1.45 + 0.05j, 1.59 + 0.1j, 1.4 + 0.02j], [0.3, 0.8, 1.3]),
]
LAYERED_QUICK_EXTRA = (10, 11)
# (indices, radii, vacuum wavelength, medium index): (index of a layer) x
# (size parameter of one of its boundaries) is a multiple of pi, as exactly
# as floating point allows -- round numbers hit this
LAYERED_SPECIAL = [
    ([2.0, 1.5], [0.25, 0.5], 1.5, 1.0),      # m_2 k r_2 = pi
    ([2.0, 1.5], [0.5, 0.8], 1.5, 1.0),       # m_2 k r_1 = pi
    ([1.5, 1.25], [0.3, 0.6], 1.5, 1.0),      # m_2 k r_2 = pi
]
MS_POLS = [(1, 0), (0, 1), (0.6, -0.8), (1, 0), (0, 1), (0.6, -0.8), (1, 1),
           (0, 1)]
# (2.5 / 1.33, 10.055): a high-index sphere sitting on a narrow resonance of
# a partial wave well above its size parameter (the terms before it are tiny)
# (1.0001, 5.0): a nearly index-matched sphere (the relative index has to
# be kept to more than single precision)
MS_ONE = {"quick": [(1.2, 3.0), (1.2 + 0.01j, 1.0), (2.5 / 1.33, 10.055),
                    (1.0001, 5.0)],
          "thorough": [(1.2, 3.0), (1.2 + 0.01j, 1.0), (1.5, 0.5), (2.0, 5.0),
                       (0.75, 3.0), (1.5 + 0.5j, 2.0), (1.2, 8.0),
                       (1.05, 10.0), (2.5 / 1.33, 10.055),
                       (2.5 / 1.33, 10.04), (2.0, 12.0), (1.0001, 5.0),
                       (1.00001, 0.5), (0.9999, 2.0)]}
MS_TWO = {"quick": [],
          "thorough": [((1.59, 0.3, (0, 0, 0)), (1.45, 0.4, (1.0, 0.2, 0.5))),
                       ((1.59 + 0.02j, 0.25, (0, 0, 0)),
                        (1.59, 0.25, (0.0, 0.0, 0.8)))]}


def _mm(m):
    m = complex(m)
    return [m.real, m.imag]


def cases(tier, seed):
    out, reqs = [], []
    for m in M_ALPHA[tier]:
        for x in X_ALPHA[tier]:
            out.append({"id": "sphere:m=%r:x=%r" % (m, x), "kind": "sphere",
                        "m": _mm(m), "x": x})
            reqs.append(mie_ref.req_homog(m, x))
    for i, (ns, rs) in enumerate(LAYERED):
        if tier == "quick" and i >= 5 and i not in LAYERED_QUICK_EXTRA:
            continue
        out.append({"id": "layered#%d" % i, "kind": "layered", "i": i})
        k = 2 * math.pi * 1.33 / 0.66
        reqs.append(mie_ref.req_layered([n / 1.33 for n in ns],
                                        [k * r for r in rs]))
    for i, (ns, rs, wl, nmed) in enumerate(LAYERED_SPECIAL):
        out.append({"id": "layered-special#%d" % i, "kind": "layered",
                    "special": i})
        k = 2 * math.pi * nmed / wl
        reqs.append(mie_ref.req_layered([n / nmed for n in ns],
                                        [k * r for r in rs]))
    for j, (m, x) in enumerate(MS_ONE[tier]):
        # the polarization varies from case to case (index j+1: the first
        # case is y-polarized)
        out.append({"id": "ms1:m=%r:x=%r" % (m, x), "kind": "ms1",
                    "m": _mm(m), "x": x, "pol": list(MS_POLS[(j + 1) % 8]),
                    "_timeout": 900})
        reqs.append(mie_ref.req_homog(m, x))
    for i, _ in enumerate(MS_TWO[tier]):
        out.append({"id": "ms2#%d" % i, "kind": "ms2", "i": i,
                    "_timeout": 900})
    for which in ("equal", "unequal"):
        out.append({"id": "ms3z:" + which, "kind": "ms3z", "which": which,
                    "_timeout": 900})
    for i in range(len(OBL_POLS)):
        out.append({"id": "ms2-oblique:pol#%d" % i, "kind": "msobl", "i": i,
                    "_timeout": 900})
    # histories over near-identical spheres (a result remembered under a key
    # that is too coarse -- rounded size parameter or index -- shows up as a
    # dependence on the calls issued before)
    refs = {}
    for name in HOPS:
        st, val = fork_call(_hop, name)
        refs[name] = val if st == "ok" else "FAILED:%s:%r" % (st, val)
    L = 2 if tier == "quick" else 3
    for n in range(1, L + 1):
        for seq in itertools.product(list(HOPS), repeat=n):
            out.append({"id": "hist:" + ">".join(seq), "kind": "history",
                        "seq": list(seq), "ref": {o: refs[o] for o in seq}})
    mie_ref.ensure(reqs)
    return out


HOPS = {  # name -> (relative index, size parameter)
    "A": (1.5, 3.0), "A-x+1e-5": (1.5, 3.00001), "A-m+1e-5": (1.50001, 3.0),
    "A-absorbing": (1.5 + 2e-5j, 3.0), "tiny": (1.5, 1.0e-3),
    "tiny+2%": (1.5, 1.02e-3), "B": (1.2, 30.0), "B-x+1e-4": (1.2, 30.0001),
    # Multisphere cross sections (the Fortran solver keeps static work
    # arrays): a one-sphere cluster and a three-sphere chain along z
    "ms1": ("chain", 1), "ms3z": ("chain", 3),
}


def _chain(N, unequal=False):
    from holopy.scattering import Sphere, Spheres
    if unequal:
        return Spheres([Sphere(n=1.59, r=0.3, center=(0, 0, -0.9)),
                        Sphere(n=1.45, r=0.4, center=(0, 0, 0)),
                        Sphere(n=1.59, r=0.3, center=(0, 0, 0.9))])
    return Spheres([Sphere(n=1.59, r=0.3,
                           center=(0, 0, 0.8 * (i - (N - 1) / 2)))
                    for i in range(N)])


def _hop(name):
    from holopy.scattering import Sphere, Mie, calc_cross_sections
    m, x = HOPS[name]
    nmed, wl = 1.33, 0.66
    if m == "chain":
        from holopy.scattering import Multisphere
        cs = calc_cross_sections(_chain(x), nmed, wl, (1, 0),
                                 theory=Multisphere()).values
        return digest(np.asarray(cs, dtype=float))
    k = 2 * math.pi * nmed / wl
    n = m * nmed
    sph = Sphere(n=n.real if complex(n).imag == 0 else n, r=x / k,
                 center=(0, 0, 0))
    cs = calc_cross_sections(sph, nmed, wl, (1, 0), theory=Mie()).values
    S0 = _forward(Mie(), sph, nmed, wl)
    return digest(np.asarray(cs, dtype=float), np.asarray(S0))


def _run_history(case, ck):
    outs = []
    for i, name in enumerate(case["seq"]):
        ref = case["ref"][name]
        if str(ref).startswith("FAILED"):
            ck.true("pristine-reference", False, "%s failed in a pristine "
                    "interpreter: %s" % (name, ref))
            return "ref-failed"
        got = _hop(name)
        ck.trans += 2
        ck.true("history-independent", got == ref, "step %d (%s, m=%r x=%r) "
                "of %s gives different cross sections / forward amplitude "
                "than the same call in a pristine interpreter" %
                (i + 1, name, HOPS[name][0], HOPS[name][1],
                 ">".join(case["seq"])))
        outs.append(got)
    return digest(*outs)


def _gl_integrals(theory, sph, nmed, wl, N, k):
    """C_sca and g*C_sca by exact Gauss-Legendre quadrature of the scattering
    matrix returned by calc_scat_matrix."""
    import holopy as hp
    from holopy.scattering import calc_scat_matrix
    nodes, wts = np.polynomial.legendre.leggauss(2 * N + 8)
    th = np.arccos(nodes)
    det = hp.detector_points(theta=th, phi=np.zeros_like(th))
    S = calc_scat_matrix(det, sph, nmed, wl, theory=theory).values
    S2, S1 = S[:, 0, 0], S[:, 1, 1]
    f = abs(S1) ** 2 + abs(S2) ** 2
    csca = math.pi / k ** 2 * (wts * f).sum()
    gcs = math.pi / k ** 2 * (wts * f * nodes).sum()
    return csca, gcs, S


def _forward(theory, sph, nmed, wl, stale=False):
    import holopy as hp
    from holopy.scattering import calc_scat_matrix
    det = hp.detector_points(theta=np.array([0.0]), phi=np.array([0.0]))
    if stale:
        # the detector already carries OTHER optics; the arguments must win
        from holopy.core.metadata import update_metadata
        det = update_metadata(det, medium_index=1.0, illum_wavelen=0.4,
                              illum_polarization=(0, 1))
    return calc_scat_matrix(det, sph, nmed, wl, theory=theory).values[0]


def _check_sphere_numbers(ck, tag, cs, a, b, k, real_index, xeff):
    """cs = [cscat, cabs, cext, g] from HoloPy"""
    csca, cabs, cext, g = [float(v) for v in cs]
    ck.true("finite", all(math.isfinite(v) for v in (csca, cabs, cext, g)),
            "%s: non-finite cross section %r" % (tag, cs))
    e = abs(cext - (csca + cabs)) / abs(cext)
    ck.metric("energy", e)
    ck.true("energy", e <= 1e-12, "%s: Cext != Csca + Cabs (rel %.2e)" %
            (tag, e))
    ck.true("csca-positive", csca > 0, "%s: Csca = %r" % (tag, csca))
    ck.true("g-range", -1.0 <= g <= 1.0, "%s: g = %r" % (tag, g))
    if real_index:
        e = abs(cabs) / cext
        ck.metric("cabs-real-index", e)
        ck.true("cabs-real-index", e <= TOL["cabs-real-index"],
                "%s: Cabs/Cext = %.2e for a real index" % (tag, cabs / cext))
    else:
        ck.metric("cabs-negative", max(0.0, -cabs / cext))
        ck.true("cabs-nonneg", cabs >= -1e-9 * cext,
                "%s: Cabs = %r < 0" % (tag, cabs))
    rs, re_, rg = mie_ref.cross_sections(a, b, k)
    for name, got, ref in (("csca", csca, rs), ("cext", cext, re_)):
        e = abs(got - ref) / abs(ref)
        ck.metric("series", e)
        ck.true("series-" + name, e <= TOL["series"], "%s: %s = %r, textbook series "
                "%r (rel %.2e)" % (tag, name, got, ref, e))
    e = abs(g - rg)
    ck.metric("series-g", e)
    ck.true("series-g", e <= TOL["series-g"], "%s: g = %r, textbook %r" % (tag, g, rg))
    if not real_index:
        ra = re_ - rs
        e = abs(cabs - ra) / abs(re_)
        ck.metric("series", e)
        ck.true("series-cabs", e <= TOL["series"], "%s: Cabs = %r, textbook %r" %
                (tag, cabs, ra))
    return csca, cabs, cext, g


def _run_sphere(case, ck):
    from holopy.scattering import Sphere, Mie, calc_cross_sections
    m = complex(*case["m"])
    x = case["x"]
    a, b = mie_ref.coeffs(m, x)
    real_index = (m.imag == 0)
    fps = []
    scaled = []
    for nmed in NMED:
        for wl in WLS:
            k = 2 * math.pi * nmed / wl
            n_sph = m * nmed
            if real_index:
                n_sph = n_sph.real
            sph = Sphere(n=n_sph, r=x / k, center=(0, 0, 0))
            per_pol = []
            for pol in POLS:
                cs = calc_cross_sections(sph, nmed, wl, pol,
                                         theory=Mie()).values
                ck.trans += 1
                tag = "m=%r x=%r n_med=%r wl=%r pol=%r" % (m, x, nmed, wl,
                                                           pol)
                got = _check_sphere_numbers(ck, tag, cs, a, b, k,
                                            real_index, x)
                per_pol.append(got)
                fps.append(np.array(got))
            # a sphere's cross sections do not depend on polarization
            for g2 in per_pol[1:]:
                e = max(abs(u - v) / max(abs(u), 1e-300)
                        for u, v in zip(per_pol[0][:3:2], g2[:3:2]))
                ck.metric("pol-independent", e)
                ck.true("pol-independent", e <= 1e-12,
                        "cross sections depend on polarization (%.2e)" % e)
            csca, cabs, cext, g = per_pol[0]
            scaled.append((csca * k * k, cext * k * k, g))
            # optical theorem through the scattering-matrix entry point
            S0 = _forward(Mie(), sph, nmed, wl)
            S0s = _forward(Mie(), sph, nmed, wl, stale=True)
            ck.trans += 2
            ck.true("optical-theorem-stale-detector-optics",
                    np.array_equal(S0, S0s), "the forward amplitude changes "
                    "when the detector object already carries other optics "
                    "than the ones passed to calc_scat_matrix (m=%r x=%r)" %
                    (m, x))
            for name, s in (("S2", S0[0, 0]), ("S1", S0[1, 1])):
                ot = 4 * math.pi / k ** 2 * s.real
                e = abs(ot - cext) / abs(cext)
                ck.metric("optical-theorem", e)
                ck.true("optical-theorem", e <= 1e-10,
                        "Cext = %r but 4pi/k^2 Re %s(0) = %r (rel %.2e; m=%r"
                        " x=%r n_med=%r wl=%r)" % (cext, name, ot, e, m, x,
                                                   nmed, wl))
            # integrals over solid angle (only once per (m,x): k-independent)
            if nmed == NMED[0] and wl == WLS[0]:
                ic, ig, _ = _gl_integrals(Mie(), sph, nmed, wl, len(a), k)
                ck.trans += 1
                e = abs(ic - csca) / csca
                ck.metric("integral-csca", e)
                ck.true("integral-csca", e <= TOL["integral-csca"],
                        "Csca = %r but the solid-angle integral of |S|^2 is "
                        "%r (rel %.2e; m=%r x=%r)" % (csca, ic, e, m, x))
                e = abs(ig / ic - g)
                ck.metric("integral-g", e)
                ck.true("integral-g", e <= 1e-6,
                        "g = %r but the integral gives %r (m=%r x=%r)" %
                        (g, ig / ic, m, x))
            # Rayleigh limit
            if x <= 1e-2:
                rs, ra = mie_ref.rayleigh(m, x, k)
                e = abs(csca - rs) / rs
                ck.metric("rayleigh/x^2", e / x ** 2)
                ck.true("rayleigh-csca", e <= 3 * x * x + 1e-9,
                        "Csca = %r, Rayleigh formula %r (rel %.2e, x=%r)" %
                        (csca, rs, e, x))
                if not real_index:
                    e = abs(cabs - ra) / ra
                    ck.metric("rayleigh/x^2", e / x ** 2)
                    ck.true("rayleigh-cabs", e <= 3 * x * x + 1e-9,
                            "Cabs = %r, Rayleigh formula %r (rel %.2e)" %
                            (cabs, ra, e))
    # dimensional scaling: C k^2 and g depend only on (m, x)
    ref = scaled[0]
    for s in scaled[1:]:
        e = max(abs(s[0] - ref[0]) / ref[0], abs(s[1] - ref[1]) / ref[1],
                abs(s[2] - ref[2]))
        ck.metric("k2-scaling", e)
        ck.true("k2-scaling", e <= 1e-9, "C*k^2 differs between (n_medium, "
                "wavelength) settings by %.2e (m=%r x=%r)" % (e, m, x))
    return digest(*fps)


def _run_layered(case, ck):
    from holopy.scattering import Sphere, Mie, calc_cross_sections
    if "special" in case:
        ns, rs, wl, nmed = LAYERED_SPECIAL[case["special"]]
    else:
        ns, rs = LAYERED[case["i"]]
        nmed, wl = 1.33, 0.66
    k = 2 * math.pi * nmed / wl
    a, b = mie_ref.coeffs_layered([n / nmed for n in ns], [k * r for r in rs])
    real_index = all(complex(n).imag == 0 for n in ns)
    sph = Sphere(n=list(ns), r=list(rs), center=(0, 0, 0))
    fps = []
    for pol in POLS:
        cs = calc_cross_sections(sph, nmed, wl, pol, theory=Mie()).values
        ck.trans += 1
        got = _check_sphere_numbers(ck, "layered n=%r r=%r pol=%r" %
                                    (ns, rs, pol), cs, a, b, k, real_index,
                                    k * rs[-1])
        fps.append(np.array(got))
    csca, cabs, cext, g = got
    S0 = _forward(Mie(), sph, nmed, wl)
    ot = 4 * math.pi / k ** 2 * S0[0, 0].real
    e = abs(ot - cext) / cext
    ck.metric("optical-theorem", e)
    ck.true("optical-theorem", e <= 1e-10, "layered n=%r r=%r: Cext %r vs "
            "optical theorem %r" % (ns, rs, cext, ot))
    ic, ig, _ = _gl_integrals(Mie(), sph, nmed, wl, len(a), k)
    ck.trans += 2
    e = abs(ic - csca) / csca
    ck.metric("integral-csca", e)
    ck.true("integral-csca", e <= TOL["integral-csca"], "layered n=%r r=%r: Csca %r vs "
            "integral %r" % (ns, rs, csca, ic))
    e = abs(ig / ic - g)
    ck.metric("integral-g", e)
    ck.true("integral-g", e <= 1e-6, "layered: g %r vs integral %r" %
            (g, ig / ic))
    return digest(*fps)


def _run_ms1(case, ck):
    from holopy.scattering import (Sphere, Spheres, Mie, Multisphere,
                                   calc_cross_sections)
    m = complex(*case["m"])
    x = case["x"]
    nmed, wl = 1.33, 0.66
    k = 2 * math.pi * nmed / wl
    n_sph = m * nmed
    if m.imag == 0:
        n_sph = n_sph.real
    sph = Sphere(n=n_sph, r=x / k, center=(0.1, -0.2, 3.0))
    pol = tuple(case["pol"])
    ref = calc_cross_sections(sph, nmed, wl, pol, theory=Mie()).values
    got = calc_cross_sections(Spheres([sph]), nmed, wl, pol,
                              theory=Multisphere()).values
    ck.trans += 2
    names = ["Csca", "Cabs", "Cext", "g"]
    for i in (0, 2):
        e = abs(got[i] - ref[i]) / abs(ref[i])
        ck.metric("ms-vs-mie", e)
        ck.true("ms-vs-mie", e <= TOL["ms-vs-mie"], "one-sphere cluster %s = %r, Mie %r "
                "(rel %.2e; m=%r x=%r)" % (names[i], got[i], ref[i], e, m, x))
    e = abs(got[1] - ref[1]) / abs(ref[2])
    ck.metric("ms-vs-mie", e)
    ck.true("ms-vs-mie", e <= TOL["ms-vs-mie"], "one-sphere cluster Cabs = %r, Mie %r" %
            (got[1], ref[1]))
    e = abs(got[3] - ref[3])
    ck.metric("ms-vs-mie-g", e)
    ck.true("ms-vs-mie", e <= TOL["ms-vs-mie"], "one-sphere cluster g = %r, Mie %r" %
            (got[3], ref[3]))
    e = abs(got[2] - (got[0] + got[1])) / abs(got[2])
    ck.true("energy", e <= 1e-12, "Multisphere: Cext != Csca + Cabs")
    S0 = _forward(Multisphere(), Spheres([sph]), nmed, wl)
    # forward amplitude along the incident polarization (theta = phi = 0:
    # parallel = x, perpendicular = -y)
    nrm = math.hypot(*pol)
    px, py = pol[0] / nrm, pol[1] / nrm
    fwd = px * px * S0[0, 0] + py * py * S0[1, 1] - \
        px * py * (S0[0, 1] + S0[1, 0])
    ot = 4 * math.pi / k ** 2 * fwd.real
    e = abs(ot - got[2]) / abs(got[2])
    ck.metric("ms-optical-theorem", e)
    ck.true("ms-optical-theorem", e <= 1e-6, "Multisphere Cext %r vs "
            "4pi/k^2 Re S(0) %r from its own calc_scat_matrix (pol %r)" %
            (got[2], ot, pol))
    return digest(np.asarray(got, dtype=float))


def _run_ms2(case, ck):
    from holopy.scattering import (Sphere, Spheres, Multisphere,
                                   calc_cross_sections)
    spec = MS_TWO["thorough"][case["i"]]
    nmed, wl = 1.33, 0.66
    k = 2 * math.pi * nmed / wl
    clus = Spheres([Sphere(n=n, r=r, center=c) for n, r, c in spec])
    pol = (1, 0)
    got = calc_cross_sections(clus, nmed, wl, pol,
                              theory=Multisphere()).values
    ck.trans += 1
    e = abs(got[2] - (got[0] + got[1])) / abs(got[2])
    ck.true("energy", e <= 1e-12, "cluster: Cext != Csca + Cabs")
    ck.true("csca-positive", got[0] > 0, "cluster Csca = %r" % got[0])
    ck.true("g-range", -1 <= got[3] <= 1, "cluster g = %r" % got[3])
    S0 = _forward(Multisphere(), clus, nmed, wl)
    ot = 4 * math.pi / k ** 2 * S0[0, 0].real
    e = abs(ot - got[2]) / abs(got[2])
    ck.metric("ms-optical-theorem", e)
    ck.true("ms-optical-theorem", e <= 1e-6, "cluster Cext %r vs optical "
            "theorem %r" % (got[2], ot))
    return digest(np.asarray(got, dtype=float))


def _run_ms3z(case, ck):
    """a chain of three non-absorbing spheres along the optical axis, the
    middle one exactly at the cluster's centroid"""
    from holopy.scattering import Multisphere, calc_cross_sections
    nmed, wl = 1.33, 0.66
    k = 2 * math.pi * nmed / wl
    clus = _chain(3, case["which"] == "unequal")
    res = []
    for pol in POLS:
        got = calc_cross_sections(clus, nmed, wl, pol,
                                  theory=Multisphere()).values
        ck.trans += 1
        res.append(got)
        e = abs(got[2] - (got[0] + got[1])) / abs(got[2])
        ck.true("energy", e <= 1e-12, "chain: Cext != Csca + Cabs")
        ck.true("csca-positive", got[0] > 0, "chain Csca = %r" % got[0])
        ck.true("g-range", -1 <= got[3] <= 1, "chain g = %r" % got[3])
        e = abs(got[1]) / abs(got[2])
        ck.metric("ms-nonabsorbing-cabs", e)
        ck.true("energy-nonabsorbing", e <= TOL["ms-nonabsorbing-cabs"],
                "chain of non-absorbing spheres: Cabs = %r, Cext = %r "
                "(pol %r)" % (got[1], got[2], pol))
    for got, pol in zip(res[1:], POLS[1:]):
        e = float(np.max(np.abs(got - res[0]) / np.abs(res[0])))
        ck.metric("ms-axial-pol-independence", e)
        ck.true("axial-pol-independence", e <= 1e-8, "a chain along the "
                "optical axis has cross sections %r for polarization %r "
                "but %r for (1, 0)" % (got.tolist(), pol, res[0].tolist()))
    S0 = _forward(Multisphere(), clus, nmed, wl)
    ot = 4 * math.pi / k ** 2 * S0[0, 0].real
    e = abs(ot - res[0][2]) / abs(res[0][2])
    ck.metric("ms-optical-theorem", e)
    ck.true("ms-optical-theorem", e <= 1e-6, "chain Cext %r vs optical "
            "theorem %r" % (res[0][2], ot))
    return digest(np.asarray(res, dtype=float))


OBL_POLS = [(1, 0), (0, 1), (0.6, 0.8), (0.6, -0.8), (1, 1)]


def _run_msobl(case, ck):
    """a dimer of non-absorbing spheres that is oblique to the beam, under
    polarizations along, across and oblique to its projection: the
    extinction from the optical theorem must equal the scattering cross
    section (no absorption), whatever the polarization"""
    from holopy.scattering import (Sphere, Spheres, Multisphere,
                                   calc_cross_sections)
    nmed, wl = 1.33, 0.66
    clus = Spheres([Sphere(n=1.59, r=0.4, center=(0, 0, 4.4)),
                    Sphere(n=1.45, r=0.3, center=(0.7, 0.3, 5.2))])
    res = []
    for pol in [OBL_POLS[case["i"]]]:
        for kw in ({}, dict(eps=1e-12, qeps1=1e-12, qeps2=1e-14)):
            got = calc_cross_sections(clus, nmed, wl, pol,
                                      theory=Multisphere(**kw)).values
            ck.trans += 1
            e = abs(got[1]) / abs(got[2])
            ck.metric("ms-oblique-cabs", e)
            ck.true("energy-nonabsorbing", e <=
                    TOL["ms-nonabsorbing-cabs-analytic"],
                    "oblique dimer of non-absorbing spheres, polarization "
                    "%r, %s solver options: Cabs = %r, Cext = %r, Csca = %r"
                    % (pol, "tight" if kw else "default", got[1], got[2],
                       got[0]))
            res.append(got)
    # the same numbers from the amplitude scattering matrix that
    # calc_scat_matrix returns (Bohren & Huffman's convention: [[S2, S3],
    # [S4, S1]] acting on the incident components parallel and
    # perpendicular to the scattering plane, e_perp = sin(phi) x - cos(phi)
    # y): forward amplitude <-> C_ext, solid-angle integrals <-> C_sca and
    # <cos theta>.  S3 and S4 do not vanish for this dimer.
    import holopy as hp
    from holopy.scattering import calc_scat_matrix
    k = 2 * math.pi * nmed / wl
    pol = np.asarray(OBL_POLS[case["i"]], dtype=float)
    pol = pol / math.sqrt(float((pol ** 2).sum()))
    tight = Multisphere(eps=1e-12, qeps1=1e-12, qeps2=1e-14)
    nodes, wts = np.polynomial.legendre.leggauss(48)
    nphi = 64
    phis = 2 * math.pi * np.arange(nphi) / nphi
    TH, PH = np.meshgrid(np.arccos(nodes), phis, indexing="ij")
    det = hp.detector_points(theta=np.append(TH.ravel(), 0.0),
                             phi=np.append(PH.ravel(), 0.0))
    S = calc_scat_matrix(det, clus, nmed, wl, theory=tight).values
    ck.trans += 1
    ph = np.append(PH.ravel(), 0.0)
    epar = pol[0] * np.cos(ph) + pol[1] * np.sin(ph)
    eper = pol[0] * np.sin(ph) - pol[1] * np.cos(ph)
    spar = S[:, 0, 0] * epar + S[:, 0, 1] * eper
    sper = S[:, 1, 0] * epar + S[:, 1, 1] * eper
    inten = (abs(spar) ** 2 + abs(sper) ** 2)[:-1].reshape(TH.shape)
    W = wts[:, None] * (2 * math.pi / nphi)
    csca_i = float((W * inten).sum()) / k ** 2
    g_i = float((W * inten * nodes[:, None]).sum()) / k ** 2 / csca_i
    # forward direction (theta = 0, phi = 0): e_par = x, e_perp_s = -y
    fwd = pol[0] * spar[-1] - pol[1] * sper[-1]
    cext_i = 4 * math.pi / k ** 2 * float(fwd.real)
    csca, cabs, cext, g = [float(v) for v in res[-1]]
    for name, a, b, tol in (("csca", csca_i, csca, TOL["ms-matrix-integrals"]),
                            ("cext", cext_i, cext, TOL["ms-matrix-integrals"]),
                            ("g", g_i * csca, g * csca,
                             TOL["ms-matrix-integrals"])):
        e = abs(a - b) / abs(cext)
        ck.metric("ms-matrix-" + name, e)
        ck.true("ms-matrix-" + name, e <= tol, "oblique dimer, polarization "
                "%r: %s from the scattering matrix of calc_scat_matrix is "
                "%r, calc_cross_sections gives %r (rel. to Cext %.2e)" %
                (OBL_POLS[case["i"]], name, a, b, e))
    return digest(np.asarray(res, dtype=float))


def run_case(case):
    ck = Checker()
    fp = {"sphere": _run_sphere, "layered": _run_layered, "ms1": _run_ms1,
          "ms2": _run_ms2, "ms3z": _run_ms3z, "msobl": _run_msobl,
          "history": _run_history}[case["kind"]](case, ck)
    return ck.result(fp=fp)

"""C01 -- hologram = |alpha*E_s + p_hat|^2 on the detector; depends only on
the arguments.

(1) inputs/configurations: deviation-bounded product over scatterer x theory,
    detector, polarization, scaling, optics-passing mode;
(2) histories: every sequence of length <= 3 over an operation alphabet,
    executed in one interpreter; each result must be bit-identical to the
    same call issued as the first call of a pristine interpreter.
"""
import itertools
import math

import numpy as np

import hpcases as H
from lib import (Checker, deviations, digest, fork_call, fp_values,
                 fp_xarray, pick, vec_id)
from oracles import mie_ref

PROPERTY = "C01"
RULE = ("inputs: all vectors over (scatterer x theory [19], detector [7+1], "
        "polarization [5], scaling [5], optics mode [2]) with at most D "
        "deviations from the default vector (D=2 quick, full product "
        "thorough); histories: every sequence of length <= 3 over the "
        "operation alphabet (8 ops quick / 12 thorough) in one interpreter, "
        "each step compared bit-for-bit with its pristine-interpreter "
        "reference.  Non-trivial = distinct fingerprint of hologram values")
ASSUMPTIONS = ["fork() gives a pristine interpreter state (COMMON blocks and "
               "module globals untouched before the first operation)",
               "mpmath coefficient table for the Sphere x Mie anchor"]
TOLERANCES = {"holo-formula": "8 ulp of the largest pixel",
              "intensity-formula": "8 ulp", "alpha0": "4 ulp of 1",
              "anchor-mie": 1e-5, "history": "bit-identical"}
TIMEOUT = 600

AXES = {
    "st": ["mie", "mie-norad", "mie-asym", "mie-far", "mie-abs", "layered",
           "ms1", "ms1-bcg", "mie2", "ms2", "mie3far", "tm-sphere",
           "tm-spheroid", "tm-cylinder", "mielens", "abmielens", "mielens2",
           "lens-mie", "auto"],
    "det": ["g3x3", "g1x1", "g1x4", "g4x5a", "g3x3o", "p3", "p4z0", "g2ch",
            "g2chr", "g3x2z2", "g3x3-f32", "g3x3-u8"],
    "pol": [(1, 0), (0, 1), (1, 1), (0.6, -0.8), (3, 4), (1, 1, 0),
            (0.70711, 0.70711), (-0.5, -0.86603)],
    "alpha": [1.0, 0.0, 0.5, 1.7, -1.0],
    # args: optics passed as arguments; detector: optics already on the
    # detector; override: the detector carries OTHER (stale) optics and the
    # arguments must win
    "optics": ["args", "detector", "override"],
}

# operation alphabet; the "2"/"3" variants differ from their base only
# slightly (same expansion order, nearly the same index / radius /
# orientation / depth), so that a result cached or left over under a key
# that is too coarse shows up as a history dependence
OPS_ALL = ["holo-mieA", "holo-mieA2", "holo-mieA3", "holo-tmA", "holo-tmA2",
           "holo-mie-far", "holo-mie-norad",
           "holo-mieB", "holo-ms2", "holo-ms2b", "holo-mielens",
           "holo-mielens2", "xsec-mie", "smat-tm",
           # the same particle through theory objects that differ in one
           # option only (acceptance angle, aberration, quadrature, solver
           # tolerance), and a cluster that differs in absorption only
           "holo-mielens-angle", "holo-abml", "holo-abml2", "holo-ms2c",
           "holo-mielens-npts", "holo-lensmie", "holo-lensmie-angle",
           "holo-ms2-tight",
           "holo-tmB", "holo-ms1",
           "holo-tmcyl", "holo-tmsph", "holo-layered"]
OPS = {"quick": OPS_ALL[:18], "thorough": OPS_ALL + ["holo-mie-nofull"]}
CORE = OPS_ALL[:7]


def cases(tier, seed):
    out = []
    D = 2 if tier == "quick" else len(AXES)
    for vec in deviations({k: list(range(len(v))) for k, v in AXES.items()},
                          D):
        out.append({"id": "in:" + vec_id(vec), "kind": "input", "vec": vec})
    ops = OPS[tier]
    # pristine-interpreter reference of every operation, computed once by
    # forking from the (pristine) driver
    refs = {}
    for name in ops:
        st, val = fork_call(_op_digest, name)
        refs[name] = val if st == "ok" else "FAILED:%s:%r" % (st, val)
    seqs = []
    for L in (1, 2, 3):
        for seq in itertools.product(ops, repeat=L):
            # quick: all sequences of length <= 2, and length 3 over the
            # core of near-identical operations
            if tier == "quick" and L == 3 and \
                    not all(o in CORE for o in seq):
                continue
            seqs.append(list(seq))
    for seq in seqs:
        out.append({"id": "hist:" + ">".join(seq), "kind": "history",
                    "seq": seq, "ref": {o: refs[o] for o in seq}})
    mie_ref.ensure([mie_ref.req_homog(1.59 / H.NMED, H.K * 0.5)])
    # the same numbers written in other numeric types (all of them exactly
    # representable, so nothing but the type changes)
    for th in NUMTYPE_TH:
        out.append({"id": "numeric-types:%s" % th, "kind": "numtypes",
                    "th": th})
    return out


NUMTYPE_TH = ["Mie", "Mie-layered", "Mie-collection", "MieLens", "Lens(Mie)",
              "Multisphere", "Tmatrix"]


def _run_numtypes(case, ck):
    """radius, index, centre and optics given as NumPy scalars of other
    widths / as 0.5 = float32(0.5) = float16(0.5): the hologram is the one of
    the plain Python numbers; failures (NaN) must not turn into values"""
    import warnings
    from holopy.scattering import (calc_holo, calc_field, Sphere, Spheres,
                                   Spheroid, Mie, MieLens, Multisphere,
                                   Tmatrix)
    from holopy.scattering.theory import Lens
    th = case["th"]
    det = H.det_grid((3, 4), 0.25)

    def build(R, N, C):
        # R: converter for radii, N: for indices, C: for centre components
        c = [C(0.25), C(0.5), C(5.0)]
        if th == "Mie-layered":
            return Sphere(n=[N(1.5), N(1.25)], r=[R(0.25), R(0.5)],
                          center=c), Mie()
        if th == "Mie-collection":
            return Spheres([Sphere(n=N(1.5), r=R(0.5), center=c),
                            Sphere(n=N(1.25), r=R(0.25),
                                   center=[C(2.0), C(1.5), C(6.0)])]), Mie()
        if th == "Multisphere":
            return Spheres([Sphere(n=N(1.5), r=R(0.5), center=c),
                            Sphere(n=N(1.25), r=R(0.25),
                                   center=[C(1.0), C(1.5), C(5.5)])]), \
                Multisphere()
        if th == "Tmatrix":
            return Spheroid(n=N(1.5), r=(R(0.25), R(0.5)),
                            rotation=(0, 0.5, 0.25), center=c), Tmatrix()
        theory = {"Mie": Mie, "MieLens": lambda: MieLens(0.75),
                  "Lens(Mie)": lambda: Lens(0.75, Mie(False, False), 40,
                                            40)}[th]()
        return Sphere(n=N(1.5), r=R(0.5), center=c), theory

    ident = lambda v: v
    fps = []
    with warnings.catch_warnings():
        warnings.simplefilter("ignore")
        scat, theory = build(ident, ident, ident)
        ref = calc_holo(det, scat, H.NMED, H.WL, (1, 0), theory=theory).values
    ck.trans += 1
    ck.true("finite", bool(np.isfinite(ref).all()), "%s: reference hologram "
            "is not finite" % th)
    forms = [("radius float32", np.float32, ident, ident),
             ("radius float16", np.float16, ident, ident),
             ("radius np.float64", np.float64, ident, ident),
             ("index float32", ident, np.float32, ident),
             ("centre float32", ident, ident, np.float32),
             ("centre float16", ident, ident, np.float16),
             ("everything float32", np.float32, np.float32, np.float32)]
    for name, R, N, C in forms:
        with warnings.catch_warnings():
            warnings.simplefilter("ignore")
            scat, theory = build(R, N, C)
            try:
                h = calc_holo(det, scat, H.NMED, H.WL, (1, 0),
                              theory=theory).values
                f = calc_field(det, scat, H.NMED, H.WL, (1, 0),
                               theory=theory).values
            except Exception as e:
                if H.is_refusal(e):
                    continue
                raise
        ck.trans += 2
        e = float(np.abs(h - ref).max()) if np.isfinite(h).all() else \
            float("inf")
        ck.metric("numeric-types", e if np.isfinite(e) else 1e300)
        # HoloPy computes some intermediate quantities (k r, n / n_medium)
        # in the width of the input: the agreement is that of the type
        tol = 5e-3 if "float16" in name else (1e-6 if "float32" in name
                                              else 1e-12)
        ck.true("numeric-types", e <= tol, "%s, %s: the hologram differs "
                "from the one computed with plain Python numbers by %.3g "
                "(field finite: %s; hologram range %.4g .. %.4g)" %
                (th, name, e, bool(np.isfinite(f).all()),
                 float(np.nanmin(h)) if np.isfinite(h).any() else
                 float("nan"),
                 float(np.nanmax(h)) if np.isfinite(h).any() else
                 float("nan")))
        fps.append(fp_values(h))
    return digest(*fps)


def _op_digest(name):
    return digest(_op(name))


# --------------------------------------------------------------------------
def _detector(name):
    if name == "g3x2z2":
        # a grid detector with two z planes
        import xarray as xr
        a = H.det_grid((3, 2), 0.1)
        b = a.assign_coords(z=a.z + 0.5)
        return xr.concat([a, b], dim="z")
    if name in ("g2ch", "g2chr"):
        return H.det_grid(3, 0.1, extra_dims={"illumination": ["red",
                                                                "green"]})
    if name in ("g3x3-f32", "g3x3-u8"):
        # a recorded camera frame used as the detector: its data are single
        # precision / 8-bit counts (the calculation must not inherit that)
        import holopy as hp
        dt = "float32" if name.endswith("f32") else "uint8"
        frame = (np.arange(9).reshape(3, 3) * 7 + 3).astype(dt)
        return hp.core.metadata.data_grid(frame, spacing=0.1, name="frame")
    return H.DETS[name]()


def _run_input(case, ck):
    import xarray as xr
    from holopy.core.metadata import update_metadata
    from holopy.scattering import calc_holo, calc_field, calc_intensity
    v = pick(AXES, case["vec"])
    det = _detector(v["det"])
    # metadata that is not optics (acquisition notes etc.) travels along
    det.attrs["acquisition"] = "cam-7"
    det.attrs["exposure_ms"] = 12.5
    scat, theory = H.mk(v["st"])
    pol, alpha = v["pol"], v["alpha"]
    wl = H.WL
    multi = v["det"] in ("g2ch", "g2chr")
    if v["det"] == "g2ch":
        wl = {"red": 0.66, "green": 0.52}
    elif v["det"] == "g2chr":
        # dictionaries listed in another order than the detector's channels
        wl = {"green": 0.52, "red": 0.66}
        if alpha not in (0.0, 1.0):
            alpha = {"green": alpha, "red": alpha / 2}
    if v["optics"] == "override":
        det = update_metadata(det, medium_index=1.0, illum_wavelen=(
            {"red": 0.4, "green": 0.45} if multi else 0.4),
            illum_polarization=(0, 1) if pol[0] else (1, 0))
        kw = dict(medium_index=H.NMED, illum_wavelen=wl,
                  illum_polarization=pol)
    elif v["optics"] == "detector":
        det = update_metadata(det, medium_index=H.NMED, illum_wavelen=wl,
                              illum_polarization=pol)
        kw = {}
    else:
        kw = dict(medium_index=H.NMED, illum_wavelen=wl,
                  illum_polarization=pol)
    fp_det = fp_xarray(det)
    try:
        holo = calc_holo(det, scat, theory=theory, scaling=alpha, **kw)
        field = calc_field(det, scat, theory=theory, **kw)
        inten = calc_intensity(det, scat, theory=theory, **kw)
        ck.trans += 3
    except Exception as e:
        if H.is_refusal(e):
            return "refused:" + type(e).__name__, "refused"
        raise
    nrm = math.hypot(pol[0], pol[1])
    phat = xr.DataArray([pol[0] / nrm, pol[1] / nrm],
                        coords={"vector": ["x", "y"]}, dims="vector")
    fxy = field.sel(vector=["x", "y"])
    a_x = alpha
    if isinstance(alpha, dict):
        a_x = xr.DataArray([alpha["red"], alpha["green"]],
                           dims="illumination",
                           coords={"illumination": ["red", "green"]})
    # (a) the statement itself, evaluated with plain xarray arithmetic
    exp_h = (abs(fxy * a_x + phat) ** 2).sum("vector")
    exp_i = (abs(fxy) ** 2).sum("vector")
    exp_h = exp_h.transpose(*holo.dims)
    exp_i = exp_i.transpose(*inten.dims)
    big = max(1.0, float(abs(exp_h).max()))
    e = float(abs(holo.values - exp_h.values).max()) / np.spacing(big)
    ck.metric("holo-formula-ulp", e)
    ck.true("holo-formula", holo.shape == exp_h.shape and e <= 8,
            "hologram differs from sum_xy |alpha*E + p_hat|^2 by %.3g ulp "
            "(%s)" % (e, v))
    bigi = float(abs(exp_i).max()) or 1.0
    e = float(abs(inten.values - exp_i.values).max()) / np.spacing(bigi)
    ck.metric("intensity-formula-ulp", e)
    ck.true("intensity-formula", e <= 8, "intensity differs from sum_xy "
            "|E|^2 by %.3g ulp (%s)" % (e, v))
    # (b) alpha = 0 -> exactly 1 (|p_hat|^2 is 1 within rounding)
    if alpha == 0.0:
        e = float(abs(holo.values - 1.0).max()) / np.spacing(1.0)
        ck.metric("alpha0-ulp", e)
        ck.true("alpha0", e <= 4, "scaling 0 gives %r, not 1 (%s)" %
                (holo.values.ravel()[:3], v))
    # (c) finite
    ck.true("finite", np.isfinite(holo.values).all() and
            np.isfinite(field.values).all() and
            np.isfinite(inten.values).all(), "non-finite result (%s)" % v)
    # (d) exactly the detector's coordinates / dims / name
    for nm, res in (("holo", holo), ("intensity", inten), ("field", field)):
        for c in ("x", "y", "z"):
            ok = c in res.coords and np.array_equal(
                np.asarray(res.coords[c].values),
                np.asarray(det.coords[c].values)) and \
                res.coords[c].dims == det.coords[c].dims
            ck.true("coords", ok, "%s: coordinate %s differs from the "
                    "detector's (%s)" % (nm, c, v))
        ck.true("name", res.name == det.name, "%s: name %r != detector name "
                "%r" % (nm, res.name, det.name))
    # same set of axes (the order of axes is not part of the statement)
    ck.true("dims", set(holo.dims) == set(det.dims) and
            set(inten.dims) == set(det.dims) and
            set(field.dims) == set(det.dims) | {"vector"},
            "axes holo=%r field=%r, detector %r" %
            (holo.dims, field.dims, det.dims))
    # (e) metadata = detector attrs updated with the optics
    for nm, res in (("holo", holo), ("field", field), ("intensity", inten)):
        a = res.attrs
        ck.true("attrs-other", a.get("acquisition") == "cam-7" and
                a.get("exposure_ms") == 12.5, "%s: the detector's other "
                "metadata was not carried over (attrs %r)" %
                (nm, sorted(map(str, a))))
        ck.true("attrs-medium", a.get("medium_index") == H.NMED,
                "%s: medium_index attr %r" % (nm, a.get("medium_index")))
        p = np.asarray(getattr(a.get("illum_polarization"), "values",
                               a.get("illum_polarization")), dtype=float)
        pe = np.array([pol[0] / nrm, pol[1] / nrm, 0.0])
        if p.ndim == 2:           # multi-channel: one row per channel
            okp = all(np.allclose(row, pe, atol=1e-15) for row in
                      (p if p.shape[-1] == 3 else p.T))
        else:
            okp = p.shape == (3,) and np.allclose(p, pe, atol=1e-15)
        ck.true("attrs-polarization", okp, "%s: stored polarization %r, "
                "expected unit vector %r" % (nm, p.tolist(), pe.tolist()))
        w = a.get("illum_wavelen")
        wv = np.asarray(getattr(w, "values", w), dtype=float).ravel()
        we = np.array([0.66, 0.52]) if multi else np.array([H.WL])
        ck.true("attrs-wavelen", sorted(wv.tolist()) == sorted(we.tolist()),
                "%s: stored wavelength %r" % (nm, wv.tolist()))
    ck.true("input-untouched", fp_xarray(det) == fp_det,
            "the detector object was modified by the calculation (%s)" % v)
    # (f) independent anchor for Sphere x Mie (all option pairs)
    if v["st"] in ("mie", "mie-norad", "mie-asym", "mie-far") and \
            not multi and not isinstance(alpha, dict):
        rad, full = {"mie": (True, True), "mie-norad": (False, True),
                     "mie-asym": (True, False),
                     "mie-far": (False, False)}[v["st"]]
        a_, b_ = mie_ref.coeffs(1.59 / H.NMED, H.K * 0.5)
        if "point" in det.dims:
            pts = np.stack([det.x.values, det.y.values, det.z.values], 1)
            hv = holo.values
        else:
            X, Y, Z = np.meshgrid(det.x.values, det.y.values, det.z.values,
                                  indexing="ij")
            pts = np.stack([X.ravel(), Y.ravel(), Z.ravel()], 1)
            hv = holo.transpose("x", "y", "z").values.reshape(-1)
        Ex, Ey, _ = mie_ref.holopy_field(a_, b_, H.K, H.C0, pts, pol, full,
                                         rad)
        ref = abs(alpha * Ex + pol[0] / nrm) ** 2 + \
            abs(alpha * Ey + pol[1] / nrm) ** 2
        e = float(abs(hv - ref).max())
        ck.metric("anchor-mie", e)
        ck.true("anchor-mie", e <= 1e-5, "hologram differs from the textbook"
                " Mie hologram by %.2e (%s)" % (e, v))
    return digest(fp_values(holo.values), holo.shape), "ok"


# --------------------------------------------------------------------------
# history search
# --------------------------------------------------------------------------
_SHARED = {}


def _shared():
    """objects shared by all operations of one history"""
    if not _SHARED:
        from holopy.scattering import Sphere, Spheroid
        _SHARED["det"] = H.det_grid(4, 0.1)
        _SHARED["detp"] = __import__("holopy").detector_points(
            theta=np.linspace(0.1, 2.5, 7), phi=np.linspace(0, 5, 7))
        _SHARED["detfar"] = __import__("holopy").detector_points(
            theta=np.linspace(0.1, 1.2, 5), phi=np.linspace(0, 5, 5),
            r=1000.0)
        for k in ("mie", "ms2", "tm-spheroid", "mielens", "ms1",
                  "tm-cylinder", "tm-sphere", "layered"):
            _SHARED[k] = H.mk(k)
        _SHARED["mieB"] = Sphere(n=1.45, r=0.8, center=(0.1, 0.3, 7.0))
        c0 = H.C0
        _SHARED["mieA2"] = Sphere(n=1.60, r=0.5, center=c0)
        _SHARED["mieA3"] = Sphere(n=1.59, r=0.501, center=c0)
        _SHARED["tmA2"] = Spheroid(n=1.59, r=(0.3, 0.6),
                                   rotation=(0.0, 0.41, 0.7), center=c0)
        _SHARED["ms2b"] = H.mk_scatterer(
            ("spheres", [(1.59, 0.5, c0), (1.45, 0.3, (1.3, 0.9, 6.05))]))
        _SHARED["ms2c"] = H.mk_scatterer(
            ("spheres", [(1.59 + 0.05j, 0.5, c0),
                         (1.45, 0.3, (1.3, 0.9, 6.0))]))
        _SHARED["mielens2"] = Sphere(n=1.59, r=0.5,
                                     center=(c0[0], c0[1], c0[2] + 0.01))
        _SHARED["tmB"] = Spheroid(n=1.5, r=(0.9, 0.45),
                                  rotation=(0, 1.1, 0.2),
                                  center=(0.2, 0.1, 6.0))
    return _SHARED


def _op(name):
    from holopy.scattering import (calc_holo, calc_cross_sections,
                                   calc_scat_matrix, Mie, Tmatrix)
    S = _shared()
    kw = dict(medium_index=H.NMED, illum_wavelen=H.WL,
              illum_polarization=(1, 0))
    det = S["det"]

    def holo(key):
        sc, th = S[key]
        return calc_holo(det, sc, theory=th, **kw)
    if name == "holo-mieA":
        r = holo("mie")
    elif name == "holo-mieB":
        r = calc_holo(det, S["mieB"], theory=S["mie"][1], **kw)
    elif name == "holo-mie-far":
        # the same Mie theory OBJECT, detector points about 1 mm away
        r = calc_holo(S["detfar"], S["mie"][0], theory=S["mie"][1], **kw)
    elif name == "holo-mie-norad":
        # same sphere, a theory object with the radial component switched
        # off (the Fortran kernel takes a different branch)
        r = calc_holo(det, S["mie"][0],
                      theory=Mie(compute_escat_radial=False), **kw)
    elif name == "holo-mie-nofull":
        r = calc_holo(det, S["mie"][0],
                      theory=Mie(full_radial_dependence=False), **kw)
    elif name in ("holo-mieA2", "holo-mieA3"):
        r = calc_holo(det, S[name[5:]], theory=S["mie"][1], **kw)
    elif name == "holo-tmA2":
        r = calc_holo(det, S["tmA2"], theory=S["tm-spheroid"][1], **kw)
    elif name == "holo-ms2b":
        r = calc_holo(det, S["ms2b"], theory=S["ms2"][1], **kw)
    elif name == "holo-mielens2":
        r = calc_holo(det, S["mielens2"], theory=S["mielens"][1], **kw)
    elif name == "holo-mielens-angle":
        from holopy.scattering import MieLens
        r = calc_holo(det, S["mielens"][0], theory=MieLens(lens_angle=0.6),
                      **kw)
    elif name == "holo-mielens-npts":
        from holopy.scattering import MieLens
        r = calc_holo(det, S["mielens"][0], theory=MieLens(
            lens_angle=0.8, calculator_accuracy_kwargs={"quad_npts": 120}),
            **kw)
    elif name in ("holo-abml", "holo-abml2"):
        from holopy.scattering import AberratedMieLens
        co = [0.1, -0.05, 0.02] if name == "holo-abml" else [0.1, -0.05, 0.03]
        r = calc_holo(det, S["mielens"][0], theory=AberratedMieLens(
            spherical_aberration=co, lens_angle=0.8), **kw)
    elif name in ("holo-lensmie", "holo-lensmie-angle"):
        from holopy.scattering.theory import Lens
        la = 0.8 if name == "holo-lensmie" else 0.6
        r = calc_holo(det, S["mielens"][0], theory=Lens(
            la, Mie(False, False), quad_npts_theta=30, quad_npts_phi=30),
            **kw)
    elif name == "holo-ms2c":
        r = calc_holo(det, S["ms2c"], theory=S["ms2"][1], **kw)
    elif name == "holo-ms2-tight":
        from holopy.scattering import Multisphere
        r = calc_holo(det, S["ms2"][0], theory=Multisphere(
            eps=1e-10, qeps1=1e-9, qeps2=1e-12), **kw)
    elif name == "holo-ms2":
        r = holo("ms2")
    elif name == "holo-ms1":
        r = holo("ms1")
    elif name == "holo-tmA":
        r = holo("tm-spheroid")
    elif name == "holo-tmB":
        r = calc_holo(det, S["tmB"], theory=S["tm-spheroid"][1], **kw)
    elif name == "holo-tmcyl":
        r = holo("tm-cylinder")
    elif name == "holo-tmsph":
        r = holo("tm-sphere")
    elif name == "holo-mielens":
        r = holo("mielens")
    elif name == "holo-layered":
        r = holo("layered")
    elif name == "xsec-mie":
        r = calc_cross_sections(S["mie"][0], H.NMED, H.WL, (1, 0),
                                theory=S["mie"][1])
    elif name == "smat-tm":
        r = calc_scat_matrix(S["detp"], S["tm-spheroid"][0], H.NMED, H.WL,
                             theory=S["tm-spheroid"][1])
    else:
        raise KeyError(name)
    return np.ascontiguousarray(r.values)


def _inputs_fp():
    S = _shared()
    parts = [fp_xarray(S["det"]), fp_xarray(S["detp"]),
             fp_xarray(S["detfar"])]
    for k, v in sorted(S.items()):
        if isinstance(v, tuple) and not isinstance(v[1], str):
            parts.append(repr(v[1]))            # theory objects
    for k, v in sorted(S.items()):
        if isinstance(v, tuple):
            parts.append(repr(v[0]))
        elif k in ("mieB", "tmB", "mieA2", "mieA3", "tmA2", "ms2b", "ms2c",
                   "mielens2"):
            parts.append(repr(v))
    return digest(*parts)


def _pristine(name):
    return _op(name).tobytes()


def _run_history(case, ck):
    seq = case["seq"]
    _shared()
    before = _inputs_fp()
    ref = case["ref"]
    for name in seq:
        if str(ref[name]).startswith("FAILED"):
            ck.true("pristine-reference", False, "operation %s failed as the "
                    "first call of a pristine interpreter: %s" %
                    (name, ref[name]))
            return "ref-failed"
    outs = []
    for i, name in enumerate(seq):
        got = _op(name)
        ck.trans += 1
        same = digest(got) == ref[name]
        ck.true("history-independent", same,
                "step %d (%s) of %s differs from the same call in a pristine "
                "interpreter" % (i + 1, name, ">".join(seq)))
        ck.true("input-untouched", _inputs_fp() == before,
                "a shared detector/scatterer object was modified by step %d "
                "(%s)" % (i + 1, name))
        outs.append(digest(got))
    return digest(*outs)


def run_case(case):
    ck = Checker()
    if case["kind"] == "input":
        fp, outcome = _run_input(case, ck)
        return ck.result(fp=fp, outcome=outcome,
                         nontrivial=(outcome == "ok"))
    if case["kind"] == "numtypes":
        return ck.result(fp=_run_numtypes(case, ck))
    fp = _run_history(case, ck)
    return ck.result(fp=fp)


def coverage_extra(cases, results):
    nin = sum(1 for c in cases if c["kind"] == "input")
    nh = sum(1 for c in cases if c["kind"] == "history")
    refused = sum(1 for c, r in zip(cases, results)
                  if r.get("outcome") == "refused")
    return {"input_vectors": nin, "histories": nh,
            "refused_vectors": refused, "axes": {k: len(v) for k, v in
                                                 AXES.items()},
            "deviation_bound": "see rule",
            "history_alphabet": sorted({s for c in cases
                                        if c["kind"] == "history"
                                        for s in c["seq"]})}

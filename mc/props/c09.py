"""C09 -- sphere clusters: order independence, symmetry, default-theory rule.

Exhaustive: every subset (size 1-4) of a 6-sphere alphabet on a fixed
non-overlapping 3-D lattice, EVERY permutation of each, both interaction
solvers, default and tightened solver options, rotations about the optical
axis; default-theory rule over a scatterer alphabet including separations
on both sides of (and exactly on) the 30-radius boundary.
"""
import itertools
import math
import warnings

import numpy as np

import hpcases as H
from lib import Checker, digest, fp_values, fork_call

PROPERTY = "C09"
RULE = ("clusters = all subsets of size 1..4 (quick: a fixed selection) of 6 "
        "sphere specs on a lattice; for each every permutation of the list "
        "(<= 24), solver in {order-of-scattering, biconjugate gradient} x "
        "{default, tightened} options, rotation angles {37, 90, 180, -120, "
        "1 deg}; 5-/6-sphere clusters with all adjacent transpositions, "
        "reversal and rotations of the list; default-theory rule over 30 "
        "scatterer kinds/separations.  Non-trivial = distinct fingerprint")
ASSUMPTIONS = ["the external DDA solver (adda) is absent in this image, so "
               "DDA-routed shapes can only be observed reporting the missing "
               "dependency", "alphabet values only"]
# floors on the unchanged tree (thorough) in brackets.  The permutation
# floors used to be 6.5e-3 / 1.1e-4 and were first taken for the accuracy of
# the iterative solver; they were a genuine defect (stale entries of a static
# work array read for pairs of spheres with different expansion orders, see
# known_findings.json), repaired in /repo.
TOLERANCES = {"permutation-default": 1e-6,    # [4.3e-9] of the peak field
              "permutation-tight": 1e-6,      # [1.9e-8]
              "rotation-default": 1e-5,       # [3.6e-8]
              "rotation-tight": 1e-5,         # [7.1e-8]
              # default single-sphere truncation (qeps1 = 1e-5 of Q_ext)
              "one-sphere-vs-mie": 1e-3,      # [1.1e-4; 3e-4 at x = 26]
              "one-sphere-vs-mie-far-default": 1e-3,   # [2.3e-4]
              "one-sphere-vs-mie-far-tight": 1e-6,     # [2.7e-8]
              "weak-coupling": "0.25 x^3 / (k d)",   # [0.05 of it]
              "displaced-sphere": 1e-5,       # [2.2e-7]
              "auto-vs-explicit": "bit-identical",
              # the permutation tolerance: [0 on the unchanged tree]
              "history": 1e-6}
TIMEOUT = 900
MIN_AGREEING_PAIRS = 3        # [worst observed: 6 of 15]

SPECS = [(1.59, 0.5), (1.45, 0.3), (1.7, 0.25), (1.59 + 0.05j, 0.4),
         (1.5, 0.6), (1.45, 0.45)]
# fixed lattice positions (one per spec) -- pairwise non-overlapping,
# mixed depths, everything within kR < 40
POS = [(0.0, 0.0, 5.0), (1.4, 0.3, 5.8), (-0.6, 1.2, 4.3),
       (0.5, -1.3, 6.4), (-1.5, -0.9, 5.2), (1.1, 1.5, 7.0)]
TIGHT = dict(eps=1e-12, qeps1=1e-12, qeps2=1e-14)
ROTS = [37.0, 90.0, 180.0, -120.0, 1.0]
PTS = np.array([[0.0, 0.0, 0.0], [0.9, 0.2, 0.0], [-0.5, 1.1, 0.0],
                [0.17, 0.11, 0.0], [-1.3, -0.7, 0.0], [2.0, -1.5, 0.0],
                [3.0, 3.0, 0.0]])
QUICK_SUBSETS = [(0,), (3,), (0, 1), (2, 3), (0, 1, 2), (1, 3, 4), (0, 2, 5),
                 (0, 1, 2, 3), (1, 2, 4, 5)]


def cases(tier, seed):
    out = []
    if tier == "quick":
        subsets = QUICK_SUBSETS
    else:
        subsets = [s for k in (1, 2, 3, 4)
                   for s in itertools.combinations(range(6), k)]
    for sub in subsets:
        for opt in ("default", "tight"):
            if tier == "quick" and opt == "default" and len(sub) == 4:
                continue
            out.append({"id": "perm:%s:%s" % ("".join(map(str, sub)), opt),
                        "kind": "perm", "sub": list(sub), "opt": opt})
    for sub in ([(0, 1, 2, 3, 4)] if tier == "quick" else
                [(0, 1, 2, 3, 4), (1, 2, 3, 4, 5), (0, 1, 2, 3, 4, 5)]):
        out.append({"id": "bigperm:%s" % "".join(map(str, sub)),
                    "kind": "bigperm", "sub": list(sub)})
    for sub in (QUICK_SUBSETS[2:7] if tier == "quick" else
                [s for s in subsets if 2 <= len(s) <= 3]):
        out.append({"id": "rot:%s" % "".join(map(str, sub)), "kind": "rot",
                    "sub": list(sub)})
    for i in range(len(RULE_CASES)):
        out.append({"id": "rule:%s" % RULE_CASES[i][0], "kind": "rule",
                    "i": i})
    for i in range(len(WEAK)):
        out.append({"id": "weak-coupling#%d" % i, "kind": "weak", "i": i})
    # the same anchor through the numerical lens theory: the image of two
    # well separated spheres is the superposition of the two single-sphere
    # images, each WHERE ITS SPHERE IS (single spheres are point-symmetric
    # about their centre, a cluster is not: only the cluster can show an
    # image that is turned about the optical axis)
    for i in range(len(WEAK_NEAR)):
        out.append({"id": "weak-coupling-near-plane#%d" % i,
                    "kind": "weaknear", "i": i})
    for i in range(len(WEAK_LENS)):
        out.append({"id": "weak-coupling-lens#%d" % i, "kind": "weaklens",
                    "i": i, "_timeout": 900})
    # cross sections of an oblique dimer under a joint rotation of the
    # cluster and the polarization
    out.append({"id": "xsec-rotation", "kind": "xsecrot", "_timeout": 900})
    for i in range(len(DISPLACED)):
        out.append({"id": "displaced-sphere#%d" % i, "kind": "displaced",
                    "i": i})
    # a cluster whose pairs share an x or a y coordinate exactly (special
    # branch of the translation matrices): permutations and rotations
    for opt in ("default", "tight"):
        out.append({"id": "perm:aligned:%s" % opt, "kind": "perm",
                    "sub": [0, 1, 2], "opt": opt, "aligned": True})
    out.append({"id": "rot:aligned", "kind": "rot", "sub": [0, 1, 2],
                "aligned": True})
    # spheres of clearly different size (different expansion orders per
    # sphere): the pair translations work on blocks of unequal length
    for sub in ([(0, 1, 2), (0, 1, 2, 3)] if tier == "quick" else
                [(0, 1), (0, 2), (0, 1, 2), (1, 2, 3), (0, 2, 3),
                 (0, 1, 2, 3)]):
        for opt in ("default", "tight"):
            if tier == "quick" and opt == "default" and len(sub) == 4:
                continue
            out.append({"id": "perm:sizes%s:%s" % ("".join(map(str, sub)),
                                                   opt),
                        "kind": "perm", "sub": list(sub), "opt": opt,
                        "sizes": True})
    out.append({"id": "rot:sizes", "kind": "rot", "sub": [0, 1, 2],
                "sizes": True})
    # histories: clusters that differ from the previous call's cluster in one
    # respect only (absorption, index, radius, position, listing order)
    ops = sorted(HIST_CLUSTERS)
    refs = {}
    for o in ops:
        st, val = fork_call(_hist_field, o)
        refs[o] = val if st == "ok" else None
    seqs = [list(q) for q in itertools.product(ops, repeat=2)]
    if tier != "quick":
        seqs += [list(q) for q in itertools.product(ops[:6], repeat=3)]
    # one case per first operation (its continuations run in forks of one
    # interpreter each)
    for o in ops:
        out.append({"id": "history:%s" % o, "kind": "history", "first": o,
                    "seqs": [q for q in seqs if q[0] == o],
                    "ref": refs})
    return out


_SA = (1.45, 0.4)
_SB = (1.45 + 0.05j, 0.4)         # only the absorption differs
_SC = (1.46, 0.4)                 # only the real index
_SD = (1.45, 0.41)                # only the radius
_P1, _P2, _P3 = (0.3, 0.2, 5.0), (1.5, 0.9, 5.4), (1.5, 0.9, 5.5)
HIST_CLUSTERS = {
    "1a": [(_SA, _P1)], "1b": [(_SB, _P1)], "1c": [(_SC, _P1)],
    "1d": [(_SD, _P1)],
    "2ab": [(_SA, _P1), (_SB, _P2)], "2ba": [(_SB, _P2), (_SA, _P1)],
    "2ba-swapped-places": [(_SB, _P1), (_SA, _P2)],
    "2ac": [(_SA, _P1), (_SC, _P2)], "2ad": [(_SA, _P1), (_SD, _P2)],
    "2ab-moved": [(_SA, _P1), (_SB, _P3)],
    # dimers along a coordinate axis: the same direction to the last bit,
    # another separation
    "2x-near": [(_SA, (0.3, 0.2, 5.0)), (_SA, (1.5, 0.2, 5.0))],
    "2x-far": [(_SA, (0.3, 0.2, 5.0)), (_SA, (2.1, 0.2, 5.0))],
    "2x-far-reversed": [(_SA, (2.1, 0.2, 5.0)), (_SA, (0.3, 0.2, 5.0))],
    "2z-near": [(_SA, (0.3, 0.2, 5.0)), (_SA, (0.3, 0.2, 6.0))],
    "2z-far": [(_SA, (0.3, 0.2, 5.0)), (_SA, (0.3, 0.2, 6.5))],
}


def _hist_field(name):
    from holopy.scattering import Sphere, Spheres, Multisphere
    with warnings.catch_warnings():
        warnings.simplefilter("ignore")
        sc = Spheres([Sphere(n=n, r=r, center=c)
                      for (n, r), c in HIST_CLUSTERS[name]])
        v = _field(H.det_grid(3, 0.4), sc, Multisphere())
    v = np.asarray(v).ravel()
    return [float(x) for x in np.concatenate([v.real, v.imag])]


def _run_history(case, ck):
    """B after A (after A after ...) in one interpreter gives the field B
    gives in a pristine interpreter: otherwise listing order, the one-sphere
    rule and rotation covariance would hold or fail depending on what was
    computed before"""
    ref = case["ref"]
    acc = []

    def walk(seq):
        outs, rep = [], []
        for i, o in enumerate(seq):
            got = np.array(_hist_field(o))
            if ref[o] is None:
                continue
            r = np.array(ref[o])
            rep.append((o, i, float(np.abs(got - r).max() /
                                    np.abs(r).max())))
            outs.append(np.round(got, 9))
        return digest(*outs), rep
    for seq in case["seqs"]:
        st, val = fork_call(walk, seq)
        if st != "ok":
            ck.true("history:same-cluster-same-solution", False,
                    "sequence %s: %s %r" % (">".join(seq), st, val))
            acc.append(st)
            continue
        ck.trans += len(seq)
        for o, i, e in val[1]:
            ck.metric("history", e)
            ck.true("history:same-cluster-same-solution",
                    e <= TOLERANCES["history"],
                    "cluster %s computed as step %d of %s differs by %.2e "
                    "from the same cluster computed first in an interpreter"
                    % (o, i + 1, ">".join(seq), e))
        acc.append(val[0])
    return digest(*acc)


POS_ALIGNED = [(0.3, 0.1, 5.0), (0.3, 1.0, 5.6), (1.2, 0.1, 4.5)]
SPECS_SIZES = [(1.59, 0.2), (1.59, 0.6), (1.45, 1.0), (1.5, 0.35)]
POS_SIZES = [(0.5, 0.5, 5.0), (1.6, 0.7, 5.5), (0.4, 2.1, 6.2),
             (2.0, 2.0, 4.6)]
_USE_SIZES = [False]


# two small spheres far apart, observed on a distant plane: multiple
# scattering is weak, so the cluster solution (with its radial component)
# must approach the superposition of the two single-sphere solutions (an
# anchor that fixes the orientation of the cluster along the optical axis,
# which the symmetry checks cannot see).  The field sphere 1 scatters onto
# sphere 2 is |S| / (k d) of the incident one with |S| < 0.25 x^3 for these
# indices, which bounds the relative difference; it is measured at 3-5 % of
# that bound, and scales with x^3 as it should (r = 0.1 -> 0.025).
WEAK = [(0.1, 1.45, (1.5, 0.4, 2.0)), (0.1, 1.45, (3.0, 0.8, 4.0)),
        (0.12, 1.59, (-2.0, 1.0, -3.0)), (0.025, 1.45, (1.5, 0.4, 2.0)),
        (0.025, 1.45, (5.0, 0.0, 0.0)), (0.05, 1.59, (0.0, 0.0, 4.0)),
        # beyond the 70 cluster-centred orders the solver is compiled for
        # (k * extent / 2 > ~53): refused, or within the same bound
        (0.025, 1.45, (6.0, 2.0, 8.0)), (0.025, 1.45, (12.0, 0.0, 0.0))]
# a cluster that is wider than it is far from the detector plane: the plane
# cuts the smallest sphere about the centroid that holds the cluster, inside
# which the cluster-centred expansion does not converge (refused, or right)
WEAK_NEAR = [(0.05, 1.45, (5.0, 0.0, 0.0), 2.0),
             (0.05, 1.45, (4.0, 3.0, 0.0), 1.5),
             (0.05, 1.45, (5.0, 0.0, 0.0), 3.4)]


def _run_weaknear(case, ck):
    from holopy.scattering import (Multisphere, Mie, Sphere, Spheres,
                                   calc_field)
    r, n, sep, zc = WEAK_NEAR[case["i"]]
    sep = np.array(sep)
    c0 = np.array([3.0, 3.0, zc])
    with warnings.catch_warnings():
        warnings.simplefilter("ignore")
        s = Spheres([Sphere(n=n, r=r, center=tuple(c0 - sep / 2)),
                     Sphere(n=n, r=r, center=tuple(c0 + sep / 2))])
    det = H.det_grid((7, 7), 1.0)
    try:
        a = calc_field(det, s, H.NMED, H.WL, (1, 0), theory=Multisphere(
            compute_escat_radial=True, **TIGHT)).values
    except Exception as e:
        if type(e).__name__ == "InvalidScatterer":
            ck.metric("cluster-refused-detector-too-close", 1)
            ck.trans += 1
            return "refused"
        raise
    with warnings.catch_warnings():
        warnings.simplefilter("ignore")
        b = calc_field(det, s, H.NMED, H.WL, (1, 0),
                       theory=Mie(True, True)).values
    ck.trans += 2
    e = float(np.abs(a - b).max() / np.abs(b).max())
    x = H.K * r
    bound = 0.25 * x ** 3 / (H.K * float(np.linalg.norm(sep)))
    ck.metric("weak-coupling-near", e)
    ck.true("weak-coupling-limit", e <= max(bound, 1e-3), "two small "
            "spheres %r apart, %g above a 6 x 6 detector plane: the cluster "
            "field differs from the superposition of the single-sphere "
            "fields by %.2e of its peak (coupling bound %.1e)" %
            (sep.tolist(), zc, e, bound))
    return digest(fp_values(a))


WEAK_LENS = [((1.0, 0.5, 0.3), 5.0, (1.0, 0.0)),
             ((1.0, 0.5, 0.3), -4.0, (1.0, 0.0)),
             ((-0.8, 1.1, -0.2), 5.0, (0.6, 0.8))]


def _run_weaklens(case, ck):
    from holopy.scattering import (Multisphere, Mie, Sphere, Spheres,
                                   calc_holo)
    from holopy.scattering.theory import Lens
    d, zc, pol = WEAK_LENS[case["i"]]
    d = np.array(d)
    c0 = np.array([2.0, 2.0, zc])
    with warnings.catch_warnings():
        warnings.simplefilter("ignore")
        s = Spheres([Sphere(n=1.59, r=0.40, center=tuple(c0 + d)),
                     Sphere(n=1.59, r=0.25, center=tuple(c0 - d))])
        det = H.det_grid((12, 12), 0.35)
        a = calc_holo(det, s, H.NMED, H.WL, pol,
                      theory=Lens(0.9, Multisphere(), 60, 60)).values
        b = calc_holo(det, s, H.NMED, H.WL, pol,
                      theory=Lens(0.9, Mie(False, False), 60, 60)).values
    ck.trans += 2
    e = float(np.abs(a - b).max())
    contrast = float(np.abs(b - 1).max())
    ck.metric("weak-coupling-lens", e / contrast)
    # [measured 1e-4 .. 2e-3 of the contrast: the coupling of the spheres]
    ck.true("weak-coupling-limit", e <= 0.02 * contrast, "two well "
            "separated spheres (centroid %r, offsets +-%r) through the lens "
            "wrapper: the cluster image differs from the superposition of "
            "the two single-sphere images by %.3g (contrast of the image "
            "%.3g)" % (c0.tolist(), d.tolist(), e, contrast))
    return digest(fp_values(a))


def _run_weak(case, ck):
    from holopy.scattering import Multisphere, Mie, Sphere, Spheres
    r, n, sep = WEAK[case["i"]]
    c1 = (0.2, 0.1, 5.0)
    c2 = (c1[0] + sep[0], c1[1] + sep[1], c1[2] + sep[2])
    P = np.array([[0, 0, -40.0], [5, 2, -40.0], [-8, 3, -40.0],
                  [12, -9, -40.0]])
    det = H.det_points(P)
    with warnings.catch_warnings():
        warnings.simplefilter("ignore")
        s = Spheres([Sphere(n=n, r=r, center=c1), Sphere(n=n, r=r,
                                                         center=c2)])
    try:
        a = _field(det, s, Multisphere(compute_escat_radial=True, **TIGHT))
    except Exception as e:
        if (case["i"] >= 6 and type(e).__name__ == "InvalidScatterer" and
                "compiled expansion order" in str(e)):
            ck.metric("cluster-refused-beyond-compiled-order", 1)
            ck.trans += 1
            return "refused"
        raise
    b = _field(det, s, Mie(True, True))
    ck.trans += 2
    e = float(np.abs(a - b).max() / np.abs(b).max())
    x = H.K * r
    bound = 0.25 * x ** 3 / (H.K * float(np.linalg.norm(sep)))
    ck.metric("weak-coupling/bound", e / bound)
    ck.metric("weak-coupling", e)
    ck.true("weak-coupling-limit", e <= bound, "two small spheres %r apart: "
            "the cluster solution differs from the superposition of the "
            "single-sphere solutions by %.2e on a distant plane (bound from "
            "the strength of the coupling: %.2e)" % (sep, e, bound))
    return digest(fp_values(a))


_USE_ALIGNED = [False]


def _spheres(sub, order=None, R=None, pivot=None):
    from holopy.scattering import Sphere, Spheres
    order = order if order is not None else list(range(len(sub)))
    mem = []
    for j in order:
        i = sub[j]
        c = np.array(POS_ALIGNED[i] if _USE_ALIGNED[0] else
                     (POS_SIZES[i] if _USE_SIZES[0] else POS[i]))
        if R is not None:
            c = pivot + R @ (c - pivot)
        sp = SPECS_SIZES[i] if _USE_SIZES[0] else SPECS[i]
        mem.append(Sphere(n=sp[0], r=sp[1], center=tuple(c)))
    with warnings.catch_warnings():
        warnings.simplefilter("ignore")
        return Spheres(mem)


def _field(det, scat, theory, pol=(1, 0)):
    from holopy.scattering import calc_field
    return calc_field(det, scat, H.NMED, H.WL, pol, theory=theory).values


def _run_perm(case, ck):
    from holopy.scattering import Multisphere, Mie
    sub, opt = case["sub"], case["opt"]
    kw = TIGHT if opt == "tight" else {}
    tol = TOLERANCES["permutation-" + opt]
    det = H.det_points(PTS)
    fps = []
    for meth in (1, 0, -1):
        # meth -1: order-of-scattering again, but ONE theory object reused
        # for every permutation
        shared = Multisphere(meth=1, **kw) if meth == -1 else None
        meth = 1 if meth == -1 else meth
        base = _field(det, _spheres(sub), shared or
                      Multisphere(meth=meth, **kw))
        ck.trans += 1
        peak = np.abs(base).max()
        ck.true("finite", np.isfinite(base).all(), "non-finite field")
        for order in itertools.permutations(range(len(sub))):
            if list(order) == list(range(len(sub))):
                continue
            f = _field(det, _spheres(sub, list(order)),
                       shared or Multisphere(meth=meth, **kw))
            ck.trans += 1
            e = float(np.abs(f - base).max() / peak)
            ck.metric("permutation-" + opt, e)
            ck.true("order-independent", e <= tol,
                    "cluster %r listed in order %r gives a field that "
                    "differs by %.2e from the original order (meth=%d, %s "
                    "options)" % (sub, list(order), e, meth, opt))
        if len(sub) == 1:
            from holopy.scattering import Sphere
            i = sub[0]
            s = Sphere(n=SPECS[i][0], r=SPECS[i][1], center=POS[i])
            g = _field(det, s, Mie(False, True))
            ck.trans += 1
            e = float(np.abs(base - g).max() / np.abs(g).max())
            ck.metric("one-sphere-vs-mie", e)
            ck.true("one-sphere-vs-mie", e <= TOLERANCES["one-sphere-vs-mie"], "one-sphere cluster "
                    "differs from the single-sphere solution by %.2e" % e)
            # ... and on detectors millimetres away (k r = 1e4 .. 1e5),
            # each judged against its own largest field
            for dist in (800.0, 8000.0):
                far = H.det_points([(POS[i][0] + dist * a, POS[i][1] +
                                     dist * b, POS[i][2] - dist * c)
                                    for a, b, c in ((0.0, 0.0, 1.0),
                                                    (0.3, 0.1, 0.9),
                                                    (0.6, -0.5, 0.6),
                                                    (0.1, 0.9, 0.2))])
                ff = _field(far, _spheres(sub), Multisphere(meth=meth, **kw))
                gf = _field(far, s, Mie(False, True))
                ck.trans += 2
                e = float(np.abs(ff - gf).max() / np.abs(gf).max())
                ck.metric("one-sphere-vs-mie-far-" + opt, e)
                ck.true("one-sphere-vs-mie-far", e <=
                        TOLERANCES["one-sphere-vs-mie-far-" + opt],
                        "one-sphere "
                        "cluster differs from the single-sphere solution by "
                        "%.2e on a detector %g away (%s options)" %
                        (e, dist, opt))
        fps.append(fp_values(base))
    # the two interaction-equation solvers solve the same equations
    return digest(*fps)


def _run_bigperm(case, ck):
    from holopy.scattering import Multisphere
    sub = case["sub"]
    n = len(sub)
    det = H.det_points(PTS)
    base = _field(det, _spheres(sub), Multisphere(**TIGHT))
    ck.trans += 1
    peak = np.abs(base).max()
    orders = []
    for i in range(n - 1):
        o = list(range(n))
        o[i], o[i + 1] = o[i + 1], o[i]
        orders.append(o)
    orders.append(list(range(n))[::-1])
    for k in range(1, n):
        orders.append(list(range(k, n)) + list(range(k)))
    for o in orders:
        f = _field(det, _spheres(sub, o), Multisphere(**TIGHT))
        ck.trans += 1
        e = float(np.abs(f - base).max() / peak)
        ck.metric("permutation-tight", e)
        ck.true("order-independent", e <= TOLERANCES["permutation-tight"],
                "cluster %r in order %r "
                "differs by %.2e" % (sub, o, e))
    return digest(fp_values(base))


def _run_rot(case, ck):
    from holopy.scattering import Multisphere
    sub = case["sub"]
    # the detector points include the foot of the axis through the cluster's
    # centroid (the origin of the cluster-centred expansion: polar angle 0)
    cen = np.asarray(_spheres(sub).center, float)
    pts0 = np.vstack([PTS, [cen[0], cen[1], 0.0]])
    det0 = H.det_points(pts0)
    fps = []
    for opt, kw, tol in (("default", {}, TOLERANCES["rotation-default"]),
                         ("tight", TIGHT, TOLERANCES["rotation-tight"]),
                         ("tight-reused-theory", TIGHT,
                          TOLERANCES["rotation-tight"])):
        # third pass: ONE theory object serves the base and every rotated
        # configuration (a solution remembered inside the object under a
        # rotation-invariant key would show here)
        shared = Multisphere(**kw) if opt.endswith("reused-theory") else None
        pol0 = (math.cos(0.3), math.sin(0.3))
        base = _field(det0, _spheres(sub), shared or Multisphere(**kw), pol0)
        ck.trans += 1
        peak = np.abs(base).max()
        frames = [base[:, :2].copy()]
        for ang in ROTS:
            ps = math.radians(ang)
            c, s = math.cos(ps), math.sin(ps)
            R = np.array([[c, -s, 0], [s, c, 0], [0, 0, 1.0]])
            pivot = np.array([0.4, -0.3, 0.0])
            P1 = pivot + (pts0 - pivot) @ R.T
            pol1 = (math.cos(0.3 + ps), math.sin(0.3 + ps))
            f = _field(H.det_points(P1), _spheres(sub, R=R, pivot=pivot),
                       shared or Multisphere(**kw), pol1)
            ck.trans += 1
            ref = base.copy()
            ref[:, :2] = base[:, :2] @ R[:2, :2].T
            e = float(np.abs(f[:, :2] - ref[:, :2]).max() / peak)
            ck.metric("rotation-" + opt.replace("-reused-theory", ""), e)
            ck.true("rotation-covariant", e <= tol, "cluster %r rotated by "
                    "%g deg about the optical axis: field differs from the "
                    "rotated field by %.2e (%s options)" %
                    (sub, ang, e, opt))
        # The tolerance above is the solver's accuracy.  Below it the
        # solver is exact to rounding EXCEPT for a discrete switch (an
        # expansion order decided by the last bit of a coordinate) worth
        # about 6e-8: the six orientations fall into two or three groups
        # that agree among themselves to 1e-14.  A smooth error of any size
        # (a phase factor in single precision) leaves no two orientations in
        # agreement.
        # (orientations no two of which differ by a multiple of a quarter
        # turn: single-precision cosines and sines of angles a quarter turn
        # apart round alike)
        for ang in (37.0, 111.0, -120.0, 1.0, 200.0):
            ps = math.radians(ang)
            c, s = math.cos(ps), math.sin(ps)
            R = np.array([[c, -s, 0], [s, c, 0], [0, 0, 1.0]])
            pivot = np.array([0.4, -0.3, 0.0])
            f = _field(H.det_points(pivot + (pts0 - pivot) @ R.T),
                       _spheres(sub, R=R, pivot=pivot),
                       shared or Multisphere(**kw),
                       (math.cos(0.3 + ps), math.sin(0.3 + ps)))
            ck.trans += 1
            frames.append(f[:, :2] @ R[:2, :2])      # back in the base frame
        agree = sum(1 for a_, b_ in itertools.combinations(frames, 2)
                    if float(np.abs(a_ - b_).max() / peak) <= 1e-11)
        ck.metric("rotation-agreeing-pairs-of-15:" +
                  opt.replace("-reused-theory", ""), -agree)
        ck.true("rotation-exact-up-to-discrete-states", agree >=
                MIN_AGREEING_PAIRS, "cluster %r: only %d of the 15 pairs "
                "among the original and five rotated configurations agree "
                "to 1e-11 of the peak field (%s options)" %
                (sub, agree, opt))
        fps.append(fp_values(base))
    # far-field amplitude matrices (scattering-plane basis): the matrix of
    # the rotated cluster in the direction (theta, phi + psi) is the matrix
    # of the original cluster in (theta, phi) -- also exactly forward and
    # exactly backward
    import holopy as hp
    from holopy.scattering import calc_scat_matrix
    tt, pp = [v.ravel() for v in np.meshgrid([0.0, math.pi, 0.7, 2.2],
                                             [0.3, 2.0], indexing="ij")]
    S0 = calc_scat_matrix(hp.detector_points(theta=tt, phi=pp),
                          _spheres(sub), H.NMED, H.WL,
                          theory=Multisphere(**TIGHT)).values
    ck.trans += 1
    for ang in ROTS[:3]:
        ps = math.radians(ang)
        c, s_ = math.cos(ps), math.sin(ps)
        R = np.array([[c, -s_, 0], [s_, c, 0], [0, 0, 1.0]])
        pivot = np.array([0.4, -0.3, 0.0])
        S1 = calc_scat_matrix(hp.detector_points(theta=tt, phi=pp + ps),
                              _spheres(sub, R=R, pivot=pivot), H.NMED, H.WL,
                              theory=Multisphere(**TIGHT)).values
        ck.trans += 1
        err = np.abs(S1 - S0).max(axis=(1, 2)) / np.abs(S0).max()
        e = float(err.max())
        ck.metric("rotation-scatmat", e)
        ck.true("rotation-covariant", e <= 1e-6, "cluster %r rotated by %g "
                "deg: amplitude matrix in the direction theta=%r differs "
                "from the original one by %.2e" %
                (sub, ang, float(tt[int(err.argmax())]), e))
    return digest(*fps)


# --------------------------------------------------------------------------
# radius of the spheres in the rule cases: a power of two (so that
# sep * r is exact and the 30-radius boundary is hit to the last bit) and
# small enough that a cluster 30 radii across stays within the expansion
# order the multi-sphere solver is compiled for (k * extent / 2 < ~50)
RS = 0.125


def _two(sep_over_r, r=RS, n=1.5, layered=False, third=None):
    """builder spec for two (or three) spheres of radius r whose centres
    are sep_over_r * r apart along x"""
    return ("two", sep_over_r, r, n, layered, third)


def _ulp_up(x):
    return float(np.nextafter(x, np.inf))


def _ulp_dn(x):
    return float(np.nextafter(x, -np.inf))


RULE_CASES = [
    # (name, builder, expected class name or exception name)
    ("sphere", ("sphere",), "Mie"),
    ("layered-sphere", ("layered",), "Mie"),
    ("spheres-1", ("n", 1), "Mie"),
    ("two@5", _two(5.0), "Multisphere"),
    ("two@29.999", _two(29.999), "Multisphere"),
    ("two@30-ulp", _two(_ulp_dn(30.0)), "Multisphere"),
    ("two@30", _two(30.0), "Multisphere"),
    ("two@30+ulp", _two(_ulp_up(30.0)), "Mie"),
    ("two@30.001", _two(30.001), "Mie"),
    ("two@100", _two(100.0), "Mie"),
    ("two@31-unequal-radii", ("unequal", 31.0), "Mie"),
    # separations that are oblique to the coordinate axes: the rule speaks
    # of the distance, not of the largest coordinate difference
    ("two-oblique@34.6", ("oblique", (20.0, 20.0, 20.0)), "Mie"),
    ("two-oblique@29.4", ("oblique", (17.0, 17.0, 17.0)), "Multisphere"),
    ("two-oblique-xy@31.1", ("oblique", (22.0, 22.0, 0.0)), "Mie"),
    ("two@29-unequal-radii", ("unequal", 29.0), "Multisphere"),
    ("three-farthest-pair-beyond", _two(20.0, third=20.0), "Mie"),
    ("three-all-within", _two(14.0, third=14.0), "Multisphere"),
    ("two-one-layered@5", _two(5.0, layered=True), "Mie"),
    ("two-member-without-centre", ("nocentre",), "InvalidScatterer"),
    ("spheroid", ("spheroid",), "Tmatrix"),
    ("cylinder", ("cylinder",), "Tmatrix"),
    ("ellipsoid", ("ellipsoid",), "DDA"),
    ("capsule", ("capsule",), "DDA"),
    ("bisphere", ("bisphere",), "DDA"),
    ("janus", ("janus",), "DDA"),
    ("csg-union", ("union",), "DDA"),
    ("scatterers-generic", ("scatterers",), "DDA"),
    ("str", ("obj", "a string"), "ERROR"),
    ("none", ("obj", None), "ERROR"),
    ("ndarray", ("obj", "ndarray"), "ERROR"),
]


def _build(spec):
    import holopy.scattering.scatterer as SC
    from holopy.scattering import Sphere, Spheres, Scatterers
    kind = spec[0]
    with warnings.catch_warnings():
        warnings.simplefilter("ignore")
        if kind == "sphere":
            return Sphere(n=1.59, r=0.5, center=(1, 1, 5))
        if kind == "layered":
            return Sphere(n=[1.45, 1.59], r=[0.3, 0.5], center=(1, 1, 5))
        if kind == "n":
            return Spheres([Sphere(n=1.59, r=0.5, center=(1, 1, 5))])
        if kind == "two":
            _, sep, r, n, layered, third = spec
            s1 = Sphere(n=n, r=r, center=(0.0, 0.0, 50.0))
            if layered:
                s2 = Sphere(n=[n, 1.6], r=[r / 2, r],
                            center=(sep * r, 0.0, 50.0))
            else:
                s2 = Sphere(n=n, r=r, center=(sep * r, 0.0, 50.0))
            mem = [s1, s2]
            if third is not None:
                mem.append(Sphere(n=n, r=r / 2,
                                  center=(-third * r, 0.0, 50.0)))
            return Spheres(mem)
        if kind == "oblique":
            d = [RS * c for c in spec[1]]
            return Spheres([Sphere(n=1.5, r=RS, center=(0.0, 0.0, 50.0)),
                            Sphere(n=1.5, r=RS,
                                   center=(d[0], d[1], 50.0 + d[2]))])
        if kind == "unequal":
            sep = RS * spec[1]
            # 30-radius rule uses the LARGEST radius (here RS)
            return Spheres([Sphere(n=1.5, r=RS, center=(0, 0, 50.0)),
                            Sphere(n=1.5, r=0.2 * RS,
                                   center=(sep, 0, 50.0))])
        if kind == "nocentre":
            return Spheres([Sphere(n=1.5, r=0.5, center=(0, 0, 5)),
                            Sphere(n=1.5, r=0.5)])
        if kind == "spheroid":
            return SC.Spheroid(n=1.5, r=(0.3, 0.6), center=(1, 1, 5))
        if kind == "cylinder":
            return SC.Cylinder(n=1.5, h=0.8, d=0.6, center=(1, 1, 5))
        if kind == "ellipsoid":
            return SC.Ellipsoid(n=1.5, r=(0.3, 0.4, 0.6), center=(1, 1, 5))
        if kind == "capsule":
            return SC.Capsule(n=1.5, h=0.8, d=0.4, center=(1, 1, 5))
        if kind == "bisphere":
            return SC.Bisphere(n=1.5, h=0.8, d=0.4, center=(1, 1, 5))
        if kind == "janus":
            return SC.JanusSphere_Uniform(n=[1.34, 2.0], r=[0.5, 0.51],
                                          rotation=(0, 0.2, 0),
                                          center=(1, 1, 5))
        if kind == "union":
            return SC.Union(Sphere(n=1.5, r=0.5, center=(1, 1, 5)),
                            Sphere(n=1.5, r=0.5, center=(1.5, 1, 5)))
        if kind == "scatterers":
            return Scatterers([Sphere(n=1.5, r=0.5, center=(1, 1, 5)),
                               SC.Ellipsoid(n=1.5, r=(0.3, 0.4, 0.6),
                                            center=(3, 1, 5))])
        if kind == "obj":
            return np.zeros(3) if spec[1] == "ndarray" else spec[1]
    raise ValueError(kind)


def _run_rule(case, ck):
    from holopy.scattering import calc_holo
    from holopy.scattering.interface import determine_default_theory_for
    import holopy.scattering.theory as T
    name, spec, expect = RULE_CASES[case["i"]]
    try:
        scat = _build(spec)
    except Exception as e:
        ck.true("rule-alphabet-constructible", False, "could not build %s: "
                "%s: %s" % (name, type(e).__name__, e))
        return "unbuildable"
    got = None
    try:
        with warnings.catch_warnings():
            warnings.simplefilter("ignore")
            th = determine_default_theory_for(scat)
        got = type(th).__name__
    except Exception as e:
        got = "raise:" + type(e).__name__
    ck.trans += 1
    holopy_errors = ("AutoTheoryFailed", "InvalidScatterer",
                     "TheoryNotCompatibleError", "DependencyMissing",
                     "MissingParameter")
    if expect == "ERROR":
        ck.true("default-theory-rule", got.startswith("raise:") and
                got[6:] in holopy_errors,
                "%s: a non-scatterer gave %s instead of a clear HoloPy "
                "error" % (name, got))
        return got
    if expect == "InvalidScatterer":
        ck.true("default-theory-rule", got == "raise:InvalidScatterer",
                "%s: expected InvalidScatterer, got %s" % (name, got))
        return got
    if expect == "DDA":
        # DDA()'s constructor itself may report the missing dependency
        ok = got in ("DDA", "raise:DependencyMissing")
        ck.true("default-theory-rule", ok, "%s: expected the "
                "discrete-dipole theory (or its missing-dependency error), "
                "got %s" % (name, got))
        det = H.det_grid(3, 0.1)
        try:
            with warnings.catch_warnings():
                warnings.simplefilter("ignore")
                calc_holo(det, scat, H.NMED, H.WL, (1, 0), theory="auto")
            out = "computed"
        except Exception as e:
            out = "raise:" + type(e).__name__
        ck.trans += 1
        ck.true("dda-missing-dependency", out in
                ("raise:DependencyMissing", "computed"),
                "%s: calc_holo(theory='auto') gave %s, expected the "
                "missing-dependency error" % (name, out))
        return got + "/" + out
    ck.true("default-theory-rule", got == expect, "%s: default theory is "
            "%s, the documented rule says %s" % (name, got, expect))
    # naming the theory explicitly gives the identical result
    det = H.det_grid(3, 0.1)
    if got == expect:
        def outcome(**kw):
            try:
                with warnings.catch_warnings():
                    warnings.simplefilter("ignore")
                    return calc_holo(det, scat, H.NMED, H.WL, (1, 0),
                                     **kw).values
            except Exception as e:
                return "raise:%s:%s" % (type(e).__name__, e)
        a = outcome(theory="auto")
        b = outcome(theory=getattr(T, expect)())
        c = outcome()
        ck.trans += 3
        if isinstance(b, str):
            # the named theory refuses this scatterer: so must the default
            ck.true("auto-vs-explicit", a == b and c == b, "%s: explicit %s "
                    "gives %s, theory='auto' %s, default %s" %
                    (name, expect, b, str(a)[:80], str(c)[:80]))
            ck.metric("rule-case-refused-by-named-theory", 1)
            return digest(got, b)
        if isinstance(a, str) or isinstance(c, str):
            ck.true("auto-vs-explicit", False, "%s: explicit %s computes, "
                    "theory='auto' gives %s, default %s" %
                    (name, expect, str(a)[:80], str(c)[:80]))
            return digest(got, str(a)[:40])
        ck.same_bits("auto-vs-explicit", a, b, "%s: theory='auto' vs "
                     "explicit %s" % (name, expect))
        ck.same_bits("auto-vs-explicit", c, b, "%s: default theory argument "
                     "vs explicit %s" % (name, expect))
        return digest(got, fp_values(a))
    return got


def _run_xsecrot(case, ck):
    from holopy.scattering import (Sphere, Spheres, Multisphere,
                                   calc_cross_sections)

    def cluster(ps):
        c, s = math.cos(ps), math.sin(ps)
        R = np.array([[c, -s, 0], [s, c, 0], [0, 0, 1.0]])
        c1 = R @ np.array([0.0, 0.0, 0.0])
        c2 = R @ np.array([0.9, 0.35, 0.4])
        with warnings.catch_warnings():
            warnings.simplefilter("ignore")
            return Spheres([Sphere(n=1.59, r=0.4, center=tuple(c1)),
                            Sphere(n=1.45, r=0.3, center=tuple(c2))])
    pa = math.radians(30.0)
    base = calc_cross_sections(cluster(0.0), H.NMED, H.WL,
                               (math.cos(pa), math.sin(pa)),
                               theory=Multisphere()).values
    ps = math.radians(37.0)
    rot = calc_cross_sections(cluster(ps), H.NMED, H.WL,
                              (math.cos(pa + ps), math.sin(pa + ps)),
                              theory=Multisphere()).values
    ck.trans += 2
    for i, name in ((0, "C_sca"), (2, "C_ext"), (3, "asymmetry")):
        e = abs(rot[i] - base[i]) / abs(base[i])
        ck.metric("xsec-rotation-" + name, e)
        ck.true("xsec-rotation-covariant", e <= 1e-6,
                "%s of an oblique dimer changes by %.2e when cluster and "
                "polarization are rotated together by 37 deg" % (name, e))
    return digest(np.round(np.asarray(base, float), 9))


# a sphere accompanied by a vanishing companion (radius 1e-3, index of the
# medium to 1e-7): the cluster is expanded about the midpoint, so the field
# of the sphere reaches the detector through the translated, cluster-centred
# expansion with every azimuthal order -- and must be the Lorenz-Mie field
# of the sphere, in all three components, near and far.
DISPLACED = [(0.6, 0.2, 0.0), (0.3, -0.4, 0.5), (0.0, 0.0, 0.6)]


def _run_displaced(case, ck):
    from holopy.scattering import Sphere, Spheres, Multisphere, Mie
    h = np.array(DISPLACED[case["i"]])
    fps = []
    for Z in (5.0, 20.0):
        P = np.array([[0, 0, 0.0], [0.5, 0.2, 0.0], [-0.8, 0.3, 0.0],
                      [1.2, -0.9, 0.0], [3, 4, 0.0], [-2, 1.5, 0],
                      [0.3, 0.0, 0.0], [0, -0.4, 0]]) * Z / 5.0
        det = H.det_points(P)
        c0 = np.array((0.0, 0.0, Z))
        s1 = Sphere(n=1.59, r=0.3, center=tuple(c0 - h))
        s2 = Sphere(n=H.NMED + 1e-7, r=1e-3, center=tuple(c0 + h))
        with warnings.catch_warnings():
            warnings.simplefilter("ignore")
            clus = Spheres([s1, s2])
        for pa in (0.0, 53.13010235415598, 90.0):
            pol = (math.cos(math.radians(pa)), math.sin(math.radians(pa)))
            a = _field(det, clus, Multisphere(compute_escat_radial=True,
                                              **TIGHT), pol)
            b = _field(det, s1, Mie(True, True), pol)
            ck.trans += 2
            e = float(np.abs(a - b).max() / np.abs(b).max())
            ck.metric("displaced-sphere", e)
            ck.true("displaced-sphere", e <= TOLERANCES["displaced-sphere"],
                    "sphere displaced by %r from the cluster origin (with a "
                    "vanishing companion), detector plane %g away, "
                    "polarization %g deg: Multisphere field differs from "
                    "the Lorenz-Mie field of the sphere by %.2e (components "
                    "x, y, z: %s)" % (tuple(-h), Z, pa, e, " ".join(
                        "%.1e" % v for v in np.abs(a - b).max(0) /
                        np.abs(b).max())))
            fps.append(fp_values(a))
    return digest(*fps)


def run_case(case):
    ck = Checker()
    _USE_ALIGNED[0] = bool(case.get("aligned"))
    _USE_SIZES[0] = bool(case.get("sizes"))
    fp = {"perm": _run_perm, "bigperm": _run_bigperm, "rot": _run_rot,
          "rule": _run_rule, "weak": _run_weak, "weaklens": _run_weaklens, "weaknear": _run_weaknear,
          "xsecrot": _run_xsecrot, "history": _run_history,
          "displaced": _run_displaced}[case["kind"]](case, ck)
    return ck.result(fp=fp)

"""C05 -- holograms covariant under in-plane shift, axial rotation, mirroring.

Exhaustive product over scatterer x theory x transformation alphabet
(shift vectors; rotation angle x polarization angle x pivot; mirror planes),
on point detectors and on grids.  The oracle is the symmetry itself
(metamorphic): transformed configuration vs. base configuration.
"""
import math
import warnings

import numpy as np

import hpcases as H
from lib import Checker, digest, fp_values

PROPERTY = "C05"
RULE = ("full product scatterer x theory x {6 shifts x 2 detector kinds, 9 "
        "rotation angles x 4 polarization angles x 2 pivots, 2 mirror planes "
        "x grid parities}; non-trivial = distinct fingerprint of the "
        "transformed hologram")
ASSUMPTIONS = ["alphabet values only", "the T-matrix theory accepts only "
               "polarization (1,0), so only shift and mirror apply to it"]
TOLERANCES = {"mirror-tmatrix": 1e-7, "shift": 1e-9, "shift-1e3": 1e-7, "rotation": 1e-9,
              "rotation-multisphere": 1e-6, "mirror": 1e-9,
              "mirror-multisphere": 1e-8}
TIMEOUT = 600

# scatterer x theory alphabet for this check
LOCAL = {
    "ms3t": (("spheres", [(1.59, 0.4, (0.3, 0.1, 5.0)),
                          (1.45, 0.3, (1.2, 0.7, 5.6)),
                          (1.7, 0.25, (-0.4, 0.9, 4.5))]),
             ("Multisphere", (), {"eps": 1e-12, "qeps1": 1e-12,
                                  "qeps2": 1e-14})),
    # the radial component of the near field (non-default option), close to
    # the detector plane
    "ms3t-radial": (("spheres", [(1.59, 0.4, (0.3, 0.1, 3.0)),
                                 (1.45, 0.3, (1.2, 0.7, 3.6)),
                                 (1.7, 0.25, (-0.4, 0.9, 2.5))]),
                    ("Multisphere", (), {"eps": 1e-12, "qeps1": 1e-12,
                                         "qeps2": 1e-14,
                                         "compute_escat_radial": True})),
    # pairs sharing an x or a y coordinate exactly (axis-aligned pairs are
    # special-cased in the cluster solver's translation matrices)
    "ms3a": (("spheres", [(1.59, 0.4, (0.3, 0.1, 5.0)),
                          (1.45, 0.3, (0.3, 1.0, 5.6)),
                          (1.7, 0.25, (1.2, 0.1, 4.5))]),
             ("Multisphere", (), {"eps": 1e-12, "qeps1": 1e-12,
                                  "qeps2": 1e-14})),
    # different node counts for the two pupil quadratures
    "lens-mie-uneq": (("sphere", 1.59, 0.5, (0.17, 0.11, 5.0)),
                      ("Lens", (0.8, ("Mie", (False, False), {}), 56, 72),
                       {})),
    # theory chosen automatically for a compact dimer
    "auto-dimer": (("spheres", [(1.59, 0.5, (0.3, 0.1, 5.0)),
                                (1.59, 0.5, (1.35, 0.2, 5.2))]), "auto"),
    "mielens-below": (("sphere", 1.59, 0.5, (0.17, 0.11, -5.0)),
                      ("MieLens", (0.8,), {})),
    "lens-mie-below": (("sphere", 1.59, 0.5, (0.17, 0.11, -5.0)),
                       ("Lens", (0.8, ("Mie", (False, False), {}), 64, 64),
                        {})),
    # the lens wrapper around the T-matrix solver (any polarization is
    # possible there: the wrapper only asks for amplitude matrices)
    "lens-tm": (("spheroid", 1.59, (0.3, 0.6), (0.0, 0.4, 0.7),
                 (0.17, 0.11, 5.0)),
                ("Lens", (0.8, ("Tmatrix", (), {}), 40, 48), {})),
    # a chain along x whose middle sphere is exactly at the centroid
    "ms3-chain": (("spheres", [(1.59, 0.4, (-1.0, 0.0, 5.0)),
                               (1.59, 0.4, (0.0, 0.0, 5.0)),
                               (1.59, 0.4, (1.0, 0.0, 5.0))]),
                  ("Multisphere", (), {})),
}
H.ST.update(LOCAL)
STS = {"quick": ["mie", "mie2", "ms3t", "ms3t-radial", "ms3a", "auto-dimer", "tm-spheroid",
                 "tm-sphere", "lens-tm", "ms3-chain", "mielens",
                 "mielens-below", "lens-mie", "lens-mie-uneq", "abmielens",
                 "layered"],
       "thorough": ["mie", "mie-far", "layered", "mie2", "ms3t",
                    "ms3t-radial", "ms3a",
                    "auto-dimer",
                    "tm-spheroid", "tm-cylinder", "tm-sphere", "mielens",
                    "mielens-below", "lens-mie", "lens-mie-uneq",
                    "lens-mie-below", "lens-tm", "ms3-chain",
                    "abmielens", "mielens2"]}
PX = 0.1
SHIFTS = [(1 * PX, 0.0), (0.0, -3 * PX), (2.5 * PX, 1.25 * PX),
          (math.pi / 10, -math.e / 7), (1e3, 1e3), (0.0, 0.0),
          (2500.0, 0.0), (-77.7, 4000.0)]
ROT = {"quick": [17.0, 30.0, 90.0, 123.0, -60.0],
       "thorough": [17.0, 0.0, 30.0, 45.0, 90.0, 123.0, 180.0, 270.0, -60.0]}
POLANG = [0.0, 30.0, 90.0, 135.0]
BASE_PTS = np.array([[0.0, 0.0, 0.0], [0.9, 0.2, 0.0], [-0.5, 1.1, 0.0],
                     [0.17, 0.11, 0.0], [-1.3, -0.7, 0.0], [2.0, -1.5, 0.0],
                     [0.17, 1.6, 0.0], [1.8, 0.11, 0.0], [-0.2, -2.2, 0.0]])


def cases(tier, seed):
    out = []
    for st in STS[tier]:
        for i, d in enumerate(SHIFTS):
            out.append({"id": "shift:%s:d#%d" % (st, i), "kind": "shift",
                        "st": st, "d": list(d)})
        if not st.startswith("tm-"):
            for ang in ROT[tier]:
                out.append({"id": "rot:%s:%g" % (st, ang), "kind": "rot",
                            "st": st, "ang": ang})
        else:
            # the T-matrix front end only accepts x polarization; the two
            # rotations that map (1, 0) onto (+-1, 0) must either be refused
            # or give the rotated result
            for ang in (180.0, 360.0):
                out.append({"id": "rot:%s:%g" % (st, ang), "kind": "rot",
                            "st": st, "ang": ang})
        out.append({"id": "mirror:%s" % st, "kind": "mirror", "st": st})
    # detector points far from the axis (a frame 25 um across) under the
    # numerical lens theory: with its default pupil quadrature, and with a
    # quadrature fine enough for that radius
    for q in ("default", "refined"):
        out.append({"id": "rot:lens-mie-far-rho:%s" % q, "kind": "lensfar",
                    "quad": q, "_timeout": 900})
    return out


def _is_ms(st):
    return st.startswith("ms") or st == "auto-dimer"


def _polform(pol, pa):
    """the same polarization direction in other accepted forms: a
    three-component vector that is not of unit length for some angles"""
    if pa == 135.0:
        return (3.0 * pol[0], 3.0 * pol[1], 0.0)
    if pa == 30.0:
        return (2.0 * pol[0], 2.0 * pol[1])
    return pol


def _holo_field(det, scat, theory, pol):
    from holopy.scattering import calc_holo, calc_field
    h = calc_holo(det, scat, H.NMED, H.WL, pol, theory=theory).values
    f = calc_field(det, scat, H.NMED, H.WL, pol, theory=theory).values
    return np.asarray(h), np.asarray(f)


def _pol_for(st, ang=0.0):
    return (math.cos(math.radians(ang)), math.sin(math.radians(ang)))


def _run_shift(case, ck):
    import holopy as hp
    st, d = case["st"], case["d"]
    pol = (1, 0) if st.startswith("tm-") else _pol_for(st, 30.0)
    big = max(abs(d[0]), abs(d[1])) >= 100
    tol = 1e-7 if big else 1e-9
    if _is_ms(st):
        tol = max(tol, 1e-6)
    sspec, tspec = H.ST[st]
    fps = []
    for dk in ("points", "grid"):
        if dk == "points":
            det0 = H.det_points(BASE_PTS)
            det1 = H.det_points(BASE_PTS + np.array([d[0], d[1], 0.0]))
        else:
            det0 = H.det_grid((4, 5), PX)
            det1 = H.det_grid((4, 5), PX, origin=(d[0], d[1]))
        s0 = H.mk_scatterer(sspec)
        s1 = H.mk_scatterer(sspec, shift=(d[0], d[1], 0.0))
        th = H.mk_theory(tspec)
        h0, f0 = _holo_field(det0, s0, th, pol)
        try:
            h1, f1 = _holo_field(det1, s1, H.mk_theory(tspec), pol)
        except Exception as e:
            # accepted at one place, refused at another: the calculation
            # depends on where the configuration sits in the lab frame
            ck.true("shift-acceptance", False, "%s on %s: accepted before "
                    "but refused after a common shift by %r (%s: %s)" %
                    (st, dk, d, type(e).__name__, str(e)[:120]))
            continue
        ck.trans += 4
        e = float(np.abs(h1 - h0).max() / np.abs(h0).max())
        ck.metric("shift" + ("-1e3" if big else ""), e)
        ck.true("shift-holo", e <= tol, "%s on %s: hologram changes by %.2e "
                "when scatterer and detector are shifted by %r" %
                (st, dk, e, d))
        e = float(np.abs(f1 - f0).max() / np.abs(f0).max())
        ck.metric("shift-field" + ("-1e3" if big else ""), e)
        ck.true("shift-field", e <= tol, "%s on %s: field changes by %.2e "
                "under a common shift by %r" % (st, dk, e, d))
        fps.append(fp_values(h1))
    return digest(*fps)


def _rotz(ps):
    c, s = math.cos(ps), math.sin(ps)
    return np.array([[c, -s, 0], [s, c, 0], [0, 0, 1.0]])


def _rotate_spec(sspec, R, pivot, psi):
    def rc(c):
        c = np.asarray(c, float)
        return tuple(pivot + R @ (c - pivot))
    kind = sspec[0]
    if kind == "sphere":
        return (kind, sspec[1], sspec[2], rc(sspec[3]))
    if kind == "spheres":
        return (kind, [(n, r, rc(c)) for n, r, c in sspec[1]])
    # Euler angles (alpha, beta, gamma) stand for Rz(gamma) Ry(beta)
    # Rz(alpha): a further rotation about z adds to gamma
    if kind == "spheroid":
        a, b, g = sspec[3]
        return (kind, sspec[1], sspec[2], (a, b, g + psi), rc(sspec[4]))
    if kind == "cylinder":
        a, b, g = sspec[4]
        return (kind, sspec[1], sspec[2], sspec[3], (a, b, g + psi),
                rc(sspec[5]))
    raise ValueError(kind)


def _run_rot(case, ck):
    st, ang = case["st"], case["ang"]
    psi = math.radians(ang)
    R = _rotz(psi)
    sspec, tspec = H.ST[st]
    # Multisphere: the iterative solution is converged to ~1e-6 relative
    # [measured 2e-8 since the repairs of the multi-sphere code]
    tol = 1e-6 if _is_ms(st) else 1e-9
    tm = st.startswith("tm-")
    if tm:
        tol = 1e-7
    if st == "lens-tm":
        tol = 1e-4          # [floor 6e-6: T-matrix amplitudes ~1e-7]
    fps = []
    s0 = H.mk_scatterer(sspec)
    axis = np.asarray(s0.center, float).copy()
    axis[2] = 0.0
    for pivname, pivot in (("axis", axis),
                           ("off", np.array([0.7, -0.4, 0.0]))):
        for pa in ([0.0] if tm else POLANG):
            pol0 = _pol_for(st, pa)
            pol1 = _pol_for(st, pa + ang)
            if tm:
                pol0 = (1.0, 0.0)
                pol1 = (-1.0, 0.0) if ang == 180.0 else (1.0, 0.0)
            det0 = H.det_points(BASE_PTS)
            P1 = pivot + (BASE_PTS - pivot) @ R.T
            det1 = H.det_points(P1)
            s1 = H.mk_scatterer(_rotate_spec(sspec, R, pivot, psi))
            h0, f0 = _holo_field(det0, s0, H.mk_theory(tspec), pol0)
            h1, f1 = _holo_field(det1, s1, H.mk_theory(tspec),
                                 pol1 if tm else _polform(pol1, pa))
            ck.trans += 4
            e = float(np.abs(h1 - h0).max() / np.abs(h0).max())
            ck.metric("rotation" + ("-multisphere" if _is_ms(st) else ""), e)
            ck.true("rotation-holo", e <= tol,
                    "%s: hologram changes by %.2e when scatterer, "
                    "polarization (%g deg) and detector are rotated by %g "
                    "deg about %s" % (st, e, pa, ang, pivname))
            # x, y field components rotate as a vector
            fxy = f0[:, :2] @ R[:2, :2].T
            e = float(np.abs(f1[:, :2] - fxy).max() / np.abs(f0).max())
            ck.metric("rotation-field" +
                      ("-multisphere" if _is_ms(st) else ""), e)
            ck.true("rotation-field", e <= tol,
                    "%s: transverse field does not rotate as a vector (err "
                    "%.2e; pol %g deg, rotation %g deg about %s)" %
                    (st, e, pa, ang, pivname))
            fps.append(fp_values(f1))
    return digest(*fps)


def _mirror_spec(sspec):
    """mirror y -> -y (plane through the optical axis containing x)"""
    def mc(c):
        return (c[0], -c[1], c[2])
    kind = sspec[0]
    if kind == "sphere":
        return (kind, sspec[1], sspec[2], mc(sspec[3]))
    if kind == "spheres":
        return (kind, [(n, r, mc(c)) for n, r, c in sspec[1]])
    if kind == "spheroid":
        a, b, g = sspec[3]
        return (kind, sspec[1], sspec[2], (a, b, -g), mc(sspec[4]))
    if kind == "cylinder":
        a, b, g = sspec[4]
        return (kind, sspec[1], sspec[2], sspec[3], (a, b, -g), mc(sspec[5]))
    raise ValueError(kind)


def _run_mirror(case, ck):
    st = case["st"]
    sspec, tspec = H.ST[st]
    # T-matrix solutions reproduce their symmetries to ~3e-9 [floor 2.4e-9]
    tol = 1e-8 if _is_ms(st) else (1e-7 if st.startswith("tm-") else 1e-9)
    fps = []
    # (a) general mirror y -> -y with x polarization (the mirror plane
    # contains the optical axis and the polarization)
    pol = (1, 0)
    det0 = H.det_points(BASE_PTS)
    Pm = BASE_PTS * np.array([1.0, -1.0, 1.0])
    det1 = H.det_points(Pm)
    s0 = H.mk_scatterer(sspec)
    s1 = H.mk_scatterer(_mirror_spec(sspec))
    h0, f0 = _holo_field(det0, s0, H.mk_theory(tspec), pol)
    h1, f1 = _holo_field(det1, s1, H.mk_theory(tspec), pol)
    ck.trans += 4
    e = float(np.abs(h1 - h0).max() / np.abs(h0).max())
    ck.metric("mirror" + ("-multisphere" if _is_ms(st) else ""), e)
    ck.true("mirror-holo", e <= tol, "%s: mirrored configuration (y -> -y, "
            "x-polarized) does not give the mirrored hologram (err %.2e)" %
            (st, e))
    fps.append(fp_values(h1))
    # (b) a sphere under x- or y-polarized light: hologram symmetric about
    # both in-plane axes through its centre (odd and even extents)
    if sspec[0] == "sphere":
        c = sspec[3]
        for n in (5, 4):
            off = (n - 1) / 2.0 * PX
            det = H.det_grid(n, PX, origin=(c[0] - off, c[1] - off))
            for pol in ((1, 0), (0, 1)):
                from holopy.scattering import calc_holo
                h = calc_holo(det, s0, H.NMED, H.WL, pol,
                              theory=H.mk_theory(tspec))
                ck.trans += 1
                a = h.transpose("x", "y", "z").values[:, :, 0]
                e = max(float(np.abs(a - a[::-1, :]).max()),
                        float(np.abs(a - a[:, ::-1]).max())) / \
                    float(np.abs(a).max())
                ck.metric("mirror-sphere", e)
                ck.true("mirror-sphere", e <= 1e-9,
                        "%s: hologram of a sphere under %r-polarized light "
                        "is not symmetric about the axes through its centre "
                        "(%dx%d grid, asymmetry %.2e)" % (st, pol, n, n, e))
                fps.append(fp_values(a))
    return digest(*fps)


def _run_lensfar(case, ck):
    from holopy.core.metadata import detector_points
    from holopy.scattering import calc_holo, Sphere, Mie, MieLens
    from holopy.scattering.theory import Lens
    rho = np.array([2.0, 7.0, 10.0, 12.0, 14.0])
    a = 0.3
    sph = Sphere(n=1.59, r=0.5, center=(0.0, 0.0, 5.0))
    n = 100 if case["quad"] == "default" else 400
    fps = []
    for name, th in (("Lens(1.0, Mie)", Lens(1.0, Mie(False, False), n, n)),
                     ("MieLens(1.0)", MieLens(1.0))):
        hs = []
        for ang, pol in ((0.2, (1.0, 0.0)),
                         (0.2 + a, (math.cos(a), math.sin(a)))):
            det = detector_points(x=rho * math.cos(ang),
                                  y=rho * math.sin(ang), z=0.0)
            with warnings.catch_warnings():
                warnings.simplefilter("ignore")
                hs.append(calc_holo(det, sph, H.NMED, H.WL, pol,
                                    theory=th).values.ravel())
            ck.trans += 1
        e = float(np.abs(hs[1] - hs[0]).max())
        ck.metric("rotation-far-rho", e)
        ck.true("rotation-holo", e <= 1e-6, "%s (%d-node quadrature): "
                "rotating sphere, polarization and detector points (k rho up "
                "to %.0f) by %g rad changes the hologram by %.2e" %
                (name, n, H.K * rho.max(), a, e))
        fps.append(fp_values(hs[0]))
    return digest(*fps)


def run_case(case):
    ck = Checker()
    try:
        fp = {"shift": _run_shift, "rot": _run_rot, "lensfar": _run_lensfar,
              "mirror": _run_mirror}[case["kind"]](case, ck)
    except Exception as e:
        if H.is_refusal(e):
            return ck.result(fp="refused:" + type(e).__name__,
                             outcome="refused", nontrivial=False)
        raise
    return ck.result(fp=fp)

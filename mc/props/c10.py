"""C10 -- T-matrix scatterers: sphere limit, symmetry, never abort.

Exhaustive products: (sphere size x index x polar x azimuth) for the sphere
limit through three entry points; (shape x orientation x transformation) for
the symmetries; (shape x size x beta x gamma) for robustness, each execution
in its own forked child so that a Fortran STOP is an observed outcome.
"""
import itertools
import math

import numpy as np

import hpcases as H
from lib import Checker, digest, fork_call, fp_values

PROPERTY = "C10"
RULE = ("sphere limit: product size parameter x index x (6 polar x 7 "
        "azimuth) through calc_scat_matrix, calc_field and Lens(Tmatrix); "
        "equal-axes spheroid x orientation alphabet; symmetry: shape x "
        "(beta, gamma) x {spin, axis reversal, mirror}; robustness: full "
        "product shape x size x beta x gamma (each in a forked child).  "
        "Non-trivial = distinct fingerprint / outcome class")
ASSUMPTIONS = ["Mie far field (validated against the textbook series in C02)"
               " is the reference for the sphere limit",
               "alphabet values only; a 120 s horizon per execution"]
TOLERANCES = {"sphere-scatmat": 1e-4, "sphere-field": 1e-4,
              "sphere-lens": 1e-4, "equal-axes": 1e-4, "symmetry": 1e-7}
TIMEOUT = 600
DEATH_IS_VIOLATION = True

XS = {"quick": [5.0, 0.1, 20.0], "thorough": [5.0, 0.1, 1.0, 10.0, 20.0]}
MS = {"quick": [1.2, 1.2 + 0.01j],
      "thorough": [1.2, 1.59 / 1.33, 1.2 + 0.01j]}
THETA = [0.0, 1e-3, 3e-3, 0.1, 0.5, 1.0, 2.0, 3.0]
PHI = [0.0, 0.5, 1.0, math.pi / 2, math.pi, 4.0, 5.5]
ORI = [(0.4, 0.7), (0.0, 0.0), (math.pi / 2, 2.0), (1.2, 5.0)]
SHAPES = {  # name -> (kind, aspect) ; sizes given by equal-volume x
    "spheroid0.3": ("spheroid", 0.3), "spheroid0.5": ("spheroid", 0.5),
    "spheroid2": ("spheroid", 2.0), "spheroid3": ("spheroid", 3.0),
    "cyl0.5": ("cylinder", 0.5), "cyl1": ("cylinder", 1.0),
    "cyl2": ("cylinder", 2.0)}
SYM_SHAPES = {"quick": ["spheroid0.5", "spheroid2", "cyl1"],
              "thorough": list(SHAPES)}
ROB_ANG = {"quick": [0.3, 0.0, -0.3, math.pi, math.pi + 1e-9, 7.0, -100.0],
           "thorough": [0.3, 0.0, -0.3, -math.pi, -1e-9, math.pi / 2,
                        math.pi, math.pi + 1e-9, 3.5, 2 * math.pi, 7.0,
                        100.0, -100.0]}
ROB_SHAPES = ["spheroid0.5", "spheroid2", "cyl1"]
EDGE_ANG = [-1e-18, -5e-17, -1e-300, -0.0, 5e-324,
            float(np.nextafter(2 * math.pi, 0.0)),
            float(np.nextafter(2 * math.pi, 7.0)),
            float(np.nextafter(math.pi, 0.0)),
            float(np.nextafter(math.pi, 4.0)), -1e-16 - 2 * math.pi,
            4 * math.pi - 1e-15]
ROB_X = {"quick": [1.0, 30.0], "thorough": [1.0, 10.0, 30.0, 80.0]}
CENTER = (0.17, 0.11, 8.0)


def cases(tier, seed):
    out = []
    for x in XS[tier]:
        for m in MS[tier]:
            out.append({"id": "sphere:x=%r:m=%r" % (x, m), "kind": "sphere",
                        "x": x, "m": [complex(m).real, complex(m).imag]})
    for i, (b, g) in enumerate(ORI + [(3e-3, 0.7), (math.pi - 2e-3, 1.0)]):
        for n in (1.59, 1.59 + 0.02j, 1.45 + 0.3j):
            out.append({"id": "equalaxes:ori#%d:n=%r" % (i, n),
                        "kind": "equalaxes", "beta": b, "gamma": g,
                        "n": [complex(n).real, complex(n).imag]})
    # large tilted particles (many azimuthal modes; directions close to the
    # particle's axis)
    for x in (15.0, 20.0):
        for j, (b, g) in enumerate([(0.1, 0.7), (0.25, 2.0), (1.2, -0.4)]):
            out.append({"id": "equalaxes-large:x=%g:ori#%d" % (x, j),
                        "kind": "equalaxes", "beta": b, "gamma": g,
                        "n": [1.59, 0.0], "x": x})
    for sh in SYM_SHAPES[tier]:
        for i, (b, g) in enumerate(ORI):
            out.append({"id": "sym:%s:ori#%d" % (sh, i), "kind": "sym",
                        "shape": sh, "beta": b, "gamma": g})
    for sh in ROB_SHAPES:
        for x in ROB_X[tier]:
            for b in ROB_ANG[tier]:
                for g in ROB_ANG[tier]:
                    out.append({"id": "robust:%s:x=%r:beta=%r:gamma=%r" %
                                (sh, x, b, g), "kind": "robust", "shape": sh,
                                "x": x, "beta": b, "gamma": g})
    # histories: the T-matrix of the previous particle stays in a Fortran
    # COMMON block; nearly identical particles in one interpreter must not
    # see it
    refs = {}
    for name in HOPS:
        st, val = fork_call(_hop, name, timeout=300)
        refs[name] = val if st == "ok" else "FAILED:%s:%r" % (st, val)
    L = 2 if tier == "quick" else 3
    for n in range(1, L + 1):
        for seq in itertools.product(list(HOPS), repeat=n):
            out.append({"id": "hist:" + ">".join(seq), "kind": "history",
                        "seq": list(seq), "ref": {o: refs[o] for o in seq}})
    # detector azimuths / polar angles outside the principal range (a
    # spherical point detector passes them through unchanged)
    for i, (th, ph) in enumerate([(0.5, -0.5), (0.5, 7.0), (0.5, -7.0),
                                  (0.5, 100.0), (1.0, 2 * math.pi),
                                  (0.0, -1e-9), (math.pi, 4.0)]):
        out.append({"id": "robust-detector-angle#%d" % i, "kind": "robustdet",
                    "theta": th, "phi": ph})
    # angles a rounding error away from the ends of the principal range
    # (x % 360 of a tiny negative number is 360.0 itself)
    for i, ph in enumerate(EDGE_ANG):
        out.append({"id": "robust-detector-angle:edge#%d" % i,
                    "kind": "robustdet", "theta": 0.5, "phi": ph})
        out.append({"id": "robust-detector-angle:edge-theta#%d" % i,
                    "kind": "robustdet", "theta": abs(ph) % math.pi,
                    "phi": 1.0})
        for sh in ROB_SHAPES:
            for which, (b, g) in (("gamma", (0.3, ph)), ("beta", (ph, 0.3)),
                                  ("both", (ph, ph))):
                out.append({"id": "robust:edge:%s:%s#%d" % (sh, which, i),
                            "kind": "robust", "shape": sh, "x": 1.0,
                            "beta": b, "gamma": g})
    # absurd sizes
    for sh in ROB_SHAPES[:2] + ["sphere"]:
        for x in (1e5, 1e10, 1e13):
            out.append({"id": "robust-size:%s:x=%r" % (sh, x),
                        "kind": "robust", "shape": sh, "x": x, "beta": 0.4,
                        "gamma": 0.7})
    # index times size beyond the Fortran work arrays of the interior
    # Bessel functions (x within the property's sphere range for two of them)
    for sh, x, n in (("sphere", 20.0, 10 + 60j), ("sphere", 20.0, 1.5 + 100j),
                     ("sphere", 100.0, 12.0), ("spheroid3", 90.0, 6.0),
                     ("sphere", 20.0, 40.0), ("cyl2", 50.0, 20.0)):
        out.append({"id": "robust-index:%s:x=%r:n=%r" % (sh, x, n),
                    "kind": "robust", "shape": sh, "x": x, "beta": 0.4,
                    "gamma": 0.7, "n": [complex(n).real, complex(n).imag]})
    # size anchor (not literally in the statement, like the weak-coupling
    # anchor of C09): no symmetry can see a particle computed too large.  In
    # the Rayleigh-Gans limit (small, index close to the medium's) the
    # forward amplitude of ANY shape is proportional to its volume
    for sh in ("cylinder", "spheroid"):
        out.append({"id": "volume-anchor:%s" % sh, "kind": "volume",
                    "shape": sh})
    # a refusal must be able to leave a worker process
    out.append({"id": "refusal-crosses-processes", "kind": "pickle"})
    # lengths written as integers (nanometres) and angles as small integers
    out.append({"id": "integer-typed-arguments", "kind": "inttypes"})
    # orientation anchor: in the same limit the amplitude is the form factor
    # of the shape, F(q . axis): it ties the Euler angles of the scatterer
    # to the documented z-y-z rotation in HoloPy's frame (z towards the
    # source), which the symmetry checks -- all relative -- cannot do
    for i in range(len(ORI_ANCHOR)):
        out.append({"id": "orientation-anchor#%d" % i, "kind": "orient",
                    "i": i})
    # radii that are an odd number of quarter wavelengths (outside or
    # inside the sphere): cos(kr) = 0 to the last bit
    for i in range(len(SPECIAL_R)):
        out.append({"id": "sphere-quarter-wave#%d" % i,
                    "kind": "spherespecial", "i": i})
    # dimensions that are zero or negative
    for i in range(len(BAD_DIMS)):
        out.append({"id": "robust-dimensions#%d" % i, "kind": "baddims",
                    "i": i})
    # sizes beyond the Fortran dimension limits
    for sh in ROB_SHAPES[:2]:
        for x in ([150.0] if tier == "quick" else [105.0, 150.0, 250.0]):
            out.append({"id": "robust-size:%s:x=%r" % (sh, x),
                        "kind": "robust", "shape": sh, "x": x, "beta": 0.4,
                        "gamma": 0.7})
    return out


HOPS = {  # name -> ("sphere", n, x) | (shape, n, xev, beta, gamma)
    "sph": ("sphere", 1.59, 5.0),
    "sph-absorbing": ("sphere", 1.59 + 0.05j, 5.0),
    "sph-n+0.01": ("sphere", 1.60, 5.0),
    "spo": ("spheroid2", 1.59, 4.0, 0.4, 0.7),
    "spo-tilt": ("spheroid2", 1.59, 4.0, 0.41, 0.7),
    "spo-absorbing": ("spheroid2", 1.59 + 0.05j, 4.0, 0.4, 0.7),
    "spo-oblate": ("spheroid0.5", 1.59, 4.0, 0.4, 0.7),
    "cyl": ("cyl1", 1.59, 4.0, 0.4, 0.7),
}


_OBJ = {}         # scatterer / theory objects live as long as the
#                  interpreter: a history that repeats an operation REUSES
#                  them (rotations are float64 arrays, centres arrays)


def _hop(name):
    import holopy as hp
    from holopy.scattering import (Sphere, Tmatrix, calc_holo,
                                   calc_scat_matrix)
    spec = HOPS[name]
    if name not in _OBJ:
        if spec[0] == "sphere":
            s = Sphere(n=spec[1], r=spec[2] / H.K, center=np.array(CENTER))
        else:
            s = _shape(spec[0], spec[2], spec[3], spec[4], n=spec[1])
            s.rotation = np.array(s.rotation, dtype=float)
            s = s.from_parameters(dict(s.parameters, rotation=np.array(
                s.rotation, dtype=float)))
        _OBJ[name] = (s, repr(s))
    s, srepr = _OBJ[name]
    if "tm" not in _OBJ:
        _OBJ["tm"] = Tmatrix()
    det = H.det_points([[0.0, 0.0, 0.0], [0.9, 0.2, 0.0], [-0.5, 1.1, 0.0],
                        [2.0, -1.5, 0.0]])
    h = calc_holo(det, s, H.NMED, H.WL, (1, 0), theory=_OBJ["tm"]).values
    detp = hp.detector_points(theta=np.array([0.0, 0.7, 2.0]),
                              phi=np.array([0.0, 1.0, 4.0]))
    S = calc_scat_matrix(detp, s, H.NMED, H.WL, theory=_OBJ["tm"]).values
    out = digest(np.ascontiguousarray(h), np.ascontiguousarray(S))
    # the theory-level entry point that Lens and user-written wrappers call
    # with the user's own scatterer object (no defensive copy in between);
    # a changed signature is not a violation: the seam is then skipped
    try:
        pos = np.array([[np.inf, np.inf, np.inf], [0.0, 0.7, 2.0],
                        [0.0, 1.0, 4.0]])
        raw = np.asarray(_OBJ["tm"].raw_scat_matrs(
            s, pos, medium_wavevec=H.K, medium_index=H.NMED))
        out += digest(np.ascontiguousarray(raw))
    except TypeError:
        out += "|raw-seam-absent"
    if repr(s) != srepr:
        out += "|scatterer-object-changed"
    return out


def _run_history(case, ck):
    outs = []
    for i, name in enumerate(case["seq"]):
        ref = case["ref"][name]
        if str(ref).startswith("FAILED"):
            ck.true("pristine-reference", False, "%s failed in a pristine "
                    "interpreter: %s" % (name, ref))
            return "ref-failed"
        got = _hop(name)
        ck.trans += 2
        ck.true("history-independent", got == ref, "step %d (%s) of %s gives "
                "a different result than the same call in a pristine "
                "interpreter" % (i + 1, name, ">".join(case["seq"])))
        outs.append(got)
    return digest(*outs)


def _shape(name, xev, beta, gamma, alpha=0.0, center=CENTER, n=1.59):
    """equal-volume size parameter xev -> dimensions"""
    from holopy.scattering import Spheroid, Cylinder
    kind, asp = SHAPES[name]
    rv = xev / H.K
    if kind == "spheroid":
        # r = (a, a, c) semi-axes, aspect = c / a ; volume 4/3 pi a^2 c
        a = rv / asp ** (1.0 / 3.0)
        return Spheroid(n=n, r=(a, a * asp), rotation=(alpha, beta, gamma),
                        center=center)
    # cylinder: aspect = h / d ; volume pi d^2 h / 4
    d = rv * (16.0 / (3.0 * 2 * asp)) ** (1.0 / 3.0)
    return Cylinder(n=n, h=asp * d, d=d, rotation=(alpha, beta, gamma),
                    center=center)


def _pts(r):
    pts, th_l, ph_l = [], [], []
    for th in THETA:
        for ph in PHI:
            pts.append((CENTER[0] + r * math.sin(th) * math.cos(ph),
                        CENTER[1] + r * math.sin(th) * math.sin(ph),
                        CENTER[2] - r * math.cos(th)))
    return np.array(pts)


def _run_sphere(case, ck):
    import warnings
    import holopy as hp
    from holopy.scattering import (Sphere, Mie, Tmatrix, calc_scat_matrix,
                                   calc_field)
    from holopy.scattering.theory import Lens
    x, m = case["x"], complex(*case["m"])
    n = m * H.NMED
    if n.imag == 0:
        n = n.real
    sph = Sphere(n=n, r=x / H.K, center=CENTER)
    th = np.repeat(THETA, len(PHI))
    ph = np.tile(PHI, len(THETA))
    det = hp.detector_points(theta=th, phi=ph)
    S = calc_scat_matrix(det, sph, H.NMED, H.WL, theory=Tmatrix()).values
    T = calc_scat_matrix(det, sph, H.NMED, H.WL, theory=Mie()).values
    ck.trans += 2
    sc = np.abs(T).max()
    e = float(np.abs(S - T).max() / sc)
    ck.metric("sphere-scatmat", e)
    i = int(np.argmax(np.abs(S - T).max(axis=(1, 2))))
    ck.true("sphere-scatmat", e <= 1e-4,
            "calc_scat_matrix(Tmatrix) for a sphere differs from Mie by "
            "%.2e of the largest element (x=%r m=%r; worst at theta=%.2f "
            "phi=%.2f)" % (e, x, m, th[i], ph[i]))
    # direct fields far from the particle
    pts = _pts(max(2e3, 200 * x) / H.K)
    detp = hp.detector_points(x=pts[:, 0], y=pts[:, 1], z=pts[:, 2])
    f = calc_field(detp, sph, H.NMED, H.WL, (1, 0), theory=Tmatrix()).values
    g = calc_field(detp, sph, H.NMED, H.WL, (1, 0),
                   theory=Mie(False, False)).values
    ck.trans += 2
    e = float(np.abs(f - g).max() / np.abs(g).max())
    i = int(np.argmax(np.abs(f - g).max(axis=1)))
    ck.metric("sphere-field", e)
    ck.true("sphere-field", e <= 1e-4 and np.isfinite(f).all(),
            "calc_field(Tmatrix) for a sphere differs from far-field Mie by "
            "%.2e (x=%r m=%r; worst at theta=%.2f phi=%.2f)" %
            (e, x, m, th[i], ph[i]))
    fps = [fp_values(S), fp_values(f)]
    # inside the lens wrapper
    if x <= 10:
        detg = H.det_points([[0.0, 0.0, 0.0], [0.9, 0.2, 0.0],
                             [-0.5, 1.1, 0.0], [0.17, 0.11, 0.0]])
        with warnings.catch_warnings():
            warnings.simplefilter("ignore")
            lt = calc_field(detg, sph, H.NMED, H.WL, (1, 0),
                            theory=Lens(0.8, Tmatrix(), 32, 32)).values
            lm = calc_field(detg, sph, H.NMED, H.WL, (1, 0),
                            theory=Lens(0.8, Mie(False, False), 32,
                                        32)).values
        ck.trans += 2
        e = float(np.abs(lt - lm).max() / np.abs(lm).max())
        ck.metric("sphere-lens", e)
        ck.true("sphere-lens", e <= 1e-4, "Lens(Tmatrix) differs from "
                "Lens(Mie) for a sphere by %.2e (x=%r m=%r)" % (e, x, m))
        fps.append(fp_values(lt))
    return digest(*fps)


TOL_EQUALAXES_LARGE = 8e-6     # [9.7e-7]


def _run_equalaxes(case, ck):
    import holopy as hp
    from holopy.scattering import (Sphere, Spheroid, Tmatrix,
                                   calc_scat_matrix, calc_field)
    b, g = case["beta"], case["gamma"]
    nidx = complex(*case["n"])
    nidx = nidx.real if nidx.imag == 0 else nidx
    xsz = case.get("x", 5.0)
    tol = 1e-4 if xsz == 5.0 else TOL_EQUALAXES_LARGE
    tag = "equal-axes" if xsz == 5.0 else "equal-axes-large"
    a = xsz / H.K
    th = np.repeat(THETA, len(PHI))
    ph = np.tile(PHI, len(THETA))
    det = hp.detector_points(theta=th, phi=ph)
    sph = Sphere(n=nidx, r=a, center=CENTER)
    spo = Spheroid(n=nidx, r=(a, a), rotation=(0.3, b, g), center=CENTER)
    S = calc_scat_matrix(det, spo, H.NMED, H.WL, theory=Tmatrix()).values
    T = calc_scat_matrix(det, sph, H.NMED, H.WL, theory=Tmatrix()).values
    ck.trans += 2
    e = float(np.abs(S - T).max() / np.abs(T).max())
    ck.metric(tag, e)
    ck.true("equal-axes", e <= tol, "spheroid with equal semi-axes (x=%g) "
            "differs from the sphere by %.2e (beta=%r gamma=%r)" %
            (xsz, e, b, g))
    pts = _pts(3e3 / H.K)
    detp = hp.detector_points(x=pts[:, 0], y=pts[:, 1], z=pts[:, 2])
    f = calc_field(detp, spo, H.NMED, H.WL, (1, 0), theory=Tmatrix()).values
    h = calc_field(detp, sph, H.NMED, H.WL, (1, 0), theory=Tmatrix()).values
    ck.trans += 2
    e = float(np.abs(f - h).max() / np.abs(h).max())
    ck.metric(tag, e)
    ck.true("equal-axes-field", e <= tol, "field of the equal-axes "
            "spheroid differs from the sphere's by %.2e" % e)
    return digest(fp_values(S), fp_values(f))


def _run_sym(case, ck):
    import holopy as hp
    from holopy.scattering import Tmatrix, calc_holo, calc_field
    sh, b, g = case["shape"], case["beta"], case["gamma"]
    xev = 4.0
    P = np.array([[0.0, 0.0, 0.0], [0.9, 0.2, 0.0], [-0.5, 1.1, 0.0],
                  [0.17, 0.11, 0.0], [-1.3, -0.7, 0.0], [2.0, -1.5, 0.0]])
    det = H.det_points(P)

    def holo(s, d=det):
        ck.trans += 1
        return calc_holo(d, s, H.NMED, H.WL, (1, 0), theory=Tmatrix()).values
    base = holo(_shape(sh, xev, b, g))
    fps = [fp_values(base)]
    sc = float(np.abs(base).max())
    # spin about its own axis (first Euler angle)
    for al in (1.3, math.pi, -2.0):
        h = holo(_shape(sh, xev, b, g, alpha=al))
        e = float(np.abs(h - base).max() / sc)
        ck.metric("symmetry", e)
        ck.true("sym-spin", e <= 1e-7, "%s: spinning the particle by %r "
                "about its own axis changes the hologram by %.2e "
                "(beta=%r gamma=%r)" % (sh, al, e, b, g))
    # axis reversal (beta, gamma) -> (pi - beta, gamma + pi)
    h = holo(_shape(sh, xev, math.pi - b, (g + math.pi) % (2 * math.pi)))
    e = float(np.abs(h - base).max() / sc)
    ck.metric("symmetry", e)
    ck.true("sym-reversal", e <= 1e-7, "%s: reversing the axis direction "
            "changes the hologram by %.2e (beta=%r gamma=%r)" %
            (sh, e, b, g))
    # the same symmetries for the amplitude matrix in directions whose
    # azimuth is exactly that of the particle axis, opposite to it, 0 or pi
    from holopy.scattering import calc_scat_matrix
    two_pi = 2 * math.pi
    az = sorted({0.0, math.pi, g % two_pi, (g + math.pi) % two_pi})
    tt, pp = [v.ravel() for v in np.meshgrid([0.8, 2.0], az, indexing="ij")]
    dsph = hp.detector_points(theta=tt, phi=pp)

    def smat(s):
        ck.trans += 1
        return calc_scat_matrix(dsph, s, H.NMED, H.WL,
                                theory=Tmatrix()).values
    S0 = smat(_shape(sh, xev, b, g))
    ssc = float(np.abs(S0).max())
    for name, s in (("spin", _shape(sh, xev, b, g, alpha=1.3)),
                    ("reversal", _shape(sh, xev, math.pi - b,
                                        (g + math.pi) % two_pi))):
        S1 = smat(s)
        err = np.abs(S1 - S0).max(axis=(1, 2)) / ssc
        e = float(err.max())
        ck.metric("symmetry-aligned-azimuth", e)
        ck.true("sym-" + name, e <= 1e-5, "%s: %s changes the amplitude "
                "matrix by %.2e in the direction theta=%r phi=%r (axis "
                "azimuth gamma=%r, beta=%r)" %
                (sh, name, e, float(tt[err.argmax()]),
                 float(pp[err.argmax()]), g, b))
    # mirror y -> -y : gamma -> -gamma (written in [0, 2pi) ), centre and
    # detector mirrored; x polarization lies in the mirror plane
    gm = (-g) % (2 * math.pi)
    sm = _shape(sh, xev, b, gm, center=(CENTER[0], -CENTER[1], CENTER[2]))
    h = holo(sm, H.det_points(P * np.array([1.0, -1.0, 1.0])))
    e = float(np.abs(h - base).max() / sc)
    ck.metric("symmetry", e)
    ck.true("sym-mirror", e <= 1e-7, "%s: mirrored geometry does not give "
            "the mirrored hologram (err %.2e; beta=%r gamma=%r)" %
            (sh, e, b, g))
    return digest(*fps)


# (wavelength, medium index, radius, particle index): k r or m k r is an odd
# multiple of pi/2 as exactly as floating point allows
SPECIAL_R = [(1.0, 1.0, 0.75, 1.5), (1.0, 1.0, 0.25, 1.5),
             (0.5, 1.0, 0.125, 1.33), (0.66, 1.0, 0.165, 1.59),
             (1.0, 1.0, 1.0 / 6.0, 1.5), (1.0, 1.0, 0.1875, 4.0 / 3.0),
             (1.0, 1.0, 0.5, 1.5), (1.0, 1.0, 1.0, 1.5),
             # m k r = 7 pi to the last bit: j_0 of the interior argument
             # vanishes and a ratio of the downward recursion is 1 / 0
             (1.0, 1.0, 1.75, 2.0), (0.5, 1.0, 0.7, 2.5),
             (0.8, 1.0, 1.75, 1.6)]


def _run_spherespecial(case, ck):
    import holopy as hp
    from holopy.scattering import Sphere, Mie, Tmatrix, calc_scat_matrix
    wl, nmed, r, n = SPECIAL_R[case["i"]]
    sph = Sphere(n=n, r=r, center=CENTER)
    th = np.repeat(THETA, len(PHI))
    ph = np.tile(PHI, len(THETA))
    det = hp.detector_points(theta=th, phi=ph)
    T = calc_scat_matrix(det, sph, nmed, wl, theory=Mie()).values
    ck.trans += 1
    try:
        S = calc_scat_matrix(det, sph, nmed, wl, theory=Tmatrix()).values
        ck.trans += 1
    except Exception as e:
        ck.true("sphere-scatmat", False, "Tmatrix refuses a sphere of radius "
                "%r at wavelength %r (index %r in %r): %s: %s" %
                (r, wl, n, nmed, type(e).__name__, e))
        return "exception:" + type(e).__name__
    e = float(np.abs(S - T).max() / np.abs(T).max())
    ck.metric("sphere-scatmat", e)
    ck.true("sphere-scatmat", e <= 1e-4, "calc_scat_matrix(Tmatrix) for a "
            "sphere of radius %r at wavelength %r (index %r in %r, k r = "
            "%.6f pi/2) differs from Mie by %.2e" %
            (r, wl, n, nmed, 2 * math.pi * nmed * r / wl / (math.pi / 2), e))
    return digest(fp_values(S))


BAD_DIMS = [("spheroid", (-0.4, 0.5)), ("spheroid", (0.4, -0.5)),
            ("spheroid", (-0.4, -0.5)), ("spheroid", (0.0, 0.5)),
            ("spheroid", (0.4, 0.0)), ("cylinder", (-0.4, 0.8)),
            ("cylinder", (0.4, -0.8)), ("cylinder", (0.0, 0.8)),
            ("cylinder", (0.4, 0.0)), ("sphere", (-0.5,)), ("sphere", (0.0,))]


def _run_baddims(case, ck):
    """zero or negative dimensions: a Python exception or finite values,
    never a dead interpreter (decided by the explorer's isolation)"""
    from holopy.scattering import (Tmatrix, Sphere, Spheroid, Cylinder,
                                   calc_holo)
    kind, dims = BAD_DIMS[case["i"]]
    det = H.det_points([[0.0, 0.0, 0.0], [0.9, 0.2, 0.0]])
    try:
        if kind == "spheroid":
            s = Spheroid(n=1.59, r=dims, rotation=(0, 0.4, 0.7),
                         center=CENTER)
        elif kind == "cylinder":
            s = Cylinder(n=1.59, d=dims[0], h=dims[1],
                         rotation=(0, 0.4, 0.7), center=CENTER)
        else:
            s = Sphere(n=1.59, r=dims[0], center=CENTER)
        h = calc_holo(det, s, H.NMED, H.WL, (1, 0), theory=Tmatrix()).values
        ck.trans += 1
    except Exception as e:
        return "exception:" + type(e).__name__
    ck.true("finite", np.isfinite(h).all(), "%s with dimensions %r: "
            "non-finite values %r" % (kind, dims, h.tolist()))
    return digest(fp_values(h))


def _run_robustdet(case, ck):
    import holopy as hp
    from holopy.scattering import (Tmatrix, Sphere, calc_scat_matrix,
                                   calc_field)
    th, ph = case["theta"], case["phi"]
    outs = []
    for name, s in (("spheroid", _shape("spheroid2", 4.0, 0.4, 0.7)),
                    ("sphere", Sphere(n=1.59, r=4.0 / H.K, center=CENTER))):
        det = hp.detector_points(theta=np.array([th, 0.3]),
                                 phi=np.array([ph, 1.0]), r=50.0)
        try:
            S = calc_scat_matrix(det, s, H.NMED, H.WL,
                                 theory=Tmatrix()).values
            f = calc_field(det, s, H.NMED, H.WL, (1, 0),
                           theory=Tmatrix()).values
            ck.trans += 2
        except Exception as e:
            outs.append("exception:" + type(e).__name__)
            continue
        ck.true("finite", np.isfinite(S).all() and np.isfinite(f).all(),
                "non-finite values at detector angles theta=%r phi=%r" %
                (th, ph))
        # the same direction written in the principal range
        ph2 = ph % (2 * math.pi)
        det2 = hp.detector_points(theta=np.array([th, 0.3]),
                                  phi=np.array([ph2, 1.0]), r=50.0)
        S2 = calc_scat_matrix(det2, s, H.NMED, H.WL,
                              theory=Tmatrix()).values
        ck.trans += 1
        e = float(np.abs(S - S2).max() / np.abs(S2).max())
        ck.metric("equivalent-azimuth", e)
        ck.true("equivalent-azimuth", e <= 1e-6, "%s: azimuth %r gives a "
                "scattering matrix that differs by %.2e from the same "
                "direction written as %r" % (name, ph, e, ph2))
        outs.append(fp_values(S))
    return digest(*outs), "ok"


def _run_robust(case, ck):
    from holopy.scattering import Tmatrix, calc_holo
    sh, x, b, g = case["shape"], case["x"], case["beta"], case["gamma"]
    det = H.det_points([[0.0, 0.0, 0.0], [0.9, 0.2, 0.0], [-0.5, 1.1, 0.0]])
    nidx = complex(*case["n"]) if "n" in case else 1.59
    if isinstance(nidx, complex) and nidx.imag == 0:
        nidx = nidx.real
    try:
        if sh == "sphere":
            from holopy.scattering import Sphere
            s = Sphere(n=nidx, r=x / H.K,
                       center=(0.2, 0.1, max(8.0, 3 * x / H.K)))
        else:
            s = None
        s = s or _shape(sh, x, b, g, center=(0.2, 0.1, max(8.0, 3 * x / H.K)),
                        n=nidx)
        h = calc_holo(det, s, H.NMED, H.WL, (1, 0), theory=Tmatrix()).values
        ck.trans += 1
    except Exception as e:
        return "exception:" + type(e).__name__, "python-exception"
    ck.true("finite", np.isfinite(h).all(), "%s x=%r beta=%r gamma=%r: "
            "non-finite values returned %r" % (sh, x, b, g, h.tolist()))
    if x <= 10:
        # the same axis direction written with angles inside the solver's
        # native range must give the same hologram
        d = (math.sin(b) * math.cos(g), math.sin(b) * math.sin(g),
             math.cos(b))
        b2 = math.acos(max(-1.0, min(1.0, d[2])))
        g2 = math.atan2(d[1], d[0]) % (2 * math.pi)
        s2 = _shape(sh, x, b2, g2, center=(0.2, 0.1, max(8.0, 3 * x / H.K)))
        h2 = calc_holo(det, s2, H.NMED, H.WL, (1, 0),
                       theory=Tmatrix()).values
        ck.trans += 1
        e = float(np.abs(h - h2).max() / np.abs(h2).max())
        ck.metric("equivalent-orientation", e)
        ck.true("equivalent-orientation", e <= 1e-6,
                "%s x=%r: orientation (beta=%r, gamma=%r) gives a hologram "
                "that differs by %.2e from the same axis direction written "
                "as (beta=%r, gamma=%r)" % (sh, x, b, g, e, b2, g2))
    return digest(fp_values(h)), "ok"


ORI_ANCHOR = [(0.0, 0.5, 0.0), (0.0, 0.5, 1.0), (0.3, 1.0, 4.0),
              (1.1, 2.2, 2.0), (0.0, 2.6, 5.5), (2.0, 0.25, 3.0)]


def _run_orient(case, ck):
    import warnings
    from holopy.core.metadata import detector_points
    from holopy.core.math import rotation_matrix
    from holopy.scattering import calc_scat_matrix, Spheroid, Tmatrix
    rot = ORI_ANCHOR[case["i"]]
    a, c = 0.15, 0.6
    th = np.array([0.4, 0.4, 0.4, 0.4, 0.9, 0.9, 0.9, 0.9, 0.0])
    ph = np.array([0.0, 1.5, 3.0, 4.6, 0.3, 1.9, 3.3, 5.0, 0.0])
    det = detector_points(theta=th, phi=ph)
    with warnings.catch_warnings():
        warnings.simplefilter("ignore")
        S = calc_scat_matrix(det, Spheroid(n=H.NMED + 0.0005, r=(a, c),
                                           rotation=rot, center=(0, 0, 0)),
                             H.NMED, H.WL, theory=Tmatrix()).values
    ck.trans += 1
    got = np.abs(S[:-1, 1, 1]) / np.abs(S[-1, 1, 1])
    # the axis in HoloPy's frame; the light travels along -z, the detector
    # angles are measured from the propagation direction
    n = np.asarray(rotation_matrix(*rot)) @ np.array([0.0, 0.0, 1.0])
    ks = np.stack([np.sin(th) * np.cos(ph), np.sin(th) * np.sin(ph),
                   -np.cos(th)], 1)[:-1]
    q = H.K * (ks - np.array([0.0, 0.0, -1.0]))
    qpar = q @ n
    u = np.sqrt(a * a * ((q ** 2).sum(1) - qpar ** 2) + c * c * qpar ** 2)
    ref = np.abs(3 * (np.sin(u) - u * np.cos(u)) / u ** 3)
    e = float(np.abs(got - ref).max())
    ck.metric("orientation-anchor", e)
    ck.true("orientation-anchor", e <= 0.02, "Spheroid(r=(%g, %g), rotation="
            "%r) with an index 5e-4 above the medium's: |S1|/|S1(0)| in 8 "
            "directions is %r, the form factor of the spheroid whose axis is "
            "rotation_matrix(rotation) z gives %r (max difference %.3f)" %
            (a, c, rot, np.round(got, 3).tolist(), np.round(ref, 3).tolist(),
             e))
    return digest(fp_values(S))


def _run_pickle(case, ck):
    """the exceptions the theories refuse with survive pickling (a refusal
    raised in a multiprocessing worker that cannot be unpickled makes the
    pool wait for ever)"""
    import pickle
    import warnings
    from holopy.core.metadata import detector_grid
    from holopy.scattering import (calc_holo, Spheroid, Sphere, Tmatrix,
                                   Multisphere)
    from holopy.scattering.scatterer import Ellipsoid
    det = detector_grid((2, 2), 0.1)
    seen = []
    for what, scat, theory in (
            ("size beyond the compiled arrays",
             Spheroid(n=1.59, r=(3e3, 6e3), center=(0, 0, 1e4)), Tmatrix()),
            ("scatterer the theory cannot handle",
             Ellipsoid(n=1.5, r=(0.3, 0.4, 0.5), center=(0, 0, 5)),
             Tmatrix()),
            ("layered sphere in Multisphere",
             Sphere(n=[1.5, 1.6], r=[0.3, 0.5], center=(0, 0, 5)),
             Multisphere())):
        try:
            with warnings.catch_warnings():
                warnings.simplefilter("ignore")
                calc_holo(det, scat, 1.33, 0.66, (1, 0), theory=theory)
            ck.trans += 1
            seen.append("computed")
            continue
        except Exception as e:
            ck.trans += 1
            try:
                back = pickle.loads(pickle.dumps(e))
                ok = type(back) is type(e) and str(back) == str(e)
                why = "" if ok else "came back as %r" % (back,)
            except Exception as e2:
                ok, why = False, "%s: %s" % (type(e2).__name__, e2)
            ck.true("refusal-picklable", ok, "%s (%s): the %s it raises does "
                    "not survive pickling: %s" %
                    (what, type(theory).__name__, type(e).__name__, why))
            seen.append(type(e).__name__)
    return digest(seen)


def _run_inttypes(case, ck):
    import warnings
    from holopy.core.metadata import detector_grid
    from holopy.scattering import calc_holo, Spheroid, Sphere, Tmatrix
    det = detector_grid((4, 4), 300)
    fps = []

    def holo(scat):
        with warnings.catch_warnings():
            warnings.simplefilter("ignore")
            return calc_holo(det, scat, 1.33, 660, (1, 0),
                             theory=Tmatrix()).values
    ref = holo(Spheroid(n=1.59, r=(400.0, 600.0), rotation=(0.0, 1.0, 2.0),
                        center=(500.0, 400.0, 5000.0)))
    ck.trans += 1
    for dt in ("int16", "uint16", "int32", "int64", "float32"):
        for what, scat in (
                ("semi-axes", lambda: Spheroid(
                    n=1.59, r=(np.array(400).astype(dt),
                               np.array(600).astype(dt)),
                    rotation=(0.0, 1.0, 2.0),
                    center=(500.0, 400.0, 5000.0))),
                ("angles", lambda: Spheroid(
                    n=1.59, r=(400.0, 600.0),
                    rotation=tuple(np.array([0, 1, 2]).astype(
                        "int8" if dt == "int16" else dt)),
                    center=(500.0, 400.0, 5000.0)))):
            try:
                h = holo(scat())
                ck.trans += 1
            except Exception as e:
                ck.true("integer-typed-arguments", False, "Spheroid with %s "
                        "as %s raised %s: %s" % (what, dt, type(e).__name__,
                                                 str(e)[:80]))
                continue
            e = float(np.abs(h - ref).max())
            ck.true("integer-typed-arguments", e <= 1e-6, "Spheroid with "
                    "%s as %s: hologram differs from the one with Python "
                    "floats by %.3g" % (what, dt, e))
    sref = holo(Sphere(n=1.59, r=500.0, center=(500.0, 400.0, 5000.0)))
    for dt in ("int16", "uint16", "int32"):
        h = holo(Sphere(n=1.59, r=np.array(500).astype(dt)[()],
                        center=(500.0, 400.0, 5000.0)))
        ck.trans += 1
        e = float(np.abs(h - sref).max())
        ck.true("integer-typed-arguments", e <= 1e-6, "Sphere(r=%s(500)) "
                "under Tmatrix differs from r=500.0 by %.3g" % (dt, e))
    fps.append(fp_values(ref))
    return digest(*fps)


def _run_volume(case, ck):
    import warnings
    from holopy.core.metadata import detector_points
    from holopy.scattering import (calc_scat_matrix, Sphere, Cylinder,
                                   Spheroid, Mie, Tmatrix)
    det = detector_points(theta=np.array([0.0, 0.2]), phi=np.array([0.0, 0.0]))
    n = H.NMED + 0.01
    fps = []
    dims = [(0.05, 0.08), (0.1, 0.1), (0.06, 0.2)]
    for a, b in dims:
        if case["shape"] == "cylinder":
            sc = Cylinder(n=n, d=a, h=b, center=(0, 0, 0))
            vol = math.pi * (a / 2) ** 2 * b
            what = "Cylinder(d=%g, h=%g)" % (a, b)
        else:
            sc = Spheroid(n=n, r=(a / 2, b / 2), center=(0, 0, 0))
            vol = 4 / 3 * math.pi * (a / 2) ** 2 * (b / 2)
            what = "Spheroid(r=(%g, %g))" % (a / 2, b / 2)
        req = (3 * vol / (4 * math.pi)) ** (1 / 3.)
        with warnings.catch_warnings():
            warnings.simplefilter("ignore")
            S = calc_scat_matrix(det, sc, H.NMED, H.WL,
                                 theory=Tmatrix()).values
            T = calc_scat_matrix(det, Sphere(n=n, r=req, center=(0, 0, 0)),
                                 H.NMED, H.WL, theory=Mie()).values
        ck.trans += 2
        ratio = float(abs(S[0, 0, 0]) / abs(T[0, 0, 0]))
        ck.metric("volume-anchor-ratio-1", abs(ratio - 1))
        # shape corrections are O((k a)^2) < 2 % for these sizes
        ck.true("volume-anchor", abs(ratio - 1) <= 0.05, "%s: forward "
                "amplitude is %.3f times that of the sphere of equal volume "
                "(Rayleigh-Gans limit: 1)" % (what, ratio))
        fps.append(fp_values(S))
    return digest(*fps)


def run_case(case):
    ck = Checker()
    if case["kind"] == "robust":
        fp, outcome = _run_robust(case, ck)
        return ck.result(fp=fp, outcome=outcome)
    if case["kind"] == "robustdet":
        fp, outcome = _run_robustdet(case, ck)
        return ck.result(fp=fp, outcome=outcome)
    fp = {"sphere": _run_sphere, "equalaxes": _run_equalaxes,
          "sym": _run_sym, "history": _run_history,
          "spherespecial": _run_spherespecial,
          "baddims": _run_baddims,
          "volume": _run_volume, "inttypes": _run_inttypes,
          "pickle": _run_pickle,
          "orient": _run_orient}[case["kind"]](case, ck)
    return ck.result(fp=fp)

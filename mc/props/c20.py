"""C20 -- scatterer containment, layers and overlaps match the analytic shapes.

Bounded-exhaustive: every member of explicit shape alphabets (spheres,
layered spheres 1-4 layers in both spellings, ellipsoids) is probed on a 9^3
lattice, a fixed Halton set and points at (1 +- 1e-9) of every surface along
26 directions; every ordered pair of five primitives under Union /
Difference / Intersection; every shape and composite under two translations;
voxelisations at h = r/4 ... r/64; every subset of two 8-sphere placements
(all orders of the small ones) x warn in {True, False}; explicit lists of
invalid radii / centres / non-sphere members.

Oracles are written with numpy long double / fractions only.  A probe point
is *decided* only when the analytic inequality holds with a relative margin
far above double rounding (never a point on a surface), so the verdict does
not depend on `<` versus `<=`.
"""
import itertools
import math
import warnings
from fractions import Fraction

import numpy as np

from lib import Checker, digest

PROPERTY = "C20"
RULE = ("cases = every member of the shape alphabets (sphere radius x centre, "
        "layer count 1-4 x spelling x scale x centre, ellipsoid axes x centre)"
        ", every ordered pair of 5 primitives x 3 set operations, each of "
        "those x 2 translations, voxel spacings r/4..r/64, every non-empty "
        "subset of two 8-sphere placements (all orders up to a size bound) x "
        "warn flag, and explicit invalid-input lists; a case is non-trivial "
        "when its observed fingerprint (domains / overlaps / volumes) "
        "differs from other cases'")
ASSUMPTIONS = [
    "numpy long double has a 64-bit mantissa (checked at run time; otherwise "
    "the oracle falls back to exact rational arithmetic)",
    "only the stated alphabets are explored; points exactly on a surface and "
    "pairs whose gap is below 1e-12 relative (other than exactly "
    "representable touching pairs) are not decided",
    "rotation of ellipsoids is (0,0,0): the class documents that its "
    "indicator ignores the rotation",
    "largest_overlap for collections without any overlapping or touching "
    "pair: both 0 (the code's clamp) and the negative maximum of "
    "(sum of radii - distance) (the literal statement) are accepted",
]
TOLERANCES = {
    "largest-overlap": 1e-13,
    "margin-threshold": "1e-12 + 4*ulp(max coordinate)/min radius",
    "voxel-volume": "rel. error <= 1.5*sqrt(3)*h*S/V (volume of the layer "
                    "of cells that can straddle the surface)",
}
TIMEOUT = 600

LD = np.longdouble
EPS_SURF = 1e-9
NIDX = [1.5, 1.33 + 0.01j, 1.7, 1.2]          # layer indices (one complex)
LAYER_R = [0.5, 1.0, 1.5, 2.0]
TRANS = [(1.0, -2.0, 3.0), (10.0, 0.0, 0.0)]
CENTRES = [(0.0, 0.0, 0.0), (1.0, -2.0, 3.0), (1e3, 1e3, 0.0)]
SPH_R = [1.0, 0.5, 2.5e-3, 1e3]
ELL_AX = [(1.0, 2.0, 3.0), (3.0, 1.0, 1.0), (1.0, 1.0, 1.0),
          (2.5e-3, 5e-3, 7.5e-3)]
BACKGROUNDS = [None, 1.33, 1.0 + 0.5j]

# the five primitives of the CSG alphabet (all with the same index: the
# class refuses members with different indices)
CSG_N = 1.5
CSG_PRIMS = {
    "A": {"cls": "Sphere", "layers": 0, "r": [1.0], "center": [0, 0, 0]},
    "B": {"cls": "Sphere", "layers": 0, "r": [1.0],
          "center": [1.2, 0.3, 0.0]},                     # overlaps A
    "C": {"cls": "Sphere", "layers": 0, "r": [0.5],
          "center": [3.0, 0.0, 0.0]},                     # disjoint from A
    "D": {"cls": "Sphere", "layers": 0, "r": [0.4],
          "center": [0.2, 0.0, 0.1]},                     # inside A
    "E": {"cls": "Ellipsoid", "r": [0.6, 1.5, 0.8],
          "center": [0.5, 0.0, 0.0]},                     # cuts through A
}
CSG_OPS = ["Union", "Difference", "Intersection"]

# --- sphere collections ----------------------------------------------------
# every coordinate / radius is a dyadic rational, so exactly touching pairs
# (|c_i - c_j| == r_i + r_j through 3-4-5 triangles) are evaluated without
# rounding by the implementation as well
_S = 2.0 ** -10
PLACEMENTS = {
    "P": [
        {"r": 1.0, "c": (0.0, 0.0, 0.0)},
        {"r": 2.0, "c": (3.0, 0.0, 0.0)},                # touches 0 exactly
        {"r": 0.25, "c": (0.5, 0.0, 0.0)},               # nested in 0
        {"r": 1.0, "c": (0.0, 1.5, 0.0)},                # overlaps 0
        {"r": [0.5, 1.0], "c": (0.0, 0.0, -1.75)},       # layered: overlaps
        #   0 by its outer radius only (1.75 > 1 + 0.5)
        {"r": 4.0, "c": (3.0, 4.0, 0.0)},                # touches 0 (3-4-5)
        {"r": 1.0, "c": (-2.0 * (1 - 1e-9), 0.0, 0.0)},  # overlaps 0 by 2e-9
        {"r": 1.0, "c": (0.0, 0.0, 2.0 * (1 + 1e-9))},   # misses 0 by 2e-9
    ],
    "Q": [
        {"r": 3 * _S, "c": (5.0, 5.0, 5.0)},
        {"r": 2 * _S, "c": (5.0 + 3 * _S, 5.0 + 4 * _S, 5.0)},   # touches 0
        {"r": 1 * _S, "c": (5.0, 5.0, 5.0)},                     # concentric
        {"t": [1 * _S, 1 * _S], "c": (5.0, 5.0 - 4 * _S, 5.0 + 3 * _S)},
        #   LayeredSphere spelling, outer radius 2*_S: touches 0 exactly
        {"r": 2 * _S, "c": (5.0 - 6 * _S, 5.0, 5.0)},            # separated
        {"r": 2 * _S, "c": (5.0 - 4 * _S, 5.0, 5.0)},            # overlaps 0,4
        {"r": [_S, 2 * _S, 3 * _S], "c": (5.0, 5.0, 5.0 - 8 * _S)},
        #   3 layers, outer 3*_S: separated from 0 by 2*_S
        {"r": 1, "c": (6, 5, 5), "ints": True},                  # int inputs
    ],
}
FRACTIONS = [0.1, 0.0, 0.5, 2.0]


# --------------------------------------------------------------------------
# case enumeration
# --------------------------------------------------------------------------
def _shape_specs(tier):
    out = []
    for ir, r in enumerate(SPH_R):
        for ic, c in enumerate(CENTRES):
            out.append(("sphere:r#%d:c#%d" % (ir, ic),
                        {"cls": "Sphere", "layers": 0, "r": [r],
                         "center": list(c)}))
    scales = [1.0, 2.5e-3]
    for k in (1, 2, 3, 4):
        for isc, sc in enumerate(scales):
            for ic, c in enumerate(CENTRES):
                for cls in ("Sphere", "LayeredSphere"):
                    if tier == "quick" and isc == 1 and \
                            (cls == "LayeredSphere") != (ic == 2):
                        continue
                    radii = [x * sc for x in LAYER_R[:k]]
                    spec = {"cls": cls, "layers": k, "center": list(c)}
                    if cls == "Sphere":
                        spec["r"] = radii
                    else:
                        spec["t"] = [0.5 * sc] * k
                    out.append(("layered:%s:k=%d:s#%d:c#%d" %
                                (cls, k, isc, ic), spec))
    for ia, ax in enumerate(ELL_AX):
        for ic, c in enumerate(CENTRES):
            out.append(("ellipsoid:a#%d:c#%d" % (ia, ic),
                        {"cls": "Ellipsoid", "r": list(ax),
                         "center": list(c)}))
    return out


def _voxel_specs(tier):
    ks = [4, 8, 16] if tier == "quick" else [4, 8, 16, 32]
    out = []
    prim = [
        ("sphere-unit", {"cls": "Sphere", "layers": 0, "r": [1.0],
                         "center": [0, 0, 0]}),
        ("sphere-half-off", {"cls": "Sphere", "layers": 0, "r": [0.5],
                             "center": [1.0, -2.0, 3.0]}),
        ("sphere-tiny", {"cls": "Sphere", "layers": 0, "r": [2.5e-3],
                         "center": [0.1, 0.2, -0.3]}),
        ("layered2", {"cls": "Sphere", "layers": 2, "r": [0.5, 1.0],
                      "center": [0, 0, 0]}),
        ("layered4", {"cls": "Sphere", "layers": 4, "r": LAYER_R,
                      "center": [1.0, -2.0, 3.0]}),
        ("layered3-t", {"cls": "LayeredSphere", "layers": 3,
                        "t": [0.5, 0.5, 0.5], "center": [0, 0, 0]}),
        ("ellipsoid123", {"cls": "Ellipsoid", "r": [1.0, 2.0, 3.0],
                          "center": [1.0, -2.0, 3.0]}),
        ("ellipsoid311", {"cls": "Ellipsoid", "r": [3.0, 1.0, 1.0],
                          "center": [0, 0, 0]}),
        ("ellipsoid111", {"cls": "Ellipsoid", "r": [1.0, 1.0, 1.0],
                          "center": [0, 0, 0]}),
        # a rotated ellipsoid: its volume does not depend on the rotation,
        # and whatever contains() reports inside must be inside the bounds
        ("ellipsoid123-rot", {"cls": "Ellipsoid", "r": [1.0, 2.0, 3.0],
                              "center": [1.0, -2.0, 3.0],
                              "rotation": [0.3, 0.9, 0.4]}),
        ("ellipsoid311-rot", {"cls": "Ellipsoid", "r": [3.0, 1.0, 1.0],
                              "center": [0, 0, 0],
                              "rotation": [0.0, 1.5707963267948966, 0.0]}),
    ]
    for name, spec in prim:
        for k in ks:
            out.append({"id": "voxel:%s:k=%d" % (name, k), "kind": "voxel",
                        "spec": spec, "k": k})
    if tier == "thorough":
        out.append({"id": "voxel:sphere-unit:k=64", "kind": "voxel",
                    "spec": prim[0][1], "k": 64})
    # grids of more than 2**16 and 2**17 voxels (one query of that many
    # points), also in the quick tier
    for name, spec in (prim[0], prim[-2]):
        for k in (24, 30):
            out.append({"id": "voxel:%s:k=%d" % (name, k), "kind": "voxel",
                        "spec": spec, "k": k})
    out.append({"id": "voxel:csg:Difference:A,B:k=24", "kind": "voxelcsg",
                "op": "Difference", "a": "A", "b": "B", "k": 24})
    for op in CSG_OPS:
        for a, b in itertools.product("ABCD", repeat=2):
            for k in ([8] if tier == "quick" else [8, 16]):
                out.append({"id": "voxel:csg:%s:%s,%s:k=%d" % (op, a, b, k),
                            "kind": "voxelcsg", "op": op, "a": a, "b": b,
                            "k": k})
    return out


def cases(tier, seed):
    return _cases(tier, seed) + [{"id": "translate:ndarray-centres",
                                  "kind": "alias"},
                                 {"id": "integer-typed-geometry",
                                  "kind": "inttypes"}]


def _cases(tier, seed):
    out = []
    for name, spec in _shape_specs(tier):
        out.append({"id": "shape:" + name, "kind": "shape", "spec": spec})
    for op in CSG_OPS:
        for a, b in itertools.product("ABCDE", repeat=2):
            out.append({"id": "csg:%s:%s,%s" % (op, a, b), "kind": "csg",
                        "op": op, "a": a, "b": b})
            for it in range(len(TRANS)):
                out.append({"id": "csg:%s:%s,%s:t=%d" % (op, a, b, it),
                            "kind": "csgtr", "op": op, "a": a, "b": b,
                            "t": it})
    for op in CSG_OPS:
        out.append({"id": "csg-layered:%s" % op, "kind": "csglayered",
                    "op": op})
    for cls in ("Scatterers", "Spheres"):
        for mem in (["A", "C"], ["A", "B", "C"], ["C", "D", "A", "B"],
                    ["E", "C"], ["A", ["C", "D"]]):
            flat = _flatten(mem)
            if cls == "Spheres" and ("E" in flat or len(flat) != len(mem)):
                continue
            for it in range(len(TRANS)):
                out.append({"id": "composite:%s:%s:t=%d" %
                            (cls, _memname(mem), it), "kind": "composite",
                            "cls": cls, "members": mem, "t": it})
    out.extend(_voxel_specs(tier))
    for pname in ("P", "Q"):
        n = len(PLACEMENTS[pname])
        if tier == "quick":
            maxperm = 3 if pname == "P" else 2
        else:
            maxperm = 5 if pname == "P" else 4
        for k in range(1, n + 1):
            for sub in itertools.combinations(range(n), k):
                out.append({"id": "coll:%s:%s" % (pname,
                                                  "".join(map(str, sub))),
                            "kind": "coll", "placement": pname,
                            "members": list(sub),
                            "perms": bool(k <= maxperm)})
    for i, (name, _) in enumerate(_invalid_inputs()):
        out.append({"id": "invalid:" + name, "kind": "invalid", "i": i})
    return out


def _flatten(mem):
    out = []
    for m in mem:
        if isinstance(m, list):
            out.extend(_flatten(m))
        else:
            out.append(m)
    return out


def _memname(mem):
    return "".join("(%s)" % _memname(m) if isinstance(m, list) else m
                   for m in mem)


# --------------------------------------------------------------------------
# building the real objects and the reference models
# --------------------------------------------------------------------------
def _layer_n(k):
    return list(NIDX[:k])


def _build(spec, n_override=None):
    from holopy.scattering.scatterer import Sphere, LayeredSphere, Ellipsoid
    c = tuple(spec["center"])
    if spec["cls"] == "Sphere":
        if spec["layers"] == 0:
            return Sphere(n=n_override or NIDX[0], r=spec["r"][0], center=c)
        return Sphere(n=_layer_n(spec["layers"]), r=list(spec["r"]), center=c)
    if spec["cls"] == "LayeredSphere":
        return LayeredSphere(n=_layer_n(spec["layers"]), t=list(spec["t"]),
                             center=c)
    if spec["cls"] == "Ellipsoid":
        kw = {}
        if "rotation" in spec:
            kw["rotation"] = tuple(spec["rotation"])
        return Ellipsoid(n=n_override or NIDX[0], r=tuple(spec["r"]),
                         center=c, **kw)
    raise ValueError(spec["cls"])


def _model(spec, n_override=None):
    """reference description: centre, one semi-axis triple per nested
    surface (innermost first), one index per surface."""
    c = np.array(spec["center"], dtype=float)
    if spec["cls"] == "Ellipsoid":
        return {"c": c, "surf": [tuple(float(x) for x in spec["r"])],
                "n": [n_override or NIDX[0]]}
    if spec["cls"] == "LayeredSphere":
        radii, acc = [], 0.0
        for j, t in enumerate(spec["t"]):
            acc = float(t) if j == 0 else acc + float(t)
            radii.append(acc)
    else:
        radii = [float(x) for x in spec["r"]]
    if spec["layers"] == 0:
        ns = [n_override or NIDX[0]]
    else:
        ns = _layer_n(spec["layers"])
    return {"c": c, "surf": [(r, r, r) for r in radii], "n": ns}


def _shifted(model, t):
    m = dict(model)
    m["c"] = model["c"] + np.array(t, dtype=float)
    # exact centre for the oracle (long double keeps 1e3 + 10 etc. exact)
    m["c_ld"] = np.asarray(model["c"], dtype=LD) + np.asarray(t, dtype=LD)
    m["c_fr"] = [Fraction(float(a)) + Fraction(float(b))
                 for a, b in zip(model["c"], t)]
    return m


_LD_OK = np.finfo(LD).eps < 1e-18


def _margins(model, pts):
    """(nsurf, N) array of sum(((p - c)/a)^2) - 1, evaluated far more
    precisely than double rounding of the implementation."""
    pts = np.asarray(pts, dtype=float).reshape(-1, 3)
    c = model.get("c_ld", model["c"])
    if _LD_OK:
        P = pts.astype(LD) - np.asarray(c, dtype=LD)
        return np.array([((P / np.asarray(ax, dtype=LD)) ** 2).sum(-1) - 1
                         for ax in model["surf"]], dtype=LD)
    out = np.empty((len(model["surf"]), len(pts)))
    cf = model.get("c_fr") or [Fraction(float(x)) for x in
                               np.asarray(model["c"], dtype=float)]
    for i, ax in enumerate(model["surf"]):
        af = [Fraction(a) for a in ax]
        for j, p in enumerate(pts):
            out[i, j] = float(sum(((Fraction(float(p[k])) - cf[k]) / af[k])
                                  ** 2 for k in range(3)) - 1)
    return out


def _threshold(model, pts):
    pts = np.asarray(pts, dtype=float)
    scale = max(float(np.abs(pts).max()) if pts.size else 0.0,
                float(np.abs(model["c"]).max()), 1e-300)
    rmin = min(min(ax) for ax in model["surf"])
    return 1e-12 + 4.0 * float(np.spacing(scale)) / rmin


def _oracle(model, pts):
    """-> (domain int array, decided bool array).  domain = 1 + index of the
    first (innermost) surface the point is strictly inside, 0 outside."""
    m = _margins(model, pts)
    thr = _threshold(model, pts)
    decided = (np.abs(m) > thr).all(0)
    dom = np.zeros(m.shape[1], dtype=int)
    for i in reversed(range(m.shape[0])):
        dom[np.asarray(m[i] < 0)] = i + 1
    return dom, np.asarray(decided)


def _index_oracle(model, dom, background):
    ns = model["n"]
    bg = 0 if background is None else background
    out = np.full(dom.shape, complex(bg))
    for i, n in enumerate(ns):
        out[dom == i + 1] = complex(n)
    return out


# --------------------------------------------------------------------------
# probe points
# --------------------------------------------------------------------------
def _dirs26():
    d = [np.array(v, dtype=float)
         for v in itertools.product((-1, 0, 1), repeat=3) if any(v)]
    return np.array([v / math.sqrt(float((v * v).sum())) for v in d])


DIRS = _dirs26()


def _halton(n):
    out = np.empty((n, 3))
    for k, base in enumerate((2, 3, 5)):
        for i in range(n):
            f, r, j = 1.0, 0.0, i + 1
            while j > 0:
                f /= base
                r += f * (j % base)
                j //= base
            out[i, k] = r
    return out


HALTON = _halton(256)
LATT = np.array(list(itertools.product(np.linspace(-1, 1, 9), repeat=3)))


def _box_points(lo, hi):
    lo = np.asarray(lo, dtype=float)
    hi = np.asarray(hi, dtype=float)
    mid, half = (lo + hi) / 2, (hi - lo) / 2
    return np.concatenate([mid + 1.5 * half * LATT,
                           mid + 1.5 * half * (2 * HALTON - 1)])


def _near_points(model):
    out = []
    for ax in model["surf"]:
        a = np.asarray(ax, dtype=float)
        for s in (1 - EPS_SURF, 1 + EPS_SURF):
            out.append(model["c"] + s * a * DIRS)
    return np.concatenate(out)


def _model_box(model):
    a = np.max(np.array(model["surf"], dtype=float), axis=0)
    return model["c"] - a, model["c"] + a


def _shape_points(model):
    lo, hi = _model_box(model)
    near = _near_points(model)
    return np.concatenate([_box_points(lo, hi), near,
                           model["c"][None, :]]), len(near)


# --------------------------------------------------------------------------
# shape cases
# --------------------------------------------------------------------------
def _first_bad(mask, pts):
    i = int(np.argmax(mask))
    return np.asarray(pts).reshape(-1, 3)[i].tolist()


def _compare_object(ck, obj, model, pts, tag, prefix="", index=True,
                    contains_name=None):
    """contains / in_domain / index_at of `obj` against the oracle at the
    decided points.  Returns (observed domains, oracle domains, decided)."""
    dom_e, dec = _oracle(model, pts)
    dom_o = np.asarray(obj.in_domain(pts))
    con_o = np.asarray(obj.contains(pts))
    ck.trans += 2
    ck.metric("undecided-fraction", 1.0 - dec.mean())
    ok_shape = dom_o.shape == (len(pts),) and con_o.shape == (len(pts),)
    ck.true(prefix + "result-shape", ok_shape,
            "%s: in_domain/contains of %d points returned shapes %r / %r" %
            (tag, len(pts), dom_o.shape, con_o.shape))
    if not ok_shape:
        return dom_o, dom_e, dec
    bad = dec & ((con_o != 0) != (dom_e > 0))
    ck.true(contains_name or (prefix + "contains"), not bad.any(),
            "%s: contains() disagrees with the analytic inequality at %d of "
            "%d decided points, first %r (oracle domain %s, contains %s)" %
            (tag, bad.sum(), dec.sum(), _first_bad(bad, pts),
             dom_e[int(np.argmax(bad))], con_o[int(np.argmax(bad))]))
    bad = dec & (dom_o.astype(int) != dom_e)
    ck.true(prefix + "in-domain", not bad.any(),
            "%s: in_domain() reports the wrong layer at %d decided points, "
            "first %r (observed %s, analytic %s)" %
            (tag, bad.sum(), _first_bad(bad, pts),
             dom_o[int(np.argmax(bad))], dom_e[int(np.argmax(bad))]))
    if index:
        for bg in BACKGROUNDS:
            idx_o = np.asarray(obj.index_at(pts) if bg is None
                               else obj.index_at(pts, background=bg))
            ck.trans += 1
            idx_e = _index_oracle(model, dom_e, bg)
            if idx_o.shape != idx_e.shape:
                ck.true(prefix + "index-at", False,
                        "%s: index_at shape %r" % (tag, idx_o.shape))
                continue
            bad = dec & (idx_o.astype(complex) != idx_e)
            ck.true(prefix + "index-at", not bad.any(),
                    "%s: index_at(background=%r) wrong at %d decided points,"
                    " first %r: observed %r, layer's index %r" %
                    (tag, bg, bad.sum(), _first_bad(bad, pts),
                     complex(idx_o[int(np.argmax(bad))]),
                     complex(idx_e[int(np.argmax(bad))])))
    return dom_o, dom_e, dec


def _check_bounds(ck, obj, pts, inside, tag, check):
    """every interior (analytically, decided) point lies in obj.bounds"""
    b = obj.bounds
    ck.trans += 1
    b = np.array([[float(x[0]), float(x[1])] for x in b])
    P = np.asarray(pts)[inside]
    if len(P) == 0:
        return b
    out = ((P < b[:, 0]) | (P > b[:, 1])).any(1)
    ck.true(check, not out.any(),
            "%s: %d interior points lie outside the reported bounds %r, "
            "first %r" % (tag, out.sum(), b.tolist(),
                          P[int(np.argmax(out))].tolist()))
    return b


def _translate(obj, t, form):
    return obj.translated(tuple(t)) if form == 0 else obj.translated(*t)


def _run_shape(case, ck):
    spec = case["spec"]
    obj = _build(spec)
    model = _model(spec)
    pts, nnear = _shape_points(model)
    tag = case["id"]
    dom_o, dom_e, dec = _compare_object(ck, obj, model, pts, tag)
    # the near-surface points must really be decided (vacuity guard)
    near_dec = dec[-nnear - 1:-1]
    ck.metric("near-surface-undecided", 1.0 - near_dec.mean())
    if near_dec.mean() < 0.9:
        raise AssertionError("harness: %d%% of near-surface points undecided"
                             % (100 - 100 * near_dec.mean()))
    b = _check_bounds(ck, obj, pts, dec & (dom_e > 0), tag, "bounds")
    # other spellings of the query: one point, list of lists, grid
    for j in (0, len(pts) // 2, len(pts) - 1, len(pts) - 2):
        one = np.asarray(obj.in_domain(pts[j])).ravel()
        lst = np.asarray(obj.contains([list(map(float, pts[j]))])).ravel()
        ck.trans += 2
        if dec[j]:
            ck.true("single-point", one.shape == (1,) and
                    int(one[0]) == dom_e[j] and bool(lst[0]) == (dom_e[j] > 0),
                    "%s: single point %r -> in_domain %r, analytic %d" %
                    (tag, pts[j].tolist(), one.tolist(), dom_e[j]))
    grid = pts[:720].reshape(8, 9, 10, 3)
    g = np.asarray(obj.in_domain(grid))
    ck.trans += 1
    ck.true("grid-points", g.shape == (8, 9, 10) and not
            (dec[:720] & (g.ravel() != dom_e[:720])).any(),
            "%s: in_domain on an (8,9,10,3) grid differs from the oracle"
            % tag)
    acc = [dom_o.astype(np.int8), np.round(b, 12)]
    # translation
    for it, t in enumerate(TRANS):
        for form in (0, 1):
            new = _translate(obj, t, form)
            ck.trans += 1
            mt = _shifted(model, t)
            q = pts + np.array(t)
            dn, de, dc = _compare_object(
                ck, new, mt, q, "%s translated by %r" % (tag, t),
                prefix="translate-", index=False,
                contains_name="translate-containment")
            both = dec & dc
            bad = both & ((dn > 0) != (dom_o > 0))
            ck.true("translate-containment", not bad.any(),
                    "%s: translated(%r).contains(p+t) != contains(p) at %d "
                    "points, first p=%r" % (tag, t, bad.sum(),
                                            _first_bad(bad, pts)))
            _check_bounds(ck, new, q, dc & (de > 0),
                          "%s translated by %r" % (tag, t),
                          "translate-bounds")
            again = np.asarray(obj.in_domain(pts))
            ck.true("translate-purity", np.array_equal(again, dom_o),
                    "%s: translated() changed the original's containment"
                    % tag)
            acc.append(np.asarray(dn).astype(np.int8))
    return digest(*acc)


# --------------------------------------------------------------------------
# CSG
# --------------------------------------------------------------------------
def _csg_combine(op, i1, i2):
    if op == "Union":
        return i1 | i2
    if op == "Difference":
        return i1 & ~i2
    return i1 & i2


def _csg_points(m1, m2):
    lo1, hi1 = _model_box(m1)
    lo2, hi2 = _model_box(m2)
    return np.concatenate([
        _box_points(lo1, hi1), _box_points(lo2, hi2),
        _box_points(np.minimum(lo1, lo2), np.maximum(hi1, hi2)),
        _near_points(m1), _near_points(m2), m1["c"][None], m2["c"][None]])


def _csg_oracle(op, m1, m2, pts):
    d1, c1 = _oracle(m1, pts)
    d2, c2 = _oracle(m2, pts)
    return _csg_combine(op, d1 > 0, d2 > 0), c1 & c2


def _csg_make(op, s1, s2):
    import holopy.scattering.scatterer as hs
    return getattr(hs, op)(s1, s2)


def _csg_compare(ck, u, op, m1, m2, pts, tag, prefix, name=None):
    ins_e, dec = _csg_oracle(op, m1, m2, pts)
    con = np.asarray(u.contains(pts))
    dom = np.asarray(u.in_domain(pts))
    ck.trans += 2
    ok = con.shape == (len(pts),) and dom.shape == (len(pts),)
    ck.true(prefix + "result-shape", ok, "%s: result shapes %r %r" %
            (tag, con.shape, dom.shape))
    if not ok:
        return None, ins_e, dec
    bad = dec & ((con != 0) != ins_e)
    ck.true(name or (prefix + "contains"), not bad.any(),
            "%s: contains() differs from the boolean combination of the "
            "members' analytic inequalities at %d of %d decided points, "
            "first %r (analytic %s)" %
            (tag, bad.sum(), dec.sum(), _first_bad(bad, pts),
             ins_e[int(np.argmax(bad))]))
    nviol = len(ck.viol)
    bad = dec & ((dom != 0) != ins_e)
    if name and nviol and ck.viol[-1]["check"] == name and \
            np.array_equal(dom != 0, con != 0):
        return con != 0, ins_e, dec          # same finding, already reported
    ck.true(name or (prefix + "in-domain"), not bad.any(),
            "%s: in_domain() differs from the analytic set at %d points, "
            "first %r" % (tag, bad.sum(), _first_bad(bad, pts)))
    return con != 0, ins_e, dec


def _run_csg(case, ck):
    op, a, b = case["op"], case["a"], case["b"]
    sa, sb = CSG_PRIMS[a], CSG_PRIMS[b]
    m1, m2 = _model(sa, CSG_N), _model(sb, CSG_N)
    tag = case["id"]
    try:
        u = _csg_make(op, _build(sa, CSG_N), _build(sb, CSG_N))
        ck.trans += 1
    except Exception as e:
        from holopy.scattering.errors import InvalidScatterer
        if isinstance(e, InvalidScatterer):
            return None, "refused"
        ck.true("csg-construct", False,
                "%s(%s, %s) of two single-domain primitives with equal index "
                "cannot be built: %s: %s" % (op, a, b, type(e).__name__, e))
        return "construct-failed", "ok"
    pts = _csg_points(m1, m2)
    con, ins_e, dec = _csg_compare(ck, u, op, m1, m2, pts, tag, "csg-")
    for bg in BACKGROUNDS:
        idx = np.asarray(u.index_at(pts) if bg is None
                         else u.index_at(pts, background=bg))
        ck.trans += 1
        exp = np.where(ins_e, complex(CSG_N),
                       complex(0 if bg is None else bg))
        bad = dec & (idx.astype(complex) != exp) if idx.shape == exp.shape \
            else np.ones(len(pts), bool)
        ck.true("csg-index-at", not bad.any(),
                "%s: index_at(background=%r) wrong at %d points, first %r" %
                (tag, bg, bad.sum(), _first_bad(bad, pts)))
    bnd = _check_bounds(ck, u, pts, dec & ins_e, tag, "csg-bounds")
    return digest(None if con is None else con.astype(np.int8),
                  np.round(bnd, 12)), "ok"


def _run_csgtr(case, ck):
    op, a, b = case["op"], case["a"], case["b"]
    t = TRANS[case["t"]]
    sa, sb = CSG_PRIMS[a], CSG_PRIMS[b]
    m1, m2 = _model(sa, CSG_N), _model(sb, CSG_N)
    tag = case["id"]
    try:
        u = _csg_make(op, _build(sa, CSG_N), _build(sb, CSG_N))
        ck.trans += 1
    except Exception:
        # reported once, by the case "csg:<op>:<a>,<b>"
        return None, "blocked-by-construct"
    pts = _csg_points(m1, m2)
    before = np.asarray(u.contains(pts))
    acc = []
    for form in (0, 1):
        new = _translate(u, t, form)
        ck.trans += 1
        q = pts + np.array(t)
        mt1, mt2 = _shifted(m1, t), _shifted(m2, t)
        ins_e, dec = _csg_oracle(op, mt1, mt2, q)
        _, dec0 = _csg_oracle(op, m1, m2, pts)
        con = np.asarray(new.contains(q)) != 0
        ck.trans += 1
        bad = dec & dec0 & (con != (before != 0))
        same = ck.true(
            "translate-containment", not bad.any(),
            "%s(%s,%s).translated(%r).contains(p+t) != contains(p) at %d of "
            "%d decided points, first p=%r (p in the set: %s, p+t in the "
            "translated set: %s)" %
            (op, a, b, t, bad.sum(), (dec & dec0).sum(),
             _first_bad(bad, pts), bool(before[int(np.argmax(bad))]),
             bool(con[int(np.argmax(bad))])))
        if same:
            # also against the analytic region around the shifted centres
            _csg_compare(ck, new, op, mt1, mt2, q,
                         "%s(%s,%s).translated(%r)" % (op, a, b, t),
                         "translate-", name="translate-containment")
        acc.append(con.astype(np.int8))
        bnd = _check_bounds(ck, new, q, dec & ins_e,
                            "%s(%s,%s).translated(%r)" % (op, a, b, t),
                            "translate-bounds")
        acc.append(np.round(bnd, 12))
        after = np.asarray(u.contains(pts))
        ck.true("translate-purity", np.array_equal(before, after),
                "%s: translated() changed the original's containment" % tag)
        if ck.viol:
            break               # the second call form would repeat the report
    return digest(*acc), "ok"


def _run_csglayered(case, ck):
    """a multi-domain member: the class refuses it explicitly; if a future
    version accepts it the region must still be the boolean combination."""
    from holopy.scattering.errors import InvalidScatterer
    op = case["op"]
    sl = {"cls": "Sphere", "layers": 2, "r": [0.5, 1.0], "center": [0, 0, 0]}
    sb = CSG_PRIMS["B"]
    try:
        u = _csg_make(op, _build(sl), _build(sb, CSG_N))
        ck.trans += 1
    except InvalidScatterer:
        return "refused", "refused"
    except Exception as e:
        return "error:" + type(e).__name__, "refused"
    m1, m2 = _model(sl), _model(sb, CSG_N)
    pts = _csg_points(m1, m2)
    con, _, _ = _csg_compare(ck, u, op, m1, m2, pts, case["id"], "csg-")
    return digest(con), "ok"


# --------------------------------------------------------------------------
# composites under translation
# --------------------------------------------------------------------------
def _build_members(mem, cls):
    import holopy.scattering.scatterer as hs
    out = []
    for m in mem:
        if isinstance(m, list):
            out.append(hs.Scatterers(_build_members(m, "Scatterers")))
        else:
            out.append(_build(CSG_PRIMS[m], CSG_N))
    return out


def _run_composite(case, ck):
    import holopy.scattering.scatterer as hs
    t = TRANS[case["t"]]
    flat = _flatten(case["members"])
    models = [_model(CSG_PRIMS[m], CSG_N) for m in flat]
    with warnings.catch_warnings():
        warnings.simplefilter("ignore")
        comp = getattr(hs, case["cls"])(_build_members(case["members"],
                                                       case["cls"]))
    ck.trans += 1
    pts = np.concatenate([np.concatenate([_box_points(*_model_box(m)),
                                          _near_points(m)]) for m in models])

    def oracle(ms, P):
        ins = np.zeros(len(P), bool)
        dec = np.ones(len(P), bool)
        for m in ms:
            d, c = _oracle(m, P)
            ins |= d > 0
            dec &= c
        return ins, dec

    ins0, dec0 = oracle(models, pts)
    con0 = np.asarray(comp.contains(pts)) != 0
    ck.trans += 1
    bad = dec0 & (con0 != ins0)
    ck.true("composite-contains", not bad.any(),
            "%s: contains() differs from the union of the members' analytic "
            "regions at %d points, first %r" %
            (case["id"], bad.sum(), _first_bad(bad, pts)))
    acc = [con0.astype(np.int8)]
    for form in (0, 1):
        with warnings.catch_warnings():
            warnings.simplefilter("ignore")
            new = _translate(comp, t, form)
        ck.trans += 1
        q = pts + np.array(t)
        ins1, dec1 = oracle([_shifted(m, t) for m in models], q)
        con1 = np.asarray(new.contains(q)) != 0
        ck.trans += 1
        bad = dec1 & (con1 != ins1)
        ck.true("translate-containment", not bad.any(),
                "%s: translated(%r) region is not the shifted union at %d "
                "points, first %r" % (case["id"], t, bad.sum(),
                                      _first_bad(bad, q)))
        bad = dec0 & dec1 & (con1 != con0)
        ck.true("translate-containment", not bad.any(),
                "%s: translated(%r).contains(p+t) != contains(p) at %d "
                "points, first p=%r" % (case["id"], t, bad.sum(),
                                        _first_bad(bad, pts)))
        ck.true("translate-purity",
                np.array_equal(np.asarray(comp.contains(pts)) != 0, con0),
                "%s: translated() changed the original" % case["id"])
        acc.append(con1.astype(np.int8))
    return digest(*acc)


# --------------------------------------------------------------------------
# voxelisation
# --------------------------------------------------------------------------
def _ellipsoid_area_upper(a, b, c):
    p = 1.6075                      # Thomsen's formula, rel. error < 1.1 %
    s = 4 * math.pi * (((a * b) ** p + (a * c) ** p + (b * c) ** p) / 3) ** \
        (1 / p)
    return 1.02 * s


def _vol_bound(h, S, V):
    return 1.5 * math.sqrt(3.0) * h * S / V


def _run_voxel(case, ck):
    spec, k = case["spec"], case["k"]
    obj = _build(spec)
    model = _model(spec)
    rmin = min(min(ax) for ax in model["surf"])
    h = rmin / k
    vox = np.asarray(obj.voxelate(h))
    dom = np.asarray(obj.voxelate_domains(h))
    ck.trans += 2
    ck.true("voxel-shape", vox.ndim == 3 and vox.shape == dom.shape,
            "%s: voxelate shape %r, voxelate_domains shape %r" %
            (case["id"], vox.shape, dom.shape))
    cell = h ** 3
    acc = []
    if "rotation" not in spec and vox.ndim == 3 and vox.shape == dom.shape:
        # every voxel against the analytic inequality at its own position
        # (the grid starts at the lower bounds and has pitch h)
        grid = np.mgrid[[slice(b[0], b[1], h) for b in obj.bounds]]
        pts = np.stack([g.ravel() for g in grid], -1)
        if pts.shape[0] == dom.size:
            want, decided = _oracle(model, pts)
            bad = np.flatnonzero((np.asarray(dom).ravel() != want) & decided)
            ck.true("voxel-domains", bad.size == 0, "%s: %d of %d voxels "
                    "are in another domain than the analytic inequality "
                    "says, first voxel %r at %r: %r, analytic %r" %
                    (case["id"], bad.size, dom.size,
                     int(bad[0]) if bad.size else None,
                     pts[bad[0]].tolist() if bad.size else None,
                     int(np.asarray(dom).ravel()[bad[0]]) if bad.size
                     else None, int(want[bad[0]]) if bad.size else None))
    prev_v, prev_s = 0.0, 0.0
    for i, (ax, n) in enumerate(zip(model["surf"], model["n"])):
        v_out = 4 / 3 * math.pi * ax[0] * ax[1] * ax[2]
        s_out = (4 * math.pi * ax[0] ** 2 if ax[0] == ax[1] == ax[2]
                 else _ellipsoid_area_upper(*ax))
        V = v_out - prev_v
        S = s_out + prev_s
        prev_v, prev_s = v_out, s_out
        cnt = int((vox == n).sum())
        cnt_d = int((dom == i + 1).sum())
        got = cnt * cell
        err = abs(got - V) / V
        ck.metric("voxel-volume-relerr/bound", err / _vol_bound(h, S, V))
        ck.metric("voxel-volume-relerr:k=%d" % k, err)
        ck.true("voxel-volume", err <= _vol_bound(h, S, V),
                "%s: layer %d voxel volume %.6g vs analytic %.6g (rel. error"
                " %.3g > bound %.3g at h = r/%d)" %
                (case["id"], i + 1, got, V, err, _vol_bound(h, S, V), k))
        ck.true("voxel-index-vs-domain", cnt == cnt_d,
                "%s: %d voxels carry index %r but %d voxels are in domain %d"
                % (case["id"], cnt, n, cnt_d, i + 1))
        acc.append(cnt)
    if "rotation" in spec:
        rmax = max(max(ax) for ax in model["surf"])
        g = np.linspace(-rmax, rmax, 25)
        pts = np.stack(np.meshgrid(g, g, g, indexing="ij"), -1).reshape(
            -1, 3) + model["c"]
        ins = np.asarray(obj.contains(pts)).ravel() != 0
        ck.trans += 1
        _check_bounds(ck, obj, pts, ins, case["id"], "bounds")
    known = np.zeros(vox.shape, bool)
    for n in model["n"]:
        known |= vox == n
    ck.true("voxel-background", bool(np.all(vox[~known] == 0)),
            "%s: voxels that carry neither a layer index nor the background"
            % case["id"])
    return digest(acc, vox.shape)


def _lens_volume(r1, r2, d):
    if d >= r1 + r2:
        return 0.0
    if d <= abs(r1 - r2):
        return 4 / 3 * math.pi * min(r1, r2) ** 3
    return (math.pi * (r1 + r2 - d) ** 2 *
            (d * d + 2 * d * (r1 + r2) - 3 * (r1 - r2) ** 2) / (12 * d))


def _run_voxelcsg(case, ck):
    op, a, b, k = case["op"], case["a"], case["b"], case["k"]
    sa, sb = CSG_PRIMS[a], CSG_PRIMS[b]
    u = _csg_make(op, _build(sa, CSG_N), _build(sb, CSG_N))
    r1, r2 = sa["r"][0], sb["r"][0]
    d = math.dist(sa["center"], sb["center"])
    v1, v2 = 4 / 3 * math.pi * r1 ** 3, 4 / 3 * math.pi * r2 ** 3
    vi = _lens_volume(r1, r2, d)
    V = {"Union": v1 + v2 - vi, "Difference": v1 - vi,
         "Intersection": vi}[op]
    S = 4 * math.pi * (r1 ** 2 + r2 ** 2)
    h = min(r1, r2) / k
    vox = np.asarray(u.voxelate(h))
    ck.trans += 1
    cnt = int((vox != 0).sum())
    got = cnt * h ** 3
    if V <= 1e-12:
        ck.true("voxel-volume", cnt == 0,
                "%s: analytically empty set has %d voxels" % (case["id"],
                                                              cnt))
    else:
        err = abs(got - V) / V
        ck.metric("voxel-volume-relerr/bound", err / _vol_bound(h, S, V))
        ck.true("voxel-volume", err <= _vol_bound(h, S, V),
                "%s: voxel volume %.6g vs analytic %.6g (rel. error %.3g > "
                "bound %.3g at h = rmin/%d)" %
                (case["id"], got, V, err, _vol_bound(h, S, V), k))
    ck.true("voxel-index", bool(np.all((vox == 0) | (vox == CSG_N))),
            "%s: voxel values other than 0 and the index" % case["id"])
    return digest(cnt, vox.shape)


# --------------------------------------------------------------------------
# sphere collections
# --------------------------------------------------------------------------
def _member(spec, idx):
    from holopy.scattering.scatterer import Sphere, LayeredSphere
    n_list = [1.45, 1.59, 1.7]
    c = spec["c"]
    if "t" in spec:
        return LayeredSphere(n=n_list[:len(spec["t"])], t=list(spec["t"]),
                             center=c)
    r = spec["r"]
    if isinstance(r, list):
        return Sphere(n=n_list[:len(r)], r=list(r), center=c)
    return Sphere(n=1.5 + 0.01 * idx, r=r, center=c)


def _outer(spec):
    if "t" in spec:
        acc = 0.0
        for j, t in enumerate(spec["t"]):
            acc = float(t) if j == 0 else acc + float(t)
        return acc
    r = spec["r"]
    return float(max(r)) if isinstance(r, list) else float(r)


def _pair_gap(si, sj):
    """exact sign of (r_i + r_j - |c_i - c_j|) and a float value of it.
    -> (sign, gap, decided)"""
    ri, rj = Fraction(_outer(si)), Fraction(_outer(sj))
    d2 = sum((Fraction(float(a)) - Fraction(float(b))) ** 2
             for a, b in zip(si["c"], sj["c"]))
    R = ri + rj
    sign = (R * R > d2) - (R * R < d2)
    dflt = math.sqrt(float(d2))
    gap = float(R) - dflt
    if sign == 0:
        # exactly touching: decided only when double arithmetic is exact here
        decided = (Fraction(dflt) ** 2 == d2 and Fraction(float(R)) == R and
                   all(Fraction(float(a)) - Fraction(float(b)) ==
                       Fraction(float(a) - float(b))
                       for a, b in zip(si["c"], sj["c"])))
    else:
        decided = abs(gap) > 1e-12 * float(R)
    return sign, gap, decided


def _run_coll(case, ck):
    from holopy.scattering.scatterer import Spheres
    from holopy.scattering.errors import OverlapWarning
    from holopy.inference.model import LimitOverlaps
    place = PLACEMENTS[case["placement"]]
    base = case["members"]
    orders = (list(itertools.permutations(base)) if case["perms"]
              else [tuple(base)])
    acc = []
    for order in orders:
        specs = [place[i] for i in order]
        n = len(specs)
        exp_pairs, undecided, gaps = set(), set(), []
        touching = False
        for i in range(n):
            for j in range(i + 1, n):
                sign, gap, dec = _pair_gap(specs[i], specs[j])
                gaps.append(gap)
                if not dec:
                    undecided.add((i, j))
                elif sign > 0:
                    exp_pairs.add((i, j))
                elif sign == 0:
                    touching = True
        ck.metric("undecided-pairs", len(undecided))
        tag = "Spheres(%s%r)" % (case["placement"], list(order))
        for warn in (True, False):
            members = [_member(place[i], i) for i in order]
            with warnings.catch_warnings(record=True) as rec:
                warnings.simplefilter("always")
                sc = Spheres(members, warn=warn)
            ck.trans += 1
            nwarn = sum(1 for w in rec
                        if issubclass(w.category, OverlapWarning))
            ov = list(sc.overlaps)
            lo = float(sc.largest_overlap())
            ck.trans += 2
            got = {tuple(sorted((int(p[0]), int(p[1])))) for p in ov}
            ck.true("overlaps-no-duplicates", len(got) == len(ov),
                    "%s: overlaps lists a pair twice: %r" % (tag, ov))
            ck.true("overlaps", got - undecided == exp_pairs - undecided,
                    "%s: overlaps %r, pairs closer than the sum of outer "
                    "radii %r" % (tag, sorted(got), sorted(exp_pairs)))
            if not undecided:
                if exp_pairs and warn:
                    ck.true("overlap-warning", nwarn >= 1,
                            "%s warn=True with overlaps %r issued no "
                            "OverlapWarning" % (tag, sorted(exp_pairs)))
                else:
                    ck.true("overlap-warning", nwarn == 0,
                            "%s warn=%r, analytic overlaps %r: %d "
                            "OverlapWarning(s) issued" %
                            (tag, warn, sorted(exp_pairs), nwarn))
            scale = max([1e-300] + [abs(g) for g in gaps] +
                        [_outer(s) for s in specs])
            if gaps:
                mx = max(gaps)
                if exp_pairs or touching or mx >= 0:
                    e = abs(lo - mx) / scale
                    ck.metric("largest-overlap", e)
                    ck.true("largest-overlap", e <= 1e-13,
                            "%s: largest_overlap() = %r, max(sum of radii - "
                            "distance) = %r" % (tag, lo, mx))
                else:
                    e = min(abs(lo), abs(lo - mx)) / scale
                    ck.metric("largest-overlap", e)
                    ck.true("largest-overlap-separated", e <= 1e-13,
                            "%s: all pairs separated; largest_overlap() = %r"
                            " is neither 0 nor the maximum %r" % (tag, lo, mx))
            else:
                ck.true("largest-overlap-single", lo == 0,
                        "%s: one sphere, largest_overlap() = %r" % (tag, lo))
            # the consumer of largest_overlap
            if all("t" not in s and not isinstance(s["r"], list)
                   for s in specs):
                rmin = min(_outer(s) for s in specs)
                true_lo = max([0.0] + gaps)
                for f in FRACTIONS:
                    res = LimitOverlaps(f).check(sc)
                    ck.trans += 1
                    lim = 2 * rmin * f
                    if abs(true_lo - lim) <= 1e-12 * scale and not \
                            (true_lo == 0 and lim == 0 and not undecided):
                        # a tie is decided only when it is the exact one
                        # "no positive overlap allowed, none present"
                        continue
                    ck.true("limit-overlaps", bool(res) == (true_lo <= lim),
                            "%s: LimitOverlaps(%r).check = %r but largest "
                            "overlap %r vs limit %r" %
                            (tag, f, bool(res), true_lo, lim))
            acc.append((sorted(got), round(lo, 12), nwarn))
        # the same collection grown with add()
        members = [_member(place[i], i) for i in order]
        with warnings.catch_warnings():
            warnings.simplefilter("ignore")
            sc = Spheres([members[0]], warn=False)
            for m in members[1:]:
                sc.add(m)
            ov = {tuple(sorted((int(p[0]), int(p[1])))) for p in sc.overlaps}
        ck.trans += n + 1
        ck.true("overlaps-after-add", ov - undecided == exp_pairs - undecided,
                "%s built with add(): overlaps %r, analytic %r" %
                (tag, sorted(ov), sorted(exp_pairs)))
    return digest(acc)


# --------------------------------------------------------------------------
# invalid inputs
# --------------------------------------------------------------------------
def _invalid_inputs():
    """(name, (what, kwargs))"""
    out = []
    for name, r in (("r=-1", -1), ("r=-1.0", -1.0), ("r=[1,-1]", [1, -1]),
                    ("r=[-0.5,1]", [-0.5, 1.0]), ("r=-1e-300", -1e-300),
                    ("r=[0.5,1,-1.5,2]", [0.5, 1.0, -1.5, 2.0])):
        out.append(("sphere:" + name, ("sphere", {"r": r})))
    for name, c in (("c=1.0", 1.0), ("c=(1,2)", (1, 2)),
                    ("c=(1,2,3,4)", (1, 2, 3, 4)), ("c=()", ()),
                    ("c=[1.0]", [1.0]), ("c=0", 0)):
        out.append(("sphere:" + name, ("sphere", {"center": c})))
        out.append(("ellipsoid:" + name, ("ellipsoid", {"center": c})))
    for name in ("Ellipsoid", "Union", "Scatterers", "Spheres", "None",
                 "str", "float", "Spheroid", "Cylinder"):
        for where in ("first", "last", "only"):
            out.append(("member:%s:%s" % (name, where),
                        ("member", {"what": name, "where": where})))
    for name in ("Sphere", "LayeredSphere", "layered-Sphere"):
        out.append(("member-ok:" + name, ("member-ok", {"what": name})))
    # (appended: the case index is part of the case)
    for name, c in (("c=column(3,1)", np.array([[1.0], [2.0], [3.0]])),
                    ("c=array(3,2)", np.ones((3, 2))),
                    ("c=0-d-array", np.array(1.0)),
                    ("c=[[1,2,3]]", [[1.0, 2.0, 3.0]])):
        out.append(("sphere:" + name, ("sphere", {"center": c})))
    for name, kw in (("c=(1,2)", {"center": (1, 2)}),
                     ("c=7.0", {"center": 7.0}),
                     ("c=(1,2,3,4)", {"center": (1, 2, 3, 4)}),
                     ("t=[-0.1,0.2]", {"t": [-0.1, 0.2]}),
                     ("t=[0.3,-0.2]", {"t": [0.3, -0.2]})):
        out.append(("layered:" + name, ("layered", kw)))
    for name, r in (("r=(-1,1,1)", (-1, 1, 1)), ("r=(1,-2,3)", (1, -2, 3)),
                    ("r=(1,2,-1e-300)", (1, 2, -1e-300))):
        out.append(("ellipsoid:" + name, ("ellipsoid", {"r": r})))
    for name, t in (("t=5.0", 5.0), ("t=[1,2]", [1.0, 2.0]),
                    ("t=column(3,1)", np.ones((3, 1))),
                    ("t=[1,2,3,4]", [1.0, 2.0, 3.0, 4.0])):
        out.append(("translate:" + name, ("translate", {"t": t})))
    for name in ("generator", "iter", "map"):
        out.append(("collection-from:" + name, ("iterable", {"how": name})))
    return out


def _odd_member(what):
    import holopy.scattering.scatterer as hs
    s = hs.Sphere(n=1.5, r=0.5, center=(9, 9, 9))
    return {
        "Ellipsoid": lambda: hs.Ellipsoid(n=1.5, r=(1, 2, 3),
                                          center=(9, 9, 9)),
        "Union": lambda: hs.Union(s, hs.Sphere(n=1.5, r=0.5,
                                               center=(9, 9, 9.5))),
        "Scatterers": lambda: hs.Scatterers([s]),
        "Spheres": lambda: hs.Spheres([s]),
        "None": lambda: None,
        "str": lambda: "sphere",
        "float": lambda: 0.5,
        "Spheroid": lambda: hs.Spheroid(n=1.5, r=(0.5, 1.0),
                                        center=(9, 9, 9)),
        "Cylinder": lambda: hs.Cylinder(n=1.5, d=1.0, h=2.0,
                                        center=(9, 9, 9)),
    }[what]()


def _run_invalid(case, ck):
    import holopy.scattering.scatterer as hs
    from holopy.scattering.errors import InvalidScatterer
    name, (kind, kw) = _invalid_inputs()[case["i"]]
    good = hs.Sphere(n=1.5, r=0.5, center=(0, 0, 0))
    obs = []

    def expect_reject(check, fn, what):
        try:
            fn()
        except InvalidScatterer:
            obs.append("InvalidScatterer")
            return
        except Exception as e:       # rejected, though not by the own error
            obs.append(type(e).__name__)
            return
        finally:
            ck.trans += 1
        obs.append("accepted")
        ck.true(check, False, "%s was accepted" % what)

    if kind == "sphere":
        args = {"n": 1.5, "r": 0.5, "center": (0, 0, 0)}
        args.update(kw)
        if isinstance(args["r"], list):
            args["n"] = [1.5, 1.6, 1.7, 1.8][:len(args["r"])]
        expect_reject("reject-negative-radius" if "r" in kw
                      else "reject-malformed-centre",
                      lambda: hs.Sphere(**args), "Sphere(%r)" % (kw,))
    elif kind == "layered":
        args = {"n": [1.5, 1.6], "t": [0.3, 0.2], "center": (0, 0, 0)}
        args.update(kw)
        expect_reject("reject-negative-radius" if "t" in kw
                      else "reject-malformed-centre",
                      lambda: hs.LayeredSphere(**args),
                      "LayeredSphere(%r)" % (kw,))
    elif kind == "translate":
        # a translation that is not a 3-vector: refused, or (never) applied
        # as something else
        for obj in (good, hs.Spheres([good, hs.Sphere(
                n=1.5, r=0.5, center=(3, 0, 0))], warn=False)):
            expect_reject("reject-malformed-translation",
                          lambda: obj.translated(kw["t"]),
                          "%s.translated(%r)" % (type(obj).__name__,
                                                 kw["t"]))
    elif kind == "iterable":
        mem = [hs.Sphere(n=1.5, r=0.5, center=(0, 0, 0)),
               hs.Sphere(n=1.5, r=0.5, center=(0.6, 0, 0)),
               hs.Sphere(n=1.5, r=0.5, center=(5, 0, 0))]
        src = {"generator": lambda: (m for m in mem),
               "iter": lambda: iter(mem),
               "map": lambda: map(lambda m: m, mem)}[kw["how"]]()
        with warnings.catch_warnings(record=True) as w:
            warnings.simplefilter("always")
            sc = hs.Spheres(src)
        ck.trans += 1
        nwarn = sum(1 for x in w if "Overlap" in type(x.message).__name__)
        ck.true("collection-from-iterable", len(sc.scatterers) == 3 and
                list(map(tuple, sc.overlaps)) == [(0, 1)] and nwarn == 1,
                "Spheres(%s of 3 spheres, two of them overlapping): %d "
                "members, overlaps %r, %d overlap warning(s)" %
                (kw["how"], len(sc.scatterers), sc.overlaps, nwarn))
        obs.append("%d:%r:%d" % (len(sc.scatterers), sc.overlaps, nwarn))
    elif kind == "ellipsoid":
        args = {"n": 1.5, "r": (1, 2, 3), "center": (0, 0, 0)}
        args.update(kw)
        expect_reject("reject-negative-radius" if "r" in kw else
                      "reject-malformed-centre",
                      lambda: hs.Ellipsoid(**args), "Ellipsoid(%r)" % (kw,))
    elif kind == "member":
        with warnings.catch_warnings():
            warnings.simplefilter("ignore")
            odd = _odd_member(kw["what"])
            lst = {"first": [odd, good], "last": [good, odd],
                   "only": [odd]}[kw["where"]]
            for warn in (True, False):
                expect_reject("reject-non-sphere-member",
                              lambda: hs.Spheres(list(lst), warn=warn),
                              "Spheres with a %s member (%s)" %
                              (kw["what"], kw["where"]))
            sc = hs.Spheres([good], warn=False)
            expect_reject("reject-non-sphere-add", lambda: sc.add(odd),
                          "Spheres.add(%s)" % kw["what"])
            ck.true("reject-non-sphere-add", len(sc.scatterers) == 1,
                    "a rejected add() still changed the collection")
    else:
        # accepted members: genuine spheres in any spelling
        m = {"Sphere": lambda: hs.Sphere(n=1.5, r=0.5, center=(3, 0, 0)),
             "LayeredSphere": lambda: hs.LayeredSphere(
                 n=[1.5, 1.6], t=[0.2, 0.3], center=(3, 0, 0)),
             "layered-Sphere": lambda: hs.Sphere(
                 n=[1.5, 1.6], r=[0.2, 0.5], center=(3, 0, 0))}[kw["what"]]()
        try:
            sc = hs.Spheres([good, m], warn=True)
            sc.add(m)
            ck.trans += 2
            obs.append("accepted:%d" % len(sc.scatterers))
        except Exception as e:
            ck.true("accept-sphere-member", False,
                    "Spheres refused a %s: %s" % (kw["what"], e))
    return digest(name, obs)


# --------------------------------------------------------------------------
def _run_alias(case, ck):
    """(added by the lead) scatterers whose centre is given as a float
    array: translated() must not move the original, nor earlier results,
    and repeated translations must not accumulate."""
    from holopy.scattering.scatterer import (Sphere, Ellipsoid, Union,
                                             Spheres)
    g = np.linspace(-3.0, 6.0, 10)
    P = np.array([(x, y, z) for x in g for y in g for z in g])
    v = np.array([1.0, -2.0, 3.0])
    acc = []

    def mk(name, c0):
        if name == "sphere":
            return Sphere(n=1.5, r=1.0, center=c0)
        if name == "layered":
            return Sphere(n=[1.5, 1.7], r=[0.6, 1.2], center=c0)
        if name == "ellipsoid":
            return Ellipsoid(n=1.5, r=(1.0, 2.0, 1.5), center=c0)
        if name == "union":
            return Union(Sphere(n=1.5, r=1.0, center=c0),
                         Sphere(n=1.5, r=0.8, center=np.array(
                             [1.2, 0.3, 0.0])))
        with warnings.catch_warnings():
            warnings.simplefilter("ignore")
            return Spheres([Sphere(n=1.5, r=1.0, center=c0),
                            Sphere(n=1.5, r=0.8,
                                   center=np.array([3.0, 0.0, 0.0]))])
    for name in ("sphere", "layered", "ellipsoid", "union", "spheres"):
        c0 = np.array([0.5, 0.25, -0.5])
        keep = c0.copy()
        s = mk(name, c0)
        before = s.contains(P).copy()
        b_before = [tuple(b) for b in s.bounds] \
            if name != "spheres" else None
        t1 = s.translated(v)
        in1 = t1.contains(P).copy()
        t2 = s.translated(*v)
        tt = t1.translated(v)
        ck.trans += 6
        ck.true("translate-original-untouched",
                np.array_equal(s.contains(P), before) and
                np.array_equal(c0, keep) and
                (b_before is None or [tuple(b) for b in s.bounds] ==
                 b_before),
                "%s with an ndarray centre: translated() moved the original "
                "(its region, bounds or the caller's array)" % name)
        ck.true("translate-containment", np.array_equal(
            t1.contains(P + v), before) and np.array_equal(
            t2.contains(P + v), before), "%s: translated region is not the "
            "original region shifted by the vector (repeated call)" % name)
        ck.true("translate-result-not-aliased",
                np.array_equal(t1.contains(P), in1),
                "%s: an earlier translated() result changed after a later "
                "call" % name)
        ck.true("translate-containment", np.array_equal(
            tt.contains(P + 2 * v), before), "%s: chained translation is "
            "not a shift by twice the vector" % name)
        acc.append(before.sum())
    return digest(*acc)


def _run_inttypes(case, ck):
    """radii, centres and query points held as narrow / unsigned integers
    (pixel units): containment, bounds and overlaps are those of the same
    numbers as floats"""
    import holopy.scattering.scatterer as hs
    acc = []
    pts = np.array([[120, 100, 100], [100, 100, 100], [100, 251, 100],
                    [10, 10, 10], [100, 100, 160]])
    for dt in ("int16", "uint8", "uint16", "int32", "float32"):
        c = np.array([100, 100, 100]).astype(dt)
        for mk, name in ((lambda r: hs.Sphere(n=1.5, r=r, center=c),
                          "Sphere"),
                         (lambda r: hs.Sphere(n=[1.5, 1.6],
                                              r=[r // 2 if dt[0] != "f"
                                                 else r / 2, r], center=c),
                          "layered Sphere"),
                         (lambda r: hs.Ellipsoid(n=1.5, r=[r, r, r],
                                                 center=c), "Ellipsoid")):
            r = np.array(60).astype(dt)[()]
            ref = mk(60.0)
            ref.center = (100.0, 100.0, 100.0)
            s = mk(r)
            for pdt in (dt, "float64"):
                got = s.contains(pts.astype(pdt))
                want = ref.contains(pts.astype(float))
                ck.trans += 2
                ck.true("integer-typed-geometry", list(got) == list(want),
                        "%s with radius / centre as %s, points as %s: "
                        "contains = %r, with floats %r" %
                        (name, dt, pdt, list(got), list(want)))
            b, bw = np.asarray(s.bounds, float), np.asarray(ref.bounds, float)
            ck.true("integer-typed-geometry", bool(np.array_equal(b, bw)),
                    "%s with radius / centre as %s: bounds %r, with floats "
                    "%r" % (name, dt, b.tolist(), bw.tolist()))
        for d, r1, r2, want in ((250, 200, 100, [(0, 1)]),
                                (250, 100, 100, [])):
            if dt == "uint8" and d > 255:
                continue
            mem = [hs.Sphere(n=1.5, r=np.array(r1).astype(dt)[()],
                             center=np.array([0, 0, 0]).astype(dt)),
                   hs.Sphere(n=1.5, r=np.array(r2).astype(dt)[()],
                             center=np.array([d, 0, 0]).astype(dt))]
            with warnings.catch_warnings():
                warnings.simplefilter("ignore")
                sc = hs.Spheres(mem, warn=False)
            ck.trans += 1
            got = [tuple(p) for p in sc.overlaps]
            lo = float(sc.largest_overlap())
            ck.true("integer-typed-geometry", got == want and
                    lo == max(0.0, float(r1 + r2 - d)), "spheres of radii "
                    "%d, %d at distance %d, all as %s: overlaps %r "
                    "(expected %r), largest overlap %r" %
                    (r1, r2, d, dt, got, want, lo))
        acc.append(dt)
    # radii held in single / half precision: the surface is where the
    # number the radius stands for puts it (points on both sides of it, in
    # double precision)
    for dt, eps in (("float32", 1e-9), ("float32", 1e-8), ("float16", 1e-6)):
        for rvals in ([0.3], [0.3, 0.5], [5e-3, 0.7]):
            typed = [np.dtype(dt).type(v) for v in rvals]
            exact = [float(v) for v in typed]
            forms = [("scalars", typed if len(typed) > 1 else typed[0]),
                     ("array", np.array(rvals, dtype=dt))]
            for fname, rr in forms:
                n = [1.5, 1.6][:len(exact)] if len(exact) > 1 else 1.5
                if len(exact) == 1 and fname == "array":
                    continue
                s = hs.Sphere(n=n, r=rr, center=(0.0, 0.0, 0.0))
                for k, re in enumerate(exact):
                    for side in (-1, 1):
                        d = re * (1 + side * eps)
                        for axis in range(3):
                            p = np.zeros((1, 3))
                            p[0, axis] = d
                            got = int(np.asarray(s.in_domain(p)).ravel()[0])
                            want = (k + 1) if side < 0 else \
                                (k + 2 if k + 1 < len(exact) else 0)
                            ck.trans += 1
                            ck.true("narrow-float-radii", got == want,
                                    "Sphere with radii %r as %s (%s): a "
                                    "point at %r x (1 %+g) from the centre "
                                    "is in domain %d, analytic %d" %
                                    (rvals, dt, fname, re, side * eps, got,
                                     want))
    return digest(acc)


def run_case(case):
    ck = Checker()
    kind = case["kind"]
    outcome = "ok"
    if kind == "alias":
        return ck.result(fp=_run_alias(case, ck))
    if kind == "inttypes":
        return ck.result(fp=_run_inttypes(case, ck))
    if kind == "shape":
        fp = _run_shape(case, ck)
    elif kind == "csg":
        fp, outcome = _run_csg(case, ck)
    elif kind == "csgtr":
        fp, outcome = _run_csgtr(case, ck)
    elif kind == "csglayered":
        fp, outcome = _run_csglayered(case, ck)
    elif kind == "composite":
        fp = _run_composite(case, ck)
    elif kind == "voxel":
        fp = _run_voxel(case, ck)
    elif kind == "voxelcsg":
        fp = _run_voxelcsg(case, ck)
    elif kind == "coll":
        fp = _run_coll(case, ck)
    elif kind == "invalid":
        fp = _run_invalid(case, ck)
    else:
        raise ValueError(kind)
    return ck.result(fp=fp, outcome=outcome)


def coverage_extra(cases, results):
    kinds = {}
    for c in cases:
        kinds[c["kind"]] = kinds.get(c["kind"], 0) + 1
    orders = 0
    for c in cases:
        if c["kind"] == "coll":
            k = len(c["members"])
            orders += math.factorial(k) if c["perms"] else 1
    return {"cases_by_kind": kinds,
            "probe_points_per_shape": int(len(LATT) + len(HALTON) + 1),
            "near_surface_points_per_surface": int(2 * len(DIRS)),
            "surface_offset": EPS_SURF,
            "collection_orderings": orders,
            "translations": [list(t) for t in TRANS],
            "csg_primitives": CSG_PRIMS,
            "long_double_oracle": bool(_LD_OK)}

"""C08 -- analytic sphere-through-lens theory (MieLens) equals the numerical
lens wrapper Lens(Mie) once the latter is converged.

Deviation-bounded product over (relative index, size parameter, k*z, lens
angle); inside each case: 4 polarization angles x 6 radial x 3 azimuthal
detector positions.  The reference is Lens(Mie) refined along a fixed
quadrature ladder until two rungs agree per point; points where the ladder
does not converge are counted and asserted about nothing.
"""
import itertools
import math
import sys
import types
import warnings

import numpy as np

import hpcases as H
from lib import (Checker, deviations, digest, fork_call, fp_values, pick,
                 vec_id)

PROPERTY = "C08"
RULE = ("all vectors with <= D deviations (D=2 quick, full product thorough)"
        " over relative index [4] x size parameter [5] x k*z [7] x lens "
        "angle [5]; in each: 4 polarization angles x 18 detector positions; "
        "plus option families (aberration spellings, interpolation modes, "
        "window/degree, quadrature orders incl. unequal theta/phi orders, "
        "acceleration-library shim) and dedicated cut-off cases.  "
        "Non-trivial = distinct field fingerprint")
ASSUMPTIONS = ["the reference is HoloPy's own Lens(Mie) (a different code "
               "path: 2-D pupil quadrature of the Fortran Mie amplitudes), "
               "accepted only where two rungs of the refinement ladder "
               "agree",
               "real numexpr is not installed: a shim evaluating the "
               "expression strings with numpy exercises HoloPy's "
               "use_numexpr code path only",
               "alphabet values only"]
TOLERANCES = {"mielens-vs-lens": 1e-5, "quad-refine": 1e-5,
              "aberration-zero": "bit-identical", "interpolation": 1e-8,
              "numexpr-shim": 1e-12, "lens-unequal-orders": 1e-7,
              "ladder-convergence": 1e-8,
              # 40x40-node quadrature of the wrapper vs the analytic theory
              "large-detector-vs-mielens": 1e-3}
TIMEOUT = 900

AXES = {
    # (absorbing spheres last: appended so that earlier case ids stay)
    "m": [1.2, 1.05, 1.5, 2.5, 1.2 + 0.02j, 1.5 + 0.5j],
    "x": [5.0, 0.1, 1.0, 20.0, 50.0],
    "kz": [20.0, -150.0, -20.0, -1.0, 5.0, 50.0, 300.0],
    "ang": [0.8, 0.1, 0.5, 1.0, 1.4],
}
POLANG = [0.0, 30.0, 90.0, 135.0, 200.0, 270.0, 315.0]
POLANG_TIER = {"quick": [30.0, 250.0], "thorough": POLANG}
KRHO = [0.0, 1.0, 10.0, 40.0, 100.0, 200.0]
AZ = [0.0, math.radians(40), math.radians(200)]
LADDER = {"quick": [48, 96, 192, 384], "thorough": [60, 120, 240, 480]}


def cases(tier, seed):
    out = []
    D = 2 if tier == "quick" else len(AXES)
    for vec in deviations({k: list(range(len(v))) for k, v in AXES.items()},
                          D):
        out.append({"id": "vec:" + vec_id(vec), "kind": "vec", "vec": vec,
                    "tier": tier})
    for i in range(4):
        out.append({"id": "aberration-zero#%d" % i, "kind": "ab0", "i": i})
    out.append({"id": "interpolation-modes", "kind": "interp"})
    out.append({"id": "accuracy-options-not-shared", "kind": "accshared"})
    out.append({"id": "lens-orders", "kind": "orders", "tier": tier})
    out.append({"id": "numexpr-shim", "kind": "shim"})
    # detector planes that are not at z = 0
    out.append({"id": "from-parameters", "kind": "fromparams"})
    for zd in (0.7, -0.4):
        out.append({"id": "detector-plane:z=%r" % zd, "kind": "detz",
                    "zd": zd})
    # detectors with more points than fit one block of the wrapper's
    # integrand (36x36, 40x30, 33x31 points)
    for shp in ((36, 36), (40, 30), (33, 31), (25, 41)):
        out.append({"id": "lens-large-detector:%dx%d" % shp,
                    "kind": "largedet", "shape": list(shp)})
    # beyond the large-rho cut-off of the analytic theory (3.9 * quad_npts)
    for kr in (389.9, 390.1, 500.0):
        out.append({"id": "cutoff:krho=%r" % kr, "kind": "cutoff",
                    "krho": kr, "tier": tier, "npts": 100})
    # with a refined pupil quadrature the radial range extends accordingly
    for kr in (389.9, 500.0, 700.0):
        out.append({"id": "cutoff-quad200:krho=%r" % kr, "kind": "cutoff",
                    "krho": kr, "tier": tier, "npts": 200})
    # histories: the same / nearly the same sphere under different lens
    # angles, depths, quadrature orders and theories in one interpreter
    refs = {}
    for name in HOPS:
        st, val = fork_call(_hop, name, timeout=600)
        refs[name] = val if st == "ok" else "FAILED:%s:%r" % (st, val)
    L = 2 if tier == "quick" else 3
    for n in range(1, L + 1):
        for seq in itertools.product(list(HOPS), repeat=n):
            out.append({"id": "hist:" + ">".join(seq), "kind": "history",
                        "seq": list(seq), "ref": {o: refs[o] for o in seq}})
    return out


HOPS = {  # name -> (theory kind, lens angle, m, x, kz, accuracy kwargs)
    "A@0.4": ("mielens", 0.4, 1.2, 5.0, 20.0, {}),
    "A@0.8": ("mielens", 0.8, 1.2, 5.0, 20.0, {}),
    "A@1.2": ("mielens", 1.2, 1.2, 5.0, 20.0, {}),
    "A@0.8-z": ("mielens", 0.8, 1.2, 5.0, 20.5, {}),
    "A@0.8-q150": ("mielens", 0.8, 1.2, 5.0, 20.0, {"quad_npts": 150}),
    "A'@0.8": ("mielens", 0.8, 1.2001, 5.0, 20.0, {}),
    "ab@0.8": ("abmielens", 0.8, 1.2, 5.0, 20.0, {}),
    "lens@0.8": ("lens", 0.8, 1.2, 5.0, 20.0, {}),
}


_TH = {}          # theory objects live as long as the interpreter: a
#                  history that repeats an operation REUSES the object


def _hop(name):
    from holopy.scattering.theory import (MieLens, AberratedMieLens, Lens,
                                          Mie)
    kind, ang, m, x, kz, acc = HOPS[name]
    sph, pts = _setup(m, x, kz)
    det = H.det_points(pts[:9])
    key = (kind, ang, repr(sorted(acc.items())))
    if key not in _TH:
        with warnings.catch_warnings():
            warnings.simplefilter("ignore")
            if kind == "mielens":
                _TH[key] = MieLens(ang, acc)
            elif kind == "abmielens":
                _TH[key] = AberratedMieLens([0.05, 0.01], ang)
            else:
                _TH[key] = Lens(ang, Mie(False, False), 48, 48)
    th = _TH[key]
    before = repr(th)
    out = digest(np.ascontiguousarray(_field(det, sph, th, _pol(30.0))))
    if repr(th) != before:
        out += "|theory-object-changed"
    return out


def _run_history(case, ck):
    outs = []
    for i, name in enumerate(case["seq"]):
        ref = case["ref"][name]
        if str(ref).startswith("FAILED"):
            ck.true("pristine-reference", False, "%s failed in a pristine "
                    "interpreter: %s" % (name, ref))
            return "ref-failed"
        got = _hop(name)
        ck.trans += 1
        ck.true("history-independent", got == ref, "step %d (%s) of %s gives "
                "a different field than the same call in a pristine "
                "interpreter" % (i + 1, name, ">".join(case["seq"])))
        outs.append(got)
    return digest(*outs)


def _setup(m, x, kz):
    from holopy.scattering import Sphere
    z = kz / H.K
    sph = Sphere(n=m * H.NMED, r=x / H.K, center=(0.0, 0.0, z))
    pts = []
    for kr in KRHO:
        for az in AZ:
            r = kr / H.K
            pts.append((r * math.cos(az), r * math.sin(az), 0.0))
    return sph, np.array(pts)


def _pol(a):
    return (math.cos(math.radians(a)), math.sin(math.radians(a)))


def _field(det, sph, theory, pol):
    from holopy.scattering import calc_field
    with warnings.catch_warnings():
        warnings.simplefilter("ignore")
        return calc_field(det, sph, H.NMED, H.WL, pol, theory=theory).values


def _reference(det, sph, ang, pol, ladder, ck):
    """Lens(Mie) along the ladder; returns (field, resolved mask, rung)"""
    from holopy.scattering.theory import Lens, Mie
    prev = None
    for N in ladder:
        with warnings.catch_warnings():
            warnings.simplefilter("ignore")
            th = Lens(ang, Mie(False, False), N, N)
        f = _field(det, sph, th, pol)
        ck.trans += 1
        if prev is not None:
            peak = max(np.abs(f).max(), 1e-300)
            d = np.abs(f - prev).max(axis=1) / peak
            ok = d <= 1e-8
            if ok.all():
                return f, ok, N
        prev = f
    return f, ok, ladder[-1]


def _run_vec(case, ck):
    from holopy.scattering.theory import MieLens
    v = pick(AXES, case["vec"])
    sph, pts = _setup(v["m"], v["x"], v["kz"])
    det = H.det_points(pts)
    fps = []
    unresolved = 0
    for pa in POLANG_TIER[case["tier"]]:
        pol = _pol(pa)
        ref, ok, N = _reference(det, sph, v["ang"], pol,
                                LADDER[case["tier"]], ck)
        unresolved += int((~ok).sum())
        peak = np.abs(ref).max()
        for label, kw in (("default", {}),
                          ("quad200", {"quad_npts": 200})):
            f = _field(det, sph, MieLens(v["ang"], kw), pol)
            ck.trans += 1
            ck.true("finite", np.isfinite(f).all(), "MieLens returned "
                    "non-finite values (%s)" % v)
            if ok.any():
                e = float(np.abs(f - ref)[ok].max() / peak)
                ck.metric("mielens-vs-lens", e)
                ck.true("mielens-vs-lens", e <= 1e-5,
                        "MieLens(%s) differs from the converged Lens(Mie) "
                        "[%dx%d] by %.2e of the peak field (pol %g deg, %s)"
                        % (label, N, N, e, pa, v))
            if label == "default":
                f100 = f
            else:
                e = float(np.abs(f - f100).max() / peak)
                ck.metric("quad-refine", e)
                ck.true("quad-refine", e <= 1e-5,
                        "MieLens changes by %.2e when its quadrature is "
                        "refined from 100 to 200 nodes (pol %g deg, %s)" %
                        (e, pa, v))
        fps.append(fp_values(f100))
    ck.metric("reference-unresolved-points", unresolved)
    ck.true("reference-resolved-somewhere",
            unresolved < len(POLANG_TIER[case["tier"]]) * len(pts),
            "the Lens(Mie) ladder converged at no point at all (%s)" % v)
    return digest(*fps)


def _run_accshared(case, ck):
    """setting an accuracy option on ONE theory object (or on the dictionary
    it was given) must not change other theory objects"""
    from holopy.scattering.theory import MieLens, AberratedMieLens
    sph, pts = _setup(1.2, 5.0, 20.0)
    det = H.det_points(pts[:9])
    fps = []
    for cls, args in ((MieLens, (0.8,)), (AberratedMieLens, (0.0, 0.8))):
        ref = _field(det, sph, cls(*args), _pol(30.0))
        a = cls(*args)
        a.calculator_accuracy_kwargs["quad_npts"] = 37
        ck.trans += 2
        b = cls(*args)
        got = _field(det, sph, b, _pol(30.0))
        ck.true("history-independent", dict(b.calculator_accuracy_kwargs) ==
                {} and bool(np.array_equal(got, ref)), "%s: after an accuracy "
                "option was set on another object, a fresh default theory has "
                "options %r and its field differs by %.2e" %
                (cls.__name__, b.calculator_accuracy_kwargs,
                 float(np.abs(got - ref).max())))
        opts = {"quad_npts": 120}
        c = cls(*args, calculator_accuracy_kwargs=opts) if cls is MieLens \
            else cls(*args, calculator_accuracy_kwargs=opts)
        before = _field(det, sph, c, _pol(30.0))
        opts["quad_npts"] = 41
        after = _field(det, sph, c, _pol(30.0))
        ck.trans += 2
        ck.true("history-independent", bool(np.array_equal(before, after)),
                "%s: changing the caller's options dictionary after "
                "construction changed the theory's field by %.2e" %
                (cls.__name__, float(np.abs(before - after).max())))
        fps.append(fp_values(ref))
    return digest(*fps)


def _run_ab0(case, ck):
    from holopy.scattering.theory import MieLens, AberratedMieLens
    ab = [0.0, [0.0], [0.0, 0.0], [0.0, 0.0, 0.0, 0.0]][case["i"]]
    fps = []
    for m, x, kz, ang in ((1.2, 5.0, 20.0, 0.8), (1.5, 20.0, -20.0, 1.0),
                          (1.05, 1.0, 50.0, 0.5)):
        sph, pts = _setup(m, x, kz)
        det = H.det_points(pts)
        for pa in (0.0, 30.0):
            a = _field(det, sph, AberratedMieLens(ab, ang), _pol(pa))
            b = _field(det, sph, MieLens(ang), _pol(pa))
            ck.trans += 2
            e = float(np.abs(a - b).max() / np.abs(b).max())
            ck.metric("aberration-zero", e)
            ck.true("aberration-zero", e <= 1e-13,
                    "AberratedMieLens(%r) differs from MieLens by %.2e "
                    "(m=%r x=%r kz=%r angle=%r)" % (ab, e, m, x, kz, ang))
            fps.append(fp_values(a))
        # the same with non-default accuracy options of the calculator
        for acc in ({"quad_npts": 200}, {"quad_npts": 60},
                    {"interpolate_integrals": False, "quad_npts": 150}):
            a = _field(det, sph, AberratedMieLens(
                ab, ang, calculator_accuracy_kwargs=acc), _pol(30.0))
            b = _field(det, sph, MieLens(ang, acc), _pol(30.0))
            ck.trans += 2
            e = float(np.abs(a - b).max() / np.abs(b).max())
            ck.metric("aberration-zero", e)
            ck.true("aberration-zero", e <= 1e-13,
                    "AberratedMieLens(%r, accuracy %r) differs from MieLens "
                    "with the same accuracy options by %.2e (m=%r x=%r "
                    "kz=%r angle=%r)" % (ab, acc, e, m, x, kz, ang))
    return digest(*fps)


def _run_detz(case, ck):
    """the detector points sit in a plane z = zd != 0: only the distance
    between particle and plane may matter"""
    from holopy.scattering.theory import MieLens, Lens, Mie
    from holopy.scattering import Sphere
    zd = case["zd"]
    fps = []
    for m, x, kz, ang in ((1.2, 5.0, 20.0, 0.8), (1.5, 20.0, -20.0, 1.0)):
        _, pts = _setup(m, x, kz)
        pts = pts[:12].copy()
        pts[:, 2] = zd
        sph = Sphere(n=m * H.NMED, r=x / H.K, center=(0.0, 0.0,
                                                      kz / H.K + zd))
        det = H.det_points(pts)
        for pa in (0.0, 30.0):
            a = _field(det, sph, MieLens(ang), _pol(pa))
            b = _field(det, sph, Lens(ang, Mie(False, False), 64, 64),
                       _pol(pa))
            ck.trans += 2
            e = float(np.abs(a - b).max() / np.abs(b).max())
            ck.metric("mielens-vs-lens", e)
            ck.true("mielens-vs-lens", e <= TOLERANCES["mielens-vs-lens"],
                    "detector plane at z=%r: MieLens differs from Lens(Mie) "
                    "by %.2e (m=%r x=%r kz=%r angle=%r pol=%g)" %
                    (zd, e, m, x, kz, ang, pa))
            fps.append(fp_values(a))
        # a nearly planar list of points (heights differing by 1e-6 of the
        # distance to the particle): each point as in a call of its own
        tl = pts.copy()
        tl[:, 2] = zd + 1e-5 * np.arange(len(tl)) / len(tl)
        # (MieLens refuses detectors that are not one plane)
        for thname, mk in (("Lens(Mie)", lambda: Lens(ang, Mie(False, False),
                                                     64, 64)),):
            whole = _field(H.det_points(tl), sph, mk(), _pol(30.0))
            ck.trans += 1
            worst = 0.0
            for j in range(0, len(tl), 3):
                one = _field(H.det_points(tl[j:j + 1]), sph, mk(),
                             _pol(30.0))
                ck.trans += 1
                worst = max(worst, float(np.abs(whole[j] - one[0]).max() /
                                         np.abs(whole).max()))
            ck.metric("nearly-planar-pointwise", worst)
            ck.true("nearly-planar-pointwise", worst <= 1e-10, "%s on a "
                    "nearly planar list of points (plane z=%r tilted by 1e-5)"
                    " differs from the same points one at a time by %.2e "
                    "(m=%r x=%r kz=%r)" % (thname, zd, worst, m, x, kz))
    return digest(*fps)


def _run_fromparams(case, ck):
    """theory.from_parameters with another lens angle (what a fit of the
    lens angle calls at every step) is the theory built with that angle"""
    from holopy.scattering.theory import (MieLens, Lens, Mie,
                                          AberratedMieLens)
    from holopy.scattering import Sphere
    _, pts = _setup(1.2, 5.0, 20.0)
    det = H.det_points(pts[:10])
    sph = Sphere(n=1.2 * H.NMED, r=5.0 / H.K, center=(0.0, 0.0, 20.0 / H.K))
    fps = []
    for name, mk in (("Lens(Mie)", lambda a: Lens(a, Mie(False, False),
                                                  48, 48)),
                     ("MieLens", lambda a: MieLens(a)),
                     ("AberratedMieLens", lambda a: AberratedMieLens(
                         [0.1, 0.05], a))):
        for a0, a1 in ((0.6, 1.1), (1.0, 0.35), (0.8, 0.8)):
            try:
                derived = mk(a0).from_parameters({"lens_angle": a1})
            except Exception as e:
                ck.true("from-parameters", False, "%s(%r).from_parameters("
                        "lens_angle=%r) raised %s: %s" %
                        (name, a0, a1, type(e).__name__, e))
                continue
            ck.true("from-parameters-angle", derived.lens_angle == a1,
                    "%s(%r).from_parameters(lens_angle=%r) reports angle %r"
                    % (name, a0, a1, derived.lens_angle))
            f1 = _field(det, sph, derived, _pol(30.0))
            f2 = _field(det, sph, mk(a1), _pol(30.0))
            ck.trans += 2
            e = float(np.abs(f1 - f2).max() / np.abs(f2).max())
            ck.metric("from-parameters", e)
            ck.true("from-parameters", e <= 1e-12, "%s(%r).from_parameters("
                    "lens_angle=%r) differs from %s(%r) by %.2e" %
                    (name, a0, a1, name, a1, e))
            fps.append(fp_values(f1))
    return digest(*fps)


def _run_largedet(case, ck):
    """Lens(Mie) on a detector of > 1000 pixels: every pixel must agree with
    the analytic theory and with the same pixel evaluated in a small call"""
    import holopy as hp
    from holopy.scattering.theory import MieLens, Lens, Mie
    from holopy.scattering import Sphere
    shp = tuple(case["shape"])
    sph = Sphere(n=1.2 * H.NMED, r=5.0 / H.K, center=(1.8, 1.6, 20.0 / H.K))
    det = hp.detector_grid(shp, 0.1)
    N = 40
    a = _field(det, sph, Lens(0.8, Mie(False, False), N, N), _pol(30.0))
    b = _field(det, sph, MieLens(0.8), _pol(30.0))
    ck.trans += 2
    err = np.abs(a - b).reshape(-1, a.shape[-1]).max(1) / np.abs(b).max()
    e = float(err.max())
    ck.metric("large-detector-vs-mielens", e)
    ck.true("large-detector", e <= TOLERANCES["large-detector-vs-mielens"],
            "Lens(Mie, %dx%d nodes) on a %dx%d detector differs from MieLens "
            "by %.2e of the peak field (worst pixel %d of %d)" %
            (N, N, shp[0], shp[1], e, int(err.argmax()), err.size))
    # the last row of pixels evaluated on its own
    last = det.isel(x=slice(shp[0] - 1, shp[0]))
    c = _field(last, sph, Lens(0.8, Mie(False, False), N, N), _pol(30.0))
    ck.trans += 1
    ax = list(det.dims).index("x")
    full_last = np.take(a, [shp[0] - 1], axis=ax)
    e2 = float(np.abs(full_last - c).max() / np.abs(b).max())
    ck.metric("large-detector-row", e2)
    ck.true("large-detector-row", e2 <= 1e-12, "the last pixel row of a "
            "%dx%d detector differs by %.2e from the same row computed "
            "alone" % (shp[0], shp[1], e2))
    return digest(fp_values(a))


def _run_interp(case, ck):
    from holopy.scattering.theory import MieLens
    fps = []
    for m, x, kz, ang in ((1.2, 5.0, 20.0, 0.8), (1.5, 20.0, -150.0, 1.0),
                          (2.5, 1.0, 300.0, 0.5)):
        sph, pts = _setup(m, x, kz)
        det = H.det_points(pts)
        res = {}
        for mode in ("check", True, False):
            res[mode] = _field(det, sph, MieLens(
                ang, {"interpolate_integrals": mode}), _pol(30.0))
            ck.trans += 1
        for win, deg in ((15.0, 32), (30.0, 40), (15.0, 40)):
            res[(win, deg)] = _field(det, sph, MieLens(
                ang, {"interpolate_integrals": True,
                      "interpolator_window_size": win,
                      "interpolator_degree": deg}), _pol(30.0))
            ck.trans += 1
        base = res[False]
        peak = np.abs(base).max()
        for k, f in res.items():
            e = float(np.abs(f - base).max() / peak)
            ck.metric("interpolation", e)
            ck.true("interpolation", e <= 1e-8,
                    "MieLens with interpolation setting %r differs from "
                    "direct evaluation by %.2e (m=%r x=%r kz=%r)" %
                    (k, e, m, x, kz))
            fps.append(fp_values(f))
    return digest(*fps)


def _run_orders(case, ck):
    from holopy.scattering.theory import Lens, Mie
    fps = []
    sph, pts = _setup(1.2, 5.0, 20.0)
    det = H.det_points(pts[:12])
    for pa in (0.0, 30.0):
        with warnings.catch_warnings():
            warnings.simplefilter("ignore")
            ref = _field(det, sph, Lens(0.8, Mie(False, False), 160, 160),
                         _pol(pa))
            peak = np.abs(ref).max()
            for nt, nph in ((120, 160), (160, 120), (100, 200), (200, 100),
                            (160, 161), (101, 101), (81, 121)):
                f = _field(det, sph, Lens(0.8, Mie(False, False), nt, nph),
                           _pol(pa))
                ck.trans += 1
                e = float(np.abs(f - ref).max() / peak)
                ck.metric("lens-unequal-orders", e)
                ck.true("lens-unequal-orders", e <= 1e-7,
                        "Lens with quadrature orders (%d, %d) differs from "
                        "(160, 160) by %.2e: refining the quadrature "
                        "changes a converged result" % (nt, nph, e))
                fps.append(fp_values(f))
    return digest(*fps)


def _run_shim(case, ck):
    """exercise Lens' use_numexpr code path with a shim that evaluates the
    expression strings with numpy in the caller's frame"""
    import holopy.scattering.theory.lens as L
    from holopy.scattering.theory import Mie
    if not hasattr(L, "NUMEXPR_INSTALLED"):
        ck.metric("shim-seam-present", 0)
        return "seam-absent"
    shim = types.ModuleType("numexpr_shim")
    ns = {"exp": np.exp, "cos": np.cos, "sin": np.sin, "sqrt": np.sqrt}

    def evaluate(expr, local_dict=None, global_dict=None, **kw):
        frame = sys._getframe(1)
        env = dict(frame.f_globals)
        env.update(frame.f_locals)
        if local_dict:
            env.update(local_dict)
        env.update(ns)
        return eval(expr, {"__builtins__": {}}, env)
    shim.evaluate = evaluate
    sph, pts = _setup(1.2, 5.0, 20.0)
    det = H.det_points(pts)
    with warnings.catch_warnings():
        warnings.simplefilter("ignore")
        plain = L.Lens(0.8, Mie(False, False), 64, 64, use_numexpr=False)
        a = _field(det, sph, plain, _pol(30.0))
        old = (L.NUMEXPR_INSTALLED, getattr(L, "ne", None))
        L.NUMEXPR_INSTALLED, L.ne = True, shim
        try:
            acc = L.Lens(0.8, Mie(False, False), 64, 64, use_numexpr=True)
            used = bool(getattr(acc, "use_numexpr", False))
            b = _field(det, sph, acc, _pol(30.0))
        finally:
            L.NUMEXPR_INSTALLED = old[0]
            if old[1] is None:
                del L.ne
            else:
                L.ne = old[1]
    ck.trans += 2
    ck.metric("shim-seam-present", 1 if used else 0)
    if not used:
        return "seam-unused"
    e = float(np.abs(a - b).max() / np.abs(a).max())
    ck.metric("numexpr-shim", e)
    ck.true("acceleration-independent", e <= 1e-12,
            "Lens gives different results with and without the "
            "acceleration-library code path (%.2e)" % e)
    return digest(fp_values(b))


def _run_cutoff(case, ck):
    from holopy.scattering.theory import MieLens
    kr = case["krho"]
    m, x, kz, ang = 1.2, 5.0, 20.0, 0.3
    from holopy.scattering import Sphere
    sph = Sphere(n=m * H.NMED, r=x / H.K, center=(0.0, 0.0, kz / H.K))
    r = kr / H.K
    pts = np.array([(r * math.cos(a), r * math.sin(a), 0.0) for a in AZ])
    det = H.det_points(pts)
    pol = _pol(0.0)
    lad = [384, 768, 1536]
    ref, ok, N = _reference(det, sph, ang, pol, lad, ck)
    npts = case.get("npts", 100)
    f = _field(det, sph, MieLens(ang, {"quad_npts": npts} if npts != 100
                                 else {}), pol)
    ck.trans += 1
    # peak of the same configuration on the axis, for scale
    det0 = H.det_points([[0.0, 0.0, 0.0]])
    peak = np.abs(_field(det0, sph, MieLens(ang), pol)).max()
    if not ok.any():
        ck.metric("cutoff-reference-unresolved", 1)
        return "unresolved"
    e = float(np.abs(f - ref)[ok].max() / peak)
    ck.metric("cutoff-error", e)
    ck.true("mielens-vs-lens-large-rho", e <= 1e-5,
            "MieLens(quad_npts=" + str(npts) + "): at k*rho = %r it returns %r "
            "while the converged "
            "Lens(Mie) [%dx%d] gives |E| = %.3e (%.2e of the on-axis "
            "field)" % (kr, np.abs(f).max(), N, N, np.abs(ref).max(), e))
    return digest(fp_values(f))


def run_case(case):
    ck = Checker()
    fp = {"vec": _run_vec, "ab0": _run_ab0, "interp": _run_interp, "accshared": _run_accshared,
          "orders": _run_orders, "shim": _run_shim, "cutoff": _run_cutoff,
          "largedet": _run_largedet, "detz": _run_detz,
          "fromparams": _run_fromparams,
          "history": _run_history}[case["kind"]](case, ck)
    return ck.result(fp=fp)


def coverage_extra(cases, results):
    unres = sum(r.get("metrics", {}).get("reference-unresolved-points", 0)
                for r in results)
    tot = sum(len(POLANG) * len(KRHO) * len(AZ) for c in cases
              if c["kind"] == "vec")
    return {"reference_unresolved_points": int(unres),
            "reference_points_total": tot,
            "axes": {k: v for k, v in AXES.items()}, "krho": KRHO}

"""C14 -- priors are proper, match their samplers, closed under arithmetic.

Bounded-exhaustive:
* every Uniform bound pair of an 8-letter alphabet (finite, half-infinite,
  improper), every guess option, every Gaussian (mu, sd) of a 4x4 alphabet,
  BoundedGaussian with 6 bound patterns per (mu, sd); evaluation points on,
  one ulp outside and far from every bound;
* the module-level `random` used by holopy/core/prior.py is replaced by a
  scripted environment: every quantile answer of a fixed grid, and for the
  bounded-Gaussian rejection loop every answer sequence with <= 3
  out-of-support draws (below / above / one ulp outside / exactly on a bound,
  at every position);
* the real generator under an enumerated seed list (empirical-CDF distance);
* every operator expression of depth <= 2 over the scalar leaf alphabet
  {P, Q, 0, 1, 2, -1.5} and the operator alphabet {+,-,*,/,**,np.maximum,
  unary -, np.sqrt, np.exp} (reflected forms arise from number-left
  operands); thorough adds every depth-3 expression of comb ("spine") shape;
  the ndarray leaf is enumerated in direct contact with a prior operand.
Oracles are closed forms (math), numpy arithmetic on plain numbers, and the
relations the property states.
"""
import contextlib
import itertools
import math
import numbers
import statistics

import numpy as np

from lib import Checker, digest, ulp_diff

PROPERTY = "C14"
RULE = ("cases = one per Uniform bound pair / Gaussian (mu,sd) / "
        "BoundedGaussian (mu,sd,bounds) with every evaluation point, sample "
        "size and scripted answer of the `holopy.core.prior.random` seam; "
        "blocks of bounded-Gaussian answer sequences (<= 3 out-of-support "
        "draws, every position); blocks of the complete expression "
        "enumeration (one block per left operand); non-trivial = observed "
        "value fingerprint differs from other cases'")
ASSUMPTIONS = [
    "numpy's generator is trusted: 'samples follow the declared "
    "distribution' is decided structurally (scripted answers of the "
    "module-level `random` seam must come back as the declared quantile / "
    "as an accepted draw) plus a Kolmogorov distance under fixed seeds",
    "an improper Uniform (infinite interval) has no density: HoloPy's "
    "documented constant is accepted when lnprob is finite inside the "
    "support, -inf outside and exp(lnprob) == prob",
    "BoundedGaussian documents an unnormalised density: only "
    "proportionality to the Gaussian inside the support is required",
    "a base prior occurring twice in one expression: the scripted answers "
    "depend on the call arguments only and cannot tell one draw from two; "
    "the case derived:repeated-base-prior decides it with the real "
    "generator, re-seeded before each draw",
    "only values of the stated alphabets are explored",
]
TOLERANCES = {
    "lnprob-vs-logprob": 1e-12, "density-closed-form": 1e-10,
    "normalisation": 1e-10, "scale-unscale-ulp": 32.0,
    "sample-quantile": 1e-12, "ecdf-distance": 0.04,
    "derived-ratio": 32.0, "bgauss-proportional": 1e-12,
}
TIMEOUT = 600
EXHAUSTIVE = True          # set per tier in cases()
PREIMPORT = ["holopy", "holopy.core.prior", "holopy.core.mapping"]

INF = float("inf")
U = 2.0 ** -53

# ---- alphabets -------------------------------------------------------------
UBOUNDS = [-INF, -1e6, -1.0, 0.0, 1e-9, 1.0, 1e6, INF]
GMU = {"quick": [0.0, -1e3, 1e-6, 2.0], "thorough": [0.0, -1e3, 1e-6, 2.0]}
GSD = {"quick": [1.0, 1e-8, 1e-3, 1e4], "thorough": [1.0, 1e-8, 1e-3, 1e4]}
# BoundedGaussian bound patterns in units of sd relative to mu
BPAT = [(-INF, INF), (-1.0, 1.0), (0.0, INF), (-INF, 0.5), (-3.0, 0.125),
        (-0.0078125, 0.0078125)]
BG_QUICK = [(0.0, 1.0), (-1e3, 1e-8), (1e-6, 1e4), (2.0, 1e-3)]
QGRID = [0.5, 0.0, 1e-12, 0.25, 0.75, 1 - 1e-12]
SIZES = [None, 1, 7]
SEEDS = {"quick": [0, 1, 2], "thorough": [0, 1, 2, 3, 4]}
NECDF = 20000

LEAVES = ["P", "Q", ("n", 0), ("n", 1), ("n", 2), ("n", -1.5)]
BIN = ["add", "sub", "mul", "div", "pow", "max"]
UNA = ["neg", "sqrt", "exp"]
SYM = {"add": "+", "sub": "-", "mul": "*", "div": "/", "pow": "**"}


def _f(x):
    return repr(float(x))


def _bg_params(tier):
    out = []
    if tier == "quick":
        ms = BG_QUICK
    else:
        ms = [(m, s) for m in GMU[tier] for s in GSD[tier]]
    for (m, s) in ms:
        for k, (lo, hi) in enumerate(BPAT):
            out.append((m, s, k))
    return out


def _bg_bounds(mu, sd, k):
    lo, hi = BPAT[k]
    lo = mu + lo * sd if math.isfinite(lo) else lo
    hi = mu + hi * sd if math.isfinite(hi) else hi
    return lo, hi


# ---------------------------------------------------------------------------
# case list
# ---------------------------------------------------------------------------
def cases(tier, seed):
    global EXHAUSTIVE
    EXHAUSTIVE = (tier == "quick")
    out = []
    for a in UBOUNDS:
        for b in UBOUNDS:
            if a < b:
                out.append({"id": "uniform:a=%s,b=%s" % (_f(a), _f(b)),
                            "kind": "uniform", "a": _f(a), "b": _f(b),
                            "tier": tier})
    for m in GMU[tier]:
        for s in GSD[tier]:
            out.append({"id": "gaussian:mu=%s,sd=%s" % (_f(m), _f(s)),
                        "kind": "gaussian", "mu": m, "sd": s, "tier": tier})
    for (m, s, k) in _bg_params(tier):
        out.append({"id": "bgauss:density:mu=%s,sd=%s,bounds#%d" %
                    (_f(m), _f(s), k), "kind": "bgauss", "mu": m, "sd": s,
                    "k": k, "tier": tier})
    out.append({"id": "bgauss:sample-size-none", "kind": "bgnone",
                "tier": tier})
    for n in (1, 3, 7):
        for (m, s) in sorted({(m, s) for (m, s, k) in _bg_params(tier)}):
            out.append({"id": "bgauss:rejection:size=%d:mu=%s,sd=%s" %
                        (n, _f(m), _f(s)), "kind": "bgrej", "n": n,
                        "mu": m, "sd": s, "tier": tier})
    for k in ("uniform", "gaussian", "bgauss"):
        out.append({"id": "ctor:%s" % k, "kind": "ctor", "which": k,
                    "tier": tier})
    for i in range(len(CPARTS)):
        for j in range(len(CPARTS)):
            out.append({"id": "complex:re=%s,im=%s" % (CPARTS[i][0],
                                                       CPARTS[j][0]),
                        "kind": "complex", "re": i, "im": j, "tier": tier})
    out.append({"id": "algebra:identities", "kind": "ident", "tier": tier})
    out.append({"id": "algebra:unsupported-types", "kind": "unsup",
                "tier": tier})
    out.append({"id": "algebra:unsigned-constants", "kind": "unsigned"})
    out.append({"id": "gaussian:integer-typed-arguments", "kind": "gint"})
    out.append({"id": "derived:repeated-base-prior", "kind": "repeated"})
    out.append({"id": "algebra:numpy-scalar-left", "kind": "npleft",
                "tier": tier})
    out.append({"id": "algebra:complex-constants", "kind": "cplxconst",
                "tier": tier})
    out.append({"id": "ndarray:elementwise", "kind": "ndelem", "tier": tier})
    out.append({"id": "algebra:numpy-binary-functions", "kind": "npbin",
                "tier": tier})
    out.append({"id": "ndarray:array-valued:guess-and-scalar-sample",
                "kind": "ndarr", "part": "guess", "tier": tier})
    # NOT asserted (lead's decision): sample(size=n) of an array-valued
    # derived prior such as np.array([1, 2]) + P returns n values instead of
    # n x 2.  The property speaks of "priors and numbers"; an ndarray operand
    # is outside the statement, so demanding a shape here would be more
    # than the property states (recorded in DESIGN.md as an observation).
    out.append({"id": "tree:d1", "kind": "tree1", "tier": tier})
    nd1 = len(_depth1())
    for i in range(nd1):
        out.append({"id": "tree:d2:left#%03d" % i, "kind": "tree2", "i": i,
                    "tier": tier})
    out.append({"id": "tree:d2:unary", "kind": "tree2u", "tier": tier})
    if tier == "thorough":
        for i in range(len(_spine1())):
            out.append({"id": "tree:d3spine:base#%03d" % i, "kind": "tree3",
                        "i": i, "tier": tier})
    return out


# complex-prior parts: (label, constructor spec)
CPARTS = [("uniform", ("U", 1.0, 2.0)), ("gaussian", ("G", 1.5, 0.125)),
          ("bgauss", ("B", 1.5, 0.125, 1.375, INF)), ("fixed", ("N", 1.59))]


# ---------------------------------------------------------------------------
# scripted environment for the `holopy.core.prior.random` seam
# ---------------------------------------------------------------------------
class SeamUnusable(Exception):
    """the code under test asked the seam for something the script does not
    model (refactoring): fall back to seeds, never a violation"""


class SeamRunaway(Exception):
    """more draws requested than any terminating sampler needs"""


_ND = statistics.NormalDist()


def zq(q):
    if q <= 0.0:
        return -38.0
    if q >= 1.0:
        return 38.0
    return _ND.inv_cdf(q)


def _nsize(size):
    if size is None:
        return None, 1
    if isinstance(size, (int, np.integer)):
        return (int(size),), int(size)
    shp = tuple(int(s) for s in size)
    return shp, int(np.prod(shp)) if shp else 1


class QuantilePlan:
    """answers depend on the call arguments only: uniform -> low+q(high-low),
    normal -> loc + scale*z(q); q cycles through a fixed list per family."""

    def __init__(self, uq, nq):
        self.uq = list(uq)
        self.nq = list(nq)

    def _q(self, qs, size):
        shp, n = _nsize(size)
        if shp is None:
            return None, [qs[0]]
        return shp, [qs[i % len(qs)] for i in range(n)]

    def uniform(self, low, high, size):
        shp, q = self._q(self.uq, size)
        if not (math.isfinite(low) and math.isfinite(high)
                and math.isfinite(high - low)):
            raise OverflowError("Range exceeds valid bounds")
        v = [low + x * (high - low) for x in q]
        return float(v[0]) if shp is None else np.array(v, float).reshape(shp)

    def normal(self, loc, scale, size):
        shp, q = self._q(self.nq, size)
        v = [loc + scale * zq(x) for x in q]
        return float(v[0]) if shp is None else np.array(v, float).reshape(shp)


class StreamPlan:
    """normal draws are served from a list of physical target values, then
    from a filler of distinct in-support values."""

    def __init__(self, mu, sd, values, filler):
        self.mu, self.sd = mu, sd
        self.values = list(values)
        self.filler = filler
        self.pos = 0
        self.served = []

    def uniform(self, low, high, size):
        raise SeamUnusable("uniform() asked under a normal-draw script")

    def normal(self, loc, scale, size):
        shp, n = _nsize(size)
        out = []
        for _ in range(n):
            if self.pos < len(self.values):
                v = self.values[self.pos]
            else:
                v = self.filler(self.pos - len(self.values))
            self.pos += 1
            self.served.append(v)
            if loc == self.mu and scale == self.sd:
                out.append(v)
            else:
                out.append(loc + scale * ((v - self.mu) / self.sd))
        return float(out[0]) if shp is None else \
            np.array(out, float).reshape(shp)


class Scripted:
    def __init__(self, plan, maxcalls=200):
        self._plan = plan
        self._max = maxcalls
        self.calls = []

    def _rec(self, fam, args, size):
        if len(self.calls) >= self._max:
            raise SeamRunaway("more than %d draws requested" % self._max)
        self.calls.append((fam, args, size))

    def uniform(self, low=0.0, high=1.0, size=None):
        self._rec("uniform", (low, high), size)
        return self._plan.uniform(low, high, size)

    def normal(self, loc=0.0, scale=1.0, size=None):
        self._rec("normal", (loc, scale), size)
        return self._plan.normal(loc, scale, size)

    def standard_normal(self, size=None):
        self._rec("normal", (0.0, 1.0), size)
        return self._plan.normal(0.0, 1.0, size)

    def random(self, size=None):
        self._rec("uniform", (0.0, 1.0), size)
        return self._plan.uniform(0.0, 1.0, size)

    random_sample = random
    sample = random

    def rand(self, *shape):
        return self.random(shape if shape else None)

    def randn(self, *shape):
        return self.standard_normal(shape if shape else None)

    def __getattr__(self, name):
        raise SeamUnusable("seam attribute %r is not scripted" % name)


@contextlib.contextmanager
def scripted(plan, maxcalls=200):
    import holopy.core.prior as pm
    if not hasattr(pm, "random"):
        yield None
        return
    old = pm.random
    s = Scripted(plan, maxcalls)
    pm.random = s
    try:
        yield s
    finally:
        pm.random = old


class Info(dict):
    def bump(self, k, n=1):
        self[k] = self.get(k, 0) + n


def _viol(ck, check, msg, **kw):
    d = {"check": check, "msg": msg}
    d.update(kw)
    ck.viol.append(d)


def _shape_ok(x, size):
    if size is None:
        return np.ndim(x) == 0
    return isinstance(x, np.ndarray) and x.shape == (size,)


def _insup(x, lo, hi):
    a = np.asarray(x, dtype=float)
    return bool(np.all((a >= lo) & (a <= hi)))


def _down(x):
    return float(np.nextafter(x, -INF))


def _up(x):
    return float(np.nextafter(x, INF))


def _rel(a, b, scale):
    if a == b:
        return 0.0
    if not (math.isfinite(a) and math.isfinite(b)):
        return INF
    return abs(a - b) / scale


# closed forms ---------------------------------------------------------------
def gauss_lnpdf(x, mu, sd):
    t = (x - mu) / sd
    return -0.5 * t * t - math.log(sd) - 0.5 * math.log(2 * math.pi)


def gauss_pdf(x, mu, sd):
    t = (x - mu) / sd
    return math.exp(-0.5 * t * t) / (sd * math.sqrt(2 * math.pi))


def ks_distance(x, cdf):
    x = np.sort(np.asarray(x, dtype=float).ravel())
    n = x.size
    F = cdf(x)
    i = np.arange(1, n + 1)
    return float(max(np.max(i / n - F), np.max(F - (i - 1) / n)))


def _ndtr(t):
    from scipy.special import ndtr
    return ndtr(t)


# ---------------------------------------------------------------------------
# generic checks shared by the base priors
# ---------------------------------------------------------------------------
def _check_ln_vs_prob(ck, pr, x, what):
    """lnprob == log(prob) (both directions, underflow aware)."""
    p = pr.prob(x)
    lp = pr.lnprob(x)
    ck.trans += 2
    p = float(p)
    lp = float(lp)
    if p < 0 or p != p or lp != lp or lp == INF:
        _viol(ck, "density-valid", "%s: prob=%r lnprob=%r at %r" %
              (what, p, lp, x))
        return p, lp
    if p > 1e-290:
        e = abs(lp - math.log(p)) / max(1.0, abs(lp))
        ck.metric("lnprob-vs-logprob", e)
        if not e <= TOLERANCES["lnprob-vs-logprob"]:
            _viol(ck, "lnprob-vs-logprob", "%s at x=%r: lnprob=%r but "
                  "log(prob)=%r" % (what, x, lp, math.log(p)))
    else:
        # prob underflows (or is zero): exp(lnprob) must underflow as well
        ex = math.exp(lp) if lp > -INF else 0.0
        if not abs(ex - p) <= 1e-280:
            _viol(ck, "lnprob-vs-logprob", "%s at x=%r: prob=%r but "
                  "exp(lnprob)=%r" % (what, x, p, ex))
    return p, lp


def _check_scale(ck, pr, pts, what):
    sf = getattr(pr, "scale_factor", None)
    ck.true("scale-factor", isinstance(sf, numbers.Real) and
            math.isfinite(sf) and sf > 0,
            "%s: scale_factor=%r is not a positive finite number" %
            (what, sf))
    for v in pts:
        if not math.isfinite(v) or abs(v) > 1e150 or \
                (v != 0 and abs(v) < 1e-150):
            continue        # v / scale_factor would over/underflow
        w = pr.unscale(pr.scale(v))
        w2 = pr.scale(pr.unscale(v))
        ck.trans += 4
        e = max(ulp_diff(w, v), ulp_diff(w2, v))
        ck.metric("scale-unscale-ulp", e)
        if not e <= TOLERANCES["scale-unscale-ulp"]:
            _viol(ck, "scale-unscale", "%s: unscale(scale(%r)) = %r, "
                  "scale(unscale(v)) = %r" % (what, v, w, w2))


def _seam_sample(ck, info, pr, size, plan, what):
    """sample under a scripted plan.  returns (status, value, calls)
    status in ok / raised / noseam"""
    with scripted(plan) as s:
        if s is None:
            info.bump("seam-absent")
            return "noseam", None, []
        try:
            v = pr.sample(size)
            ck.trans += 1
        except (SeamUnusable,) as e:
            info.bump("seam-unusable")
            return "noseam", None, s.calls
        except SeamRunaway as e:
            return "runaway", e, s.calls
        except Exception as e:
            return "raised", e, s.calls
        if not s.calls:
            info.bump("seam-silent")
            return "noseam", v, []
        return "ok", v, s.calls


def _quantile_sampling(ck, info, pr, lo, hi, expected, what):
    """every size x every quantile answer: shape, support, value."""
    fps = []
    for size in SIZES:
        for r in range(len(QGRID)):
            qs = QGRID[r:] + QGRID[:r]
            plan = QuantilePlan(qs, qs)
            st, v, calls = _seam_sample(ck, info, pr, size, plan, what)
            if st == "noseam":
                return None
            tag = "%s.sample(%r) with scripted quantiles %r" % (what, size,
                                                               qs[:3])
            if st != "ok":
                _viol(ck, "sample-raises", "%s raised %s: %s" %
                      (tag, type(v).__name__, v))
                continue
            info.bump("scripted-samples")
            if not _shape_ok(v, size):
                _viol(ck, "sample-shape", "%s returned shape %r" %
                      (tag, np.shape(v)))
                continue
            if not _insup(v, lo, hi):
                _viol(ck, "sample-in-support", "%s returned %r outside "
                      "[%r, %r]" % (tag, v, lo, hi))
            n = 1 if size is None else size
            exp = np.array([expected(qs[i % len(qs)]) for i in range(n)])
            got = np.asarray(v, dtype=float).ravel()
            sc = max(abs(lo) if math.isfinite(lo) else 0.0,
                     abs(hi) if math.isfinite(hi) else 0.0,
                     float(np.max(np.abs(exp))), 1e-300)
            e = float(np.max(np.abs(got - exp))) / sc
            ck.metric("sample-quantile", e)
            if not e <= TOLERANCES["sample-quantile"]:
                _viol(ck, "sample-quantile", "%s returned %r, the declared "
                      "distribution's quantiles are %r" % (tag, got[:4],
                                                           exp[:4]))
            fps.append(np.round(got, 12))
    return fps


def _seeded_sampling(ck, info, pr, lo, hi, cdf, tier, what, sizes=SIZES):
    """real generator under the enumerated seed list."""
    dmax = 0.0
    for sd_ in SEEDS[tier]:
        for size in sizes:
            np.random.seed(sd_)
            try:
                v = pr.sample(size)
                ck.trans += 1
            except Exception as e:
                _viol(ck, "sample-raises", "%s.sample(%r) raised %s: %s "
                      "(seed %d)" % (what, size, type(e).__name__, e, sd_))
                continue
            if not _shape_ok(v, size):
                _viol(ck, "sample-shape", "%s.sample(%r) returned shape %r"
                      % (what, size, np.shape(v)))
            if not _insup(v, lo, hi):
                _viol(ck, "sample-in-support", "%s.sample(%r) seed %d "
                      "returned a value outside [%r, %r]: %r" %
                      (what, size, sd_, lo, hi, v))
        np.random.seed(sd_)
        try:
            v = pr.sample(NECDF)
            ck.trans += 1
        except Exception as e:
            _viol(ck, "sample-raises", "%s.sample(%d) raised %s: %s" %
                  (what, NECDF, type(e).__name__, e))
            continue
        if not _shape_ok(v, NECDF):
            _viol(ck, "sample-shape", "%s.sample(%d) returned shape %r" %
                  (what, NECDF, np.shape(v)))
            continue
        if not _insup(v, lo, hi):
            bad = np.asarray(v)[(np.asarray(v) < lo) | (np.asarray(v) > hi)]
            _viol(ck, "sample-in-support", "%s.sample(%d) seed %d: %d values"
                  " outside [%r, %r], first %r" % (what, NECDF, sd_,
                                                   bad.size, lo, hi, bad[:3]))
        d = ks_distance(v, cdf)
        dmax = max(dmax, d)
        ck.metric("ecdf-distance", d)
        if not d <= TOLERANCES["ecdf-distance"]:
            _viol(ck, "sample-distribution", "%s: Kolmogorov distance of %d "
                  "samples (seed %d) from the declared CDF is %.4f > %.2f" %
                  (what, NECDF, sd_, d, TOLERANCES["ecdf-distance"]))
        info.bump("seeded-ecdf")
    return dmax


# ---------------------------------------------------------------------------
# Uniform
# ---------------------------------------------------------------------------
def _uniform_points(a, b):
    fa, fb = math.isfinite(a), math.isfinite(b)
    if fa and fb:
        w = b - a
        inside = [a, b, a + w / 4, a + w / 2, a + 3 * w / 4]
    elif fa:
        inside = [a, a + 1e-9, a + 1.0, a + 1e6, 1e300]
    elif fb:
        inside = [b, b - 1e-9, b - 1.0, b - 1e6, -1e300]
    else:
        inside = [0.0, 1.0, -1.0, 1e300, -1e300]
    inside = [x for x in inside if a <= x <= b]
    outside = []
    if fa:
        outside += [_down(a), a - 1.0, a - 1e9]
    if fb:
        outside += [_up(b), b + 1.0, b + 1e9]
    return inside, outside


def _run_uniform(case, ck, info):
    from holopy.core.prior import Uniform
    a, b = float(case["a"]), float(case["b"])
    fa, fb = math.isfinite(a), math.isfinite(b)
    proper = fa and fb
    inside, outside = _uniform_points(a, b)
    if proper:
        mid = a + (b - a) / 2
    elif fa:
        mid = a + 1.0
    elif fb:
        mid = b - 1.0
    else:
        mid = 0.25
    guesses = [("default", None), ("mid", mid)]
    if fa:
        guesses.append(("lower", a))
    if fb:
        guesses.append(("upper", b))
    bad_guesses = [x for x in outside]
    acc = []
    for x in bad_guesses:
        try:
            Uniform(a, b, guess=x)
            ck.trans += 1
        except Exception as e:
            acc.append(type(e).__name__)
        else:
            _viol(ck, "ctor-rejects-guess-outside", "Uniform(%r, %r, guess="
                  "%r) was accepted although the guess is outside the bounds"
                  % (a, b, x))
    for gname, g in guesses:
        what = "Uniform(%r, %r, guess=%r)" % (a, b, g)
        try:
            pr = Uniform(a, b, guess=g)
            ck.trans += 1
        except Exception as e:
            _viol(ck, "ctor-accepts", "%s raised %s: %s" %
                  (what, type(e).__name__, e))
            continue
        gv = pr.guess
        if g is None:
            ck.true("default-guess-in-support",
                    isinstance(gv, numbers.Real) and math.isfinite(gv)
                    and a <= gv <= b,
                    "%s: default guess %r not a finite value in the support"
                    % (what, gv))
        else:
            ck.true("guess-kept", gv == g, "%s: guess attribute is %r" %
                    (what, gv))
        # density --------------------------------------------------------
        dens = []
        for x in inside:
            p, lp = _check_ln_vs_prob(ck, pr, x, what)
            dens.append(p)
            if lp == -INF:
                _viol(ck, "support-closed", "%s: lnprob(%r) = -inf inside "
                      "the support (bounds included)" % (what, x))
            if proper:
                ref = 1.0 / (b - a)
                e = _rel(p, ref, ref)
                ck.metric("density-closed-form", e)
                if not e <= TOLERANCES["density-closed-form"]:
                    _viol(ck, "uniform-density", "%s: prob(%r) = %r, "
                          "1/(b-a) = %r" % (what, x, p, ref))
                e = abs(lp + math.log(b - a)) / max(1.0, abs(lp))
                ck.metric("density-closed-form", e)
                if not e <= 1e-12:
                    _viol(ck, "uniform-lnprob", "%s: lnprob(%r) = %r, "
                          "-log(b-a) = %r" % (what, x, lp, -math.log(b - a)))
                if not p > 0:
                    _viol(ck, "support-closed", "%s: prob(%r) = %r on/inside"
                          " the bounds" % (what, x, p))
        if proper:
            e = abs(dens[len(dens) // 2] * (b - a) - 1.0)
            ck.metric("normalisation", e)
            if not (e <= TOLERANCES["normalisation"]
                    and max(dens) == min(dens)):
                _viol(ck, "uniform-normalised", "%s: density %r times "
                      "interval = %r (should integrate to 1)" %
                      (what, dens, dens[0] * (b - a)))
        for x in outside:
            p = pr.prob(x)
            lp = pr.lnprob(x)
            ck.trans += 2
            if not (p == 0 and lp == -INF):
                _viol(ck, "zero-outside-support", "%s: prob(%r)=%r "
                      "lnprob=%r outside the support" % (what, x, p, lp))
        # "not a number" is not a point of the support
        x = float("nan")
        p, lp = pr.prob(x), pr.lnprob(x)
        ck.trans += 2
        if not (p == 0 and lp == -INF):
            _viol(ck, "zero-outside-support", "%s: prob(nan)=%r lnprob(nan)"
                  "=%r" % (what, p, lp))
        _check_scale(ck, pr, inside + outside + [gv], what)
        acc.append((gname, repr(gv), repr(pr.scale_factor),
                    [repr(d) for d in dens]))
        # sampling -------------------------------------------------------
        if gname != "default":
            continue
        if proper:
            fps = _quantile_sampling(
                ck, info, pr, a, b, lambda q: a + q * (b - a), what)
            if fps is None:
                info.bump("fallback-seeds-only")
            else:
                acc.append(digest(*fps))
            d = _seeded_sampling(
                ck, info, pr, a, b,
                lambda x: np.clip((x - a) / (b - a), 0, 1), case["tier"],
                what)
            acc.append("%.6f" % d)
        else:
            # improper: numpy itself refuses; either a refusal or values in
            # the support
            for size in SIZES:
                np.random.seed(0)
                try:
                    v = pr.sample(size)
                    ck.trans += 1
                except Exception as e:
                    info.bump("improper-sample-refused")
                    acc.append("refused:" + type(e).__name__)
                    continue
                if not (_shape_ok(v, size) and _insup(v, a, b)
                        and np.all(np.isfinite(v))):
                    _viol(ck, "sample-in-support", "%s.sample(%r) returned "
                          "%r" % (what, size, v))
    return digest(*acc)


# ---------------------------------------------------------------------------
# Gaussian
# ---------------------------------------------------------------------------
def _gauss_points(mu, sd):
    ks = [0, 1, -1, 10, -10, 0.5, -2.5, 37, -37, 40, -40]
    return [mu + k * sd for k in ks]


def _grid(mu, sd, nodes=4001, span=12.0):
    """uniform grid mu + i*h with exactly representable nodes when
    |mu| >> sd (h is rounded to a multiple of the local ulp)."""
    half = (nodes - 1) // 2
    h = span * sd / half
    u = float(np.spacing(abs(mu) + (span + 1) * sd))
    if h / u < 2 ** 40:
        h = round(h / u) * u
    return [mu + (i - half) * h for i in range(nodes)], h


def _check_gauss_density(ck, pr, mu, sd, pts, what, lo=-INF, hi=INF):
    dens = []
    ratios = []
    for x in pts:
        p, lp = _check_ln_vs_prob(ck, pr, x, what)
        if lo <= x <= hi:
            ref_l = gauss_lnpdf(x, mu, sd)
            ref_p = gauss_pdf(x, mu, sd)
            if lo == -INF and hi == INF:
                e = abs(lp - ref_l) / max(1.0, abs(ref_l))
                ck.metric("density-closed-form", e)
                if not e <= 1e-12:
                    _viol(ck, "gaussian-lnprob", "%s: lnprob(%r) = %r, "
                          "closed form %r" % (what, x, lp, ref_l))
                if ref_p > 1e-290:
                    e = abs(p - ref_p) / ref_p
                    ck.metric("density-closed-form", e)
                    if not e <= TOLERANCES["density-closed-form"]:
                        _viol(ck, "gaussian-density", "%s: prob(%r) = %r, "
                              "closed form %r" % (what, x, p, ref_p))
            elif ref_p > 1e-290:
                ratios.append((p / ref_p, x))
                if lp == -INF or not p > 0:
                    _viol(ck, "support-closed", "%s: prob(%r)=%r lnprob=%r "
                          "inside/on the bounds" % (what, x, p, lp))
        else:
            if not (p == 0 and lp == -INF):
                _viol(ck, "zero-outside-support", "%s: prob(%r)=%r lnprob=%r"
                      " outside the support" % (what, x, p, lp))
        dens.append(p)
    if ratios:
        r = [q for q, _ in ratios]
        e = max(r) / min(r) - 1.0 if min(r) > 0 else INF
        ck.metric("bgauss-proportional", e)
        if not e <= TOLERANCES["bgauss-proportional"]:
            _viol(ck, "bgauss-proportional", "%s: prob/gaussian density is "
                  "not constant inside the support: %r" % (what, ratios))
    return dens


def _run_gaussian(case, ck, info):
    from holopy.core.prior import Gaussian
    mu, sd = case["mu"], case["sd"]
    what = "Gaussian(%r, %r)" % (mu, sd)
    pr = Gaussian(mu, sd)
    ck.trans += 1
    g = pr.guess
    ck.true("default-guess-in-support", isinstance(g, numbers.Real)
            and math.isfinite(g), "%s: guess %r" % (what, g))
    pts = _gauss_points(mu, sd)
    dens = _check_gauss_density(ck, pr, mu, sd, pts, what)
    xs, h = _grid(mu, sd)
    tot = 0.0
    totl = 0.0
    for i, x in enumerate(xs):
        w = 0.5 if i in (0, len(xs) - 1) else 1.0
        tot += w * float(pr.prob(x))
        totl += w * math.exp(float(pr.lnprob(x)))
    ck.trans += 2 * len(xs)
    for nm, t in (("prob", tot * h), ("exp(lnprob)", totl * h)):
        e = abs(t - 1.0)
        ck.metric("normalisation", e)
        if not e <= TOLERANCES["normalisation"]:
            _viol(ck, "gaussian-normalised", "%s: integral of %s over "
                  "mu +- 12 sd (4001 nodes) = %r" % (what, nm, t))
    _check_scale(ck, pr, [p for p in pts] + [g], what)
    acc = [repr(g), repr(pr.scale_factor), [repr(d) for d in dens],
           repr(tot * h)]
    fps = _quantile_sampling(ck, info, pr, -INF, INF,
                             lambda q: mu + sd * zq(q), what)
    if fps is None:
        info.bump("fallback-seeds-only")
    else:
        acc.append(digest(*fps))
    d = _seeded_sampling(ck, info, pr, -INF, INF,
                         lambda x: _ndtr((x - mu) / sd), case["tier"], what)
    acc.append("%.6f" % d)
    return digest(*acc)


# ---------------------------------------------------------------------------
# BoundedGaussian
# ---------------------------------------------------------------------------
def _trunc_cdf(mu, sd, lo, hi):
    Fa = float(_ndtr((lo - mu) / sd)) if math.isfinite(lo) else 0.0
    Fb = float(_ndtr((hi - mu) / sd)) if math.isfinite(hi) else 1.0

    def cdf(x):
        return np.clip((_ndtr((x - mu) / sd) - Fa) / (Fb - Fa), 0, 1)
    return cdf


def _mk_bg(mu, sd, k):
    from holopy.core.prior import BoundedGaussian
    lo, hi = _bg_bounds(mu, sd, k)
    return BoundedGaussian(mu, sd, lo, hi), lo, hi


def _run_bgauss(case, ck, info):
    mu, sd, k = case["mu"], case["sd"], case["k"]
    pr, lo, hi = _mk_bg(mu, sd, k)
    ck.trans += 1
    what = "BoundedGaussian(%r, %r, %r, %r)" % (mu, sd, lo, hi)
    g = pr.guess
    ck.true("default-guess-in-support", isinstance(g, numbers.Real)
            and math.isfinite(g) and lo <= g <= hi,
            "%s: guess %r outside the support" % (what, g))
    pts = _gauss_points(mu, sd)
    for bnd in (lo, hi):
        if math.isfinite(bnd):
            pts += [bnd, _down(bnd), _up(bnd)]
    if math.isfinite(lo) and math.isfinite(hi):
        pts += [lo + (hi - lo) / 3, lo + 2 * (hi - lo) / 3]
    dens = _check_gauss_density(ck, pr, mu, sd, pts, what, lo, hi)
    if math.isfinite(lo) or math.isfinite(hi):
        # "not a number" is not a point of a bounded support
        _check_gauss_density(ck, pr, mu, sd, [float("nan")], what, lo, hi)
    _check_scale(ck, pr, pts + [g], what)
    # real generator, large n only (sizes None/1/n with scripted answers are
    # in the dedicated bgauss:* block cases)
    d = _seeded_sampling(ck, info, pr, lo, hi, _trunc_cdf(mu, sd, lo, hi),
                         case["tier"], what, sizes=[])
    return digest(repr(g), repr(pr.scale_factor), [repr(x) for x in dens],
                  "%.6f" % d)


class _BGSyms:
    """physical values of the answer symbols for one bounded Gaussian."""

    def __init__(self, mu, sd, lo, hi):
        self.mu, self.sd, self.lo, self.hi = mu, sd, lo, hi
        self.a = max(lo, mu - 2 * sd)
        self.b = min(hi, mu + 2 * sd)
        self.out = []
        if math.isfinite(lo):
            self.out += ["b", "B"]      # one ulp below / far below
        if math.isfinite(hi):
            self.out += ["a", "A"]
        self.edge = [s for s, v in (("L", lo), ("U", hi))
                     if math.isfinite(v)]
        self._i = 0

    def interior(self, j):
        # distinct in-support values: bit-reversed fractions of (a, b)
        j = j + 1
        f, d = 0.0, 0.5
        while j:
            if j & 1:
                f += d
            j >>= 1
            d /= 2
        return self.a + f * (self.b - self.a)

    def value(self, s, j):
        if s == "I":
            return self.interior(100 + j)
        return {"b": _down(self.lo) if s == "b" else None,
                "B": self.lo - 3 * self.sd if s == "B" else None,
                "a": _up(self.hi) if s == "a" else None,
                "A": self.hi + 3 * self.sd if s == "A" else None,
                "L": self.lo, "U": self.hi}[s]


def _streams(n, out_syms, in_syms, budget):
    """every answer stream for a rejection sampler of n slots with at most
    `budget` out-of-support draws in total.  A stream is a list of calls;
    each call is a tuple of symbols; the number of slots of the next call is
    the number of out-of-support symbols of this one."""
    def rec(slots, left):
        for call in itertools.product(in_syms + out_syms, repeat=slots):
            j = sum(1 for s in call if s in out_syms)
            if j > left:
                continue
            if j == 0:
                yield [call]
            else:
                for rest in rec(j, left - j):
                    yield [call] + rest
    return rec(n, budget)


def _streams7(out_syms, budget):
    """size 7: first call = every placement of <= budget out-of-support
    draws among 7 slots (in-support slots are interior values), refills
    drawn from the reduced alphabet."""
    n = 7
    for j in range(0, budget + 1):
        for pos in itertools.combinations(range(n), j):
            for kinds in itertools.product(out_syms, repeat=j):
                call = ["I"] * n
                for p, s in zip(pos, kinds):
                    call[p] = s
                if j == 0:
                    yield [tuple(call)]
                else:
                    for rest in _streams(j, out_syms, ["I"], budget - j):
                        yield [tuple(call)] + rest


def _run_stream(ck, info, pr, sy, size, stream, what):
    """one scripted answer stream through BoundedGaussian.sample(size)."""
    vals = []
    j = 0
    for call in stream:
        for s in call:
            vals.append(sy.value(s, j))
            j += 1
    plan = StreamPlan(sy.mu, sy.sd, vals, lambda i: sy.interior(i))
    st, v, calls = _seam_sample(ck, info, pr, size, plan, what)
    tag = "%s.sample(%r) with scripted normal draws %s" % (
        what, size, "|".join("".join(c) for c in stream))
    if st == "noseam":
        return None
    if st == "runaway":
        return ("sample-terminates", tag + ": sampler kept drawing although "
                "every later answer was inside the support")
    if st == "raised":
        return ("sample-raises", "%s raised %s: %s" %
                (tag, type(v).__name__, str(v)[:120]))
    if not _shape_ok(v, size):
        return ("sample-shape", "%s returned shape %r" % (tag, np.shape(v)))
    got = np.asarray(v, dtype=float).ravel()
    if not _insup(got, sy.lo, sy.hi):
        return ("sample-in-support", "%s returned %r, outside [%r, %r]" %
                (tag, got.tolist(), sy.lo, sy.hi))
    # every returned value is one of the accepted scripted draws, each used
    # at most once (no clipping, no fabrication)
    pool = [x for x in plan.served if sy.lo <= x <= sy.hi]
    for x in got:
        hit = None
        for i, y in enumerate(pool):
            if x == y or abs(x - y) <= 4 * np.spacing(max(abs(y),
                                                          abs(sy.mu))):
                hit = i
                break
        if hit is None:
            return ("sample-from-draws", "%s returned %r which is not one of"
                    " the in-support draws it was given (%r)" %
                    (tag, x, plan.served[:8]))
        pool.pop(hit)
    return ("ok", got)


def _bg_block(ck, info, tier, size, streams_for, only=None):
    acc = []
    nseq = 0
    fails = {}
    for (mu, sd, k) in _bg_params(tier):
        if only is not None and (mu, sd) != only:
            continue
        pr, lo, hi = _mk_bg(mu, sd, k)
        what = "BoundedGaussian(%r, %r, %r, %r)" % (mu, sd, lo, hi)
        sy = _BGSyms(mu, sd, lo, hi)
        for stream in streams_for(sy):
            r = _run_stream(ck, info, pr, sy, size, stream, what)
            if r is None:
                return None, nseq
            nseq += 1
            if r[0] != "ok":
                fails.setdefault(r[0], []).append(r[1])
            else:
                acc.append(np.round(r[1], 12))
    for chk, msgs in sorted(fails.items()):
        _viol(ck, chk, "%d of %d scripted answer sequences fail; first: %s"
              % (len(msgs), nseq, msgs[0]), more=msgs[1:4])
    info["answer-sequences"] = nseq
    return digest(*acc), nseq


def _run_bgnone(case, ck, info):
    """BoundedGaussian.sample(size=None): every answer sequence with <= 3
    rejections, and the real generator under the seed list."""
    tier = case["tier"]

    def streams_for(sy):
        return _streams(1, sy.out, ["I"] + sy.edge, 3)
    fp, nseq = _bg_block(ck, info, tier, None, streams_for)
    if fp is None:
        info.bump("fallback-seeds-only")
    for v in ck.viol:
        v["check"] = "sample-size-none:" + v["check"]
    nbad = 0
    first = None
    for (mu, sd, k) in _bg_params(tier):
        pr, lo, hi = _mk_bg(mu, sd, k)
        for s in SEEDS[tier]:
            np.random.seed(s)
            try:
                v = pr.sample()
                ck.trans += 1
                ok = _shape_ok(v, None) and _insup(v, lo, hi)
                msg = "returned %r" % (v,)
            except Exception as e:
                ok = False
                msg = "raised %s: %s" % (type(e).__name__, str(e)[:100])
            if not ok:
                nbad += 1
                first = first or ("BoundedGaussian(%r, %r, %r, %r).sample() "
                                  "seed %d %s" % (mu, sd, lo, hi, s, msg))
    if nbad:
        _viol(ck, "sample-size-none-seeded", "%d seeded calls fail; first: "
              "%s" % (nbad, first))
    return digest(fp, nbad)


def _run_bgrej(case, ck, info):
    tier = case["tier"]
    n = case["n"]
    if n == 1:
        def streams_for(sy):
            return _streams(1, sy.out, ["I"] + sy.edge, 3)
    elif n == 3:
        def streams_for(sy):
            o = [s for s in sy.out if s in ("b", "A")] or sy.out[:1]
            return _streams(3, o, ["I"] + sy.edge[:1], 3)
    else:
        def streams_for(sy):
            o = [s for s in sy.out if s in ("b", "a")]
            return _streams7(o, 3)
    only = (case["mu"], case["sd"])
    fp, nseq = _bg_block(ck, info, tier, n, streams_for, only)
    if fp is None:
        info.bump("fallback-seeds-only")
    # real generator: many small calls (a rejection sampler's support
    # guarantee must hold for every call, not only on average); the
    # narrowest bound pattern (acceptance 0.6 %) is left to the n=20000 run
    nbad = 0
    ncall = 0
    first = None
    reps = 100 if tier == "quick" else 200
    for (mu, sd, k) in _bg_params(tier):
        if (mu, sd) != only or k == 5:
            continue
        pr, lo, hi = _mk_bg(mu, sd, k)
        for s in SEEDS[tier]:
            np.random.seed(s)
            for rep in range(reps):
                try:
                    v = pr.sample(n)
                    ok = _shape_ok(v, n) and _insup(v, lo, hi)
                    msg = "returned %r" % (v,)
                except Exception as e:
                    ok = False
                    msg = "raised %s" % type(e).__name__
                ncall += 1
                if not ok:
                    nbad += 1
                    first = first or (
                        "BoundedGaussian(%r, %r, %r, %r).sample(%d), call "
                        "%d after seed %d, %s" % (mu, sd, lo, hi, n, rep, s,
                                                  msg))
    ck.trans += ncall
    info["seeded-calls"] = ncall
    if nbad:
        _viol(ck, "sample-in-support-seeded", "%d of %d seeded calls fail; "
              "first: %s" % (nbad, ncall, first))
    return digest(fp, nbad)


# ---------------------------------------------------------------------------
# constructor rejections
# ---------------------------------------------------------------------------
def _must_reject(ck, check, fn, what, acc):
    try:
        fn()
        ck.trans += 1
    except Exception as e:
        acc.append(type(e).__name__)
        return
    _viol(ck, check, "%s was accepted" % what)
    acc.append("accepted")


def _run_ctor(case, ck, info):
    from holopy.core.prior import Uniform, Gaussian, BoundedGaussian
    acc = []
    n = 0
    if case["which"] == "uniform":
        for a in UBOUNDS:
            for b in UBOUNDS:
                if a >= b:
                    n += 1
                    _must_reject(ck, "ctor-rejects-bounds",
                                 lambda: Uniform(a, b),
                                 "Uniform(%r, %r) (lower >= upper)" % (a, b),
                                 acc)
        for a in [x for x in UBOUNDS if math.isfinite(x)]:
            n += 1
            _must_reject(ck, "ctor-rejects-bounds",
                         lambda: Uniform(_up(a), a),
                         "Uniform(nextafter(%r), %r)" % (a, a), acc)
        # bounds / guesses that are not numbers
        nan = float("nan")
        for a, b, g in ((nan, 1.0, None), (0.0, nan, None), (nan, nan, None),
                        (-INF, nan, None), (0.0, 1.0, nan),
                        (np.float64("nan"), 2.0, None), (0.0, INF, INF),
                        (-INF, 0.0, -INF), (-INF, INF, INF)):
            n += 1
            _must_reject(ck, "ctor-rejects-bounds",
                         lambda: Uniform(a, b, g),
                         "Uniform(%r, %r, guess=%r)" % (a, b, g), acc)
    elif case["which"] == "gaussian":
        for mu in GMU["thorough"]:
            for sd in [0, 0.0, -0.0, -1, -1e-300, -5e-324, -1e300, -INF]:
                n += 1
                _must_reject(ck, "ctor-rejects-width",
                             lambda: Gaussian(mu, sd),
                             "Gaussian(%r, %r) (sd <= 0)" % (mu, sd), acc)
            for sd in (float("nan"), INF):
                n += 1
                _must_reject(ck, "ctor-rejects-width",
                             lambda: Gaussian(mu, sd),
                             "Gaussian(%r, %r)" % (mu, sd), acc)
        for mu in (float("nan"), INF, -INF):
            n += 1
            _must_reject(ck, "ctor-rejects-width", lambda: Gaussian(mu, 1.0),
                         "Gaussian(%r, 1.0)" % (mu,), acc)
    else:
        for mu in GMU["thorough"]:
            for sd in GSD["thorough"]:
                bad = [(mu, mu, "equal bounds at mu"),
                       (mu + sd, mu + sd, "equal bounds"),
                       (-INF, -INF, "equal infinite bounds"),
                       (INF, INF, "equal infinite bounds"),
                       (mu + sd, mu - sd, "lower > upper"),
                       (mu + sd, mu + 2 * sd, "mu below lower"),
                       (mu - 2 * sd, mu - sd, "mu above upper"),
                       (_up(mu), INF, "mu one ulp below lower"),
                       (-INF, _down(mu), "mu one ulp above upper")]
                for lo, hi, why in bad:
                    n += 1
                    _must_reject(ck, "ctor-rejects-bounds",
                                 lambda: BoundedGaussian(mu, sd, lo, hi),
                                 "BoundedGaussian(%r, %r, %r, %r) (%s)" %
                                 (mu, sd, lo, hi, why), acc)
                nan = float("nan")
                for lo, hi in ((nan, mu + sd), (mu - sd, nan), (nan, nan)):
                    n += 1
                    _must_reject(ck, "ctor-rejects-bounds",
                                 lambda: BoundedGaussian(mu, sd, lo, hi),
                                 "BoundedGaussian(%r, %r, %r, %r)" %
                                 (mu, sd, lo, hi), acc)
                for bsd in (0, -sd):
                    n += 1
                    _must_reject(ck, "ctor-rejects-width",
                                 lambda: BoundedGaussian(mu, bsd, mu - 1,
                                                         mu + 1),
                                 "BoundedGaussian(%r, %r, ...) (sd <= 0)" %
                                 (mu, bsd), acc)
    info["rejections-tried"] = n
    return digest(acc)


# ---------------------------------------------------------------------------
# ComplexPrior
# ---------------------------------------------------------------------------
def _mk_part(spec):
    from holopy.core.prior import Uniform, Gaussian, BoundedGaussian
    k = spec[0]
    if k == "U":
        return Uniform(spec[1], spec[2]), (spec[1], spec[2])
    if k == "G":
        return Gaussian(spec[1], spec[2]), (-INF, INF)
    if k == "B":
        return BoundedGaussian(*spec[1:]), (spec[3], spec[4])
    return spec[1], None


def _part_points(spec):
    k = spec[0]
    if k == "U":
        a, b = spec[1], spec[2]
        return [a, b, (a + b) / 2, _down(a), _up(b)]
    if k == "G":
        return [spec[1], spec[1] + spec[2], spec[1] - 10 * spec[2]]
    if k == "B":
        return [spec[1], spec[3], _down(spec[3]), spec[1] + spec[2]]
    return [spec[1], spec[1] + 0.5]


def _run_complex(case, ck, info):
    from holopy.core.prior import ComplexPrior, Prior
    from holopy.core.mapping import Mapper, read_map
    sr, si = CPARTS[case["re"]][1], CPARTS[case["im"]][1]
    re, rsup = _mk_part(sr)
    im, isup = _mk_part(si)
    # imaginary part uses scaled-down copies so that both parts differ
    what = "ComplexPrior(%s, %s)" % (CPARTS[case["re"]][0],
                                     CPARTS[case["im"]][0])
    cp = ComplexPrior(re, im)
    ck.trans += 1
    gr = re.guess if isinstance(re, Prior) else re
    gi = im.guess if isinstance(im, Prior) else im
    g = cp.guess
    ck.true("complex-guess", isinstance(g, complex) and g == complex(gr, gi),
            "%s: guess %r, parts' guesses give %r" % (what, g,
                                                     complex(gr, gi)))
    acc = [repr(g)]
    for x in _part_points(sr):
        for y in _part_points(si):
            p = complex(x, y)
            exp = 0.0
            if isinstance(re, Prior):
                exp += float(re.lnprob(x))
            if isinstance(im, Prior):
                exp += float(im.lnprob(y))
            lp = float(cp.lnprob(p))
            pp = float(cp.prob(p))
            ck.trans += 2
            ok = (lp == exp) or abs(lp - exp) <= 1e-12 * max(1, abs(exp))
            if not ok:
                _viol(ck, "complex-lnprob", "%s.lnprob(%r) = %r, sum of the "
                      "parts' log densities = %r" % (what, p, lp, exp))
            ref = math.exp(exp) if exp > -INF else 0.0
            e = _rel(pp, ref, max(ref, 1e-300))
            ck.metric("lnprob-vs-logprob", min(e, 1.0) if ref < 1e-290
                      else e)
            if not (e <= 1e-12 or abs(pp - ref) <= 1e-290):
                _viol(ck, "complex-prob", "%s.prob(%r) = %r, exp(lnprob) = "
                      "%r" % (what, p, pp, ref))
            outside = (rsup is not None and not rsup[0] <= x <= rsup[1]) or \
                (isup is not None and not isup[0] <= y <= isup[1])
            if outside and not (lp == -INF and pp == 0):
                _viol(ck, "zero-outside-support", "%s at %r: lnprob=%r "
                      "prob=%r outside a part's support" % (what, p, lp, pp))
            acc.append(repr(lp))
    # map (holopy.core.mapping): value placed by the map == complex(values)
    m = Mapper()
    mp = m.convert_to_map(cp, "n")
    vals = []
    for q in m.parameters:
        vals.append(1.75 if q is re else 0.0625)
    got = read_map(mp, vals)
    ck.trans += 2
    exp = complex(1.75 if isinstance(re, Prior) else re,
                  0.0625 if isinstance(im, Prior) else im)
    if isinstance(re, Prior) or isinstance(im, Prior):
        ck.true("map-value", got == exp, "%s: read_map gives %r, expected "
                "%r" % (what, got, exp))
    # sampling
    has_b = sr[0] == "B" or si[0] == "B"
    if not has_b and (isinstance(re, Prior) or isinstance(im, Prior)):
        for size in SIZES:
            for r in range(len(QGRID)):
                qs = QGRID[r:] + QGRID[:r]
                plan = QuantilePlan(qs, qs[::-1])
                with scripted(plan) as s:
                    if s is None:
                        info.bump("seam-absent")
                        break
                    try:
                        br = re.sample(size) if isinstance(re, Prior) else re
                        bi = im.sample(size) if isinstance(im, Prior) else im
                        v = cp.sample(size)
                        ck.trans += 3
                    except SeamUnusable:
                        info.bump("seam-unusable")
                        break
                    except Exception as e:
                        _viol(ck, "sample-raises", "%s.sample(%r) raised %s:"
                              " %s" % (what, size, type(e).__name__, e))
                        continue
                    if not s.calls:
                        info.bump("seam-silent")
                        break
                if size is None:
                    exp = complex(br, bi)
                    ok = np.ndim(v) == 0 and v == exp
                else:
                    exp = np.asarray(br) + 1j * np.asarray(bi) + \
                        np.zeros(size)
                    ok = isinstance(v, np.ndarray) and v.shape == (size,) \
                        and np.array_equal(v, exp)
                if not ok:
                    _viol(ck, "complex-sample", "%s.sample(%r) = %r, parts' "
                          "samples give %r" % (what, size, v, exp))
                info.bump("scripted-samples")
                acc.append(repr(np.asarray(v).tolist()))
    # real generator: shape, support of both parts
    if isinstance(re, Prior) or isinstance(im, Prior):
        for sd_ in SEEDS[case["tier"]]:
            for size in ([1, 7] if has_b else SIZES):
                np.random.seed(sd_)
                try:
                    v = cp.sample(size)
                    ck.trans += 1
                except Exception as e:
                    _viol(ck, "sample-raises", "%s.sample(%r) seed %d raised"
                          " %s: %s" % (what, size, sd_, type(e).__name__, e))
                    continue
                okr = rsup is None or _insup(np.real(v), *rsup)
                oki = isup is None or _insup(np.imag(v), *isup)
                fixed_ok = (isinstance(re, Prior) or
                            np.all(np.real(v) == re)) and \
                    (isinstance(im, Prior) or np.all(np.imag(v) == im))
                if not (_shape_ok(v, size) and okr and oki and fixed_ok):
                    _viol(ck, "complex-sample-support", "%s.sample(%r) seed "
                          "%d returned %r" % (what, size, sd_, v))
    return digest(*acc)


# ---------------------------------------------------------------------------
# algebra: identities and refusals the property states
# ---------------------------------------------------------------------------
def _subjects():
    from holopy.core.prior import (Uniform, Gaussian, BoundedGaussian,
                                   ComplexPrior)
    P = Uniform(0.25, 1.5)
    Q = Gaussian(2.0, 0.5)
    return [("Uniform", P), ("Gaussian", Q),
            ("BoundedGaussian", BoundedGaussian(1.0, 0.5, 0.0, 3.0)),
            ("Transformed(P+Q)", P + Q), ("ufunc(sqrt P)", np.sqrt(P)),
            ("ComplexPrior", ComplexPrior(P, 0.01)),
            ("named Uniform", Uniform(0.0, 1.0, name="x"))]


def _run_ident(case, ck, info):
    from holopy.core.prior import Prior
    acc = []
    zeros = [("0", 0), ("0.0", 0.0), ("-0.0", -0.0),
             ("np.float64(0)", np.float64(0)), ("np.int64(0)", np.int64(0))]
    ones = [("1", 1), ("1.0", 1.0), ("np.float64(1)", np.float64(1)),
            ("np.int64(1)", np.int64(1))]
    for nm, X in _subjects():
        for zn, z in zeros:
            r = X + z
            ck.trans += 1
            ck.true("add-zero-identity", r is X,
                    "%s + %s is not the prior itself (%r)" % (nm, zn, r))
            if not isinstance(z, np.generic):
                r = z + X
                ck.trans += 1
                ck.true("add-zero-identity", r is X,
                        "%s + %s is not the prior itself (%r)" % (zn, nm, r))
        for on, o in ones:
            r = X * o
            ck.trans += 1
            ck.true("mul-one-identity", r is X,
                    "%s * %s is not the prior itself (%r)" % (nm, on, r))
            if not isinstance(o, np.generic):
                r = o * X
                ck.trans += 1
                ck.true("mul-one-identity", r is X,
                        "%s * %s is not the prior itself (%r)" % (on, nm, r))
        for zn, z in zeros:
            forms = [("%s * %s" % (nm, zn), lambda: X * z)]
            if not isinstance(z, np.generic):
                forms.append(("%s * %s" % (zn, nm), lambda: z * X))
            for txt, fn in forms:
                try:
                    r = fn()
                    ck.trans += 1
                except Exception as e:
                    acc.append(type(e).__name__)
                else:
                    _viol(ck, "mul-zero-raises", "%s did not raise (returned"
                          " %r)" % (txt, r))
        # constants that are merely CLOSE to 0 or 1 are ordinary numbers:
        # the result is a new derived prior with the shifted / scaled guess
        g0 = X.guess
        for c in (5e-9, -1e-9, 1e-12, 1e-300):
            for txt, fn in (("%s + %r" % (nm, c), lambda: X + c),
                            ("%r + %s" % (c, nm), lambda: c + X)):
                try:
                    r = fn()
                    ck.trans += 1
                    ok = isinstance(r, Prior) and r is not X and \
                        r.guess == g0 + c
                    det = "guess %r, expected %r" % (
                        getattr(r, "guess", None), g0 + c)
                except Exception as e:
                    ok, det = False, "raised %s: %s" % (type(e).__name__, e)
                ck.true("near-zero-is-a-number", ok, "%s: a constant close "
                        "to 0 was not treated as an ordinary number (%s)" %
                        (txt, det))
        for c in (1e-9, -1e-12, 1 + 1e-6, 1 - 1e-9, 1e9):
            forms = [("%s * %r" % (nm, c), lambda: X * c, g0 * c),
                     ("%r * %s" % (c, nm), lambda: c * X, g0 * c)]
            if c == 1e9:
                forms = [("%s / %r" % (nm, c), lambda: X / c, None)]
            for txt, fn, want in forms:
                try:
                    r = fn()
                    ck.trans += 1
                    ok = isinstance(r, Prior) and r is not X
                    if want is not None:
                        ok = ok and r.guess == want
                    else:
                        ok = ok and abs(r.guess - g0 / c) <= \
                            4 * np.spacing(abs(g0 / c))
                    det = "guess %r" % (getattr(r, "guess", None),)
                except Exception as e:
                    ok, det = False, "raised %s: %s" % (type(e).__name__, e)
                ck.true("near-one-is-a-number", ok, "%s: a constant close to "
                        "0 or 1 was not treated as an ordinary number (%s)" %
                        (txt, det))
        # a non-trivial operand gives a new derived prior, not the operand
        for txt, fn in (("%s + 2" % nm, lambda: X + 2),
                        ("%s * 2" % nm, lambda: X * 2),
                        ("-%s" % nm, lambda: -X)):
            r = fn()
            ck.trans += 1
            ck.true("closure-type", isinstance(r, Prior) and r is not X,
                    "%s is not a new derived prior: %r" % (txt, r))
    return digest(acc)


def _run_unsup(case, ck, info):
    acc = []
    bad = [("'s'", "s"), ("[1, 2]", [1, 2]), ("(1, 2)", (1, 2)),
           ("None", None), ("{}", {}), ("b'x'", b"x")]
    for nm, X in _subjects():
        for bn, b in bad:
            for txt, fn in (("%s + %s" % (nm, bn), lambda: X + b),
                            ("%s + %s" % (bn, nm), lambda: b + X),
                            ("%s * %s" % (nm, bn), lambda: X * b),
                            ("%s * %s" % (bn, nm), lambda: b * X),
                            ("%s - %s" % (nm, bn), lambda: X - b),
                            ("%s / %s" % (nm, bn), lambda: X / b),
                            ("%s ** %s" % (nm, bn), lambda: X ** b),
                            ("%s ** %s" % (bn, nm), lambda: b ** X),
                            ("np.add(%s, %s)" % (nm, bn),
                             lambda: np.add(X, b)),
                            ("np.multiply(%s, %s)" % (bn, nm),
                             lambda: np.multiply(b, X)),
                            ("np.power(%s, %s)" % (nm, bn),
                             lambda: np.power(X, b))):
                try:
                    r = fn()
                    ck.trans += 1
                except Exception as e:
                    acc.append(type(e).__name__)
                else:
                    _viol(ck, "unsupported-type-raises", "%s did not raise "
                          "(returned %r)" % (txt, r))
        for txt, fn in (("%s * 1j" % nm, lambda: X * 1j),
                        ("1j * %s" % nm, lambda: 1j * X),
                        ("%s * (2+0j)" % nm, lambda: X * (2 + 0j))):
            try:
                r = fn()
                ck.trans += 1
            except Exception as e:
                acc.append(type(e).__name__)
            else:
                _viol(ck, "unsupported-type-raises", "%s did not raise "
                      "(returned %r)" % (txt, r))
    return digest(acc)


def _run_cplxconst(case, ck, info):
    """complex NUMBERS in expressions (added by the lead): guess and samples
    of the derived prior equal the same operation applied to the base
    prior's guess and samples, for sizes None, 1 and n.  The base samples
    are reproduced by re-seeding the real generator."""
    import operator
    from holopy.core.prior import Uniform, Gaussian, ComplexPrior
    acc = []
    bases = [("Uniform(0.25,1.5)", lambda: Uniform(0.25, 1.5)),
             ("Gaussian(2,0.5)", lambda: Gaussian(2.0, 0.5)),
             ("ComplexPrior(U,0.5)", lambda: ComplexPrior(Uniform(1, 2),
                                                          0.5))]
    exprs = [("P + 1e-3j", lambda P: P + 1e-3j, lambda v: v + 1e-3j),
             ("(2+0.5j) + P", lambda P: (2 + 0.5j) + P,
              lambda v: (2 + 0.5j) + v),
             ("P * (1+1j)", lambda P: P * (1 + 1j), lambda v: v * (1 + 1j)),
             ("P - 2j", lambda P: P - 2j, lambda v: v - 2j),
             ("np.multiply(P, 1j)", lambda P: np.multiply(P, 1j),
              lambda v: v * 1j),
             ("np.add(P, 3-1j)", lambda P: np.add(P, 3 - 1j),
              lambda v: v + (3 - 1j))]
    for bn, mk in bases:
        for en, build, ref in exprs:
            P = mk()
            try:
                D = build(P)
            except TypeError:
                acc.append("refused:" + bn + en)   # an explicit refusal
                continue
            ck.trans += 1
            g, gr = D.guess, ref(P.guess)
            ck.true("derived-guess:complex-constant",
                    abs(complex(g) - complex(gr)) <= 1e-15 * abs(gr),
                    "%s with P=%s: guess %r, expected %r" % (en, bn, g, gr))
            for size in (None, 1, 5):
                for seed in (0, 1):
                    np.random.seed(seed)
                    base = P.sample(size)
                    np.random.seed(seed)
                    got = D.sample(size)
                    ck.trans += 2
                    want = ref(np.asarray(base))
                    ok = np.shape(got) == np.shape(want) and np.allclose(
                        np.asarray(got, dtype=complex),
                        np.asarray(want, dtype=complex), rtol=1e-14, atol=0)
                    ck.true("derived-sample:complex-constant", ok,
                            "%s with P=%s, size=%r: sample %r, the operation "
                            "applied to the base samples gives %r" %
                            (en, bn, size, np.asarray(got).tolist(),
                             np.asarray(want).tolist()))
                    acc.append(np.round(np.asarray(got, dtype=complex), 9))
    return digest(*[a if isinstance(a, str) else a for a in acc])


def _run_unsigned(case, ck, info):
    """constants of unsigned integer type (pixel counts, indices): the
    derived prior's guess is the operation applied to the base guess"""
    acc = []
    for nm, X in _subjects()[:4]:
        g0 = X.guess
        for tn, t in (("np.uint8", np.uint8), ("np.uint16", np.uint16),
                      ("np.uint64", np.uint64)):
            for on, op, want in (
                    ("P - %s(1)" % tn, lambda: X - t(1), g0 - 1),
                    ("P + %s(1)" % tn, lambda: X + t(1), g0 + 1),
                    ("P * %s(2)" % tn, lambda: X * t(2), g0 * 2),
                    ("P / %s(2)" % tn, lambda: X / t(2), g0 / 2),
                    ("P - array([1, 2], %s)" % tn[3:],
                     lambda: (X - np.array([1, 2], dtype=t))[1], g0 - 2)):
                try:
                    r = op()
                    ck.trans += 1
                    g = r.guess
                except Exception as e:
                    ck.true("derived-guess", False, "%s with P=%s raised "
                            "%s: %s" % (on, nm, type(e).__name__,
                                        str(e)[:80]))
                    continue
                ok = abs(g - want) <= 1e-12 * max(1.0, abs(want))
                ck.true("derived-guess", ok, "%s with P=%s (guess %r) has "
                        "guess %r, expected %r" % (on, nm, g0, g, want))
                acc.append(repr(float(np.real(g))))
    return digest(acc)


def _run_gint(case, ck, info):
    """Gaussian priors whose width or evaluation point is a NumPy integer
    (a count, a pixel index): log-density = log(density), as for floats"""
    from holopy.core.prior import Gaussian
    acc = []
    for mu, sd, pts in (
            (0, np.int32(65536), [1, 70000, np.int32(-65536)]),
            (np.int64(3), np.int16(300), [np.int16(200), 2.5]),
            (0, 1, [np.int64(2 ** 32), np.int32(5), np.uint8(3)]),
            (0.0, np.uint16(50000), [np.uint16(60000), 100.0]),
            (np.uint8(5), 2, [3, np.uint8(3), 7.5]),
            (np.uint64(100), 3.0, [97, np.uint16(97)])):
        try:
            P = Gaussian(mu, sd)
        except Exception as e:
            ck.true("gaussian-integer-arguments", False, "Gaussian(%r, %r) "
                    "raised %s: %s" % (mu, sd, type(e).__name__, e))
            continue
        for p in pts:
            z = (float(p) - float(mu)) / float(sd)
            want = -math.log(float(sd)) - 0.5 * math.log(2 * math.pi) \
                - 0.5 * z * z
            try:
                got = float(P.lnprob(p))
                ck.trans += 1
            except Exception as e:
                ck.true("gaussian-integer-arguments", False, "Gaussian(%r, "
                        "%r).lnprob(%r) raised %s: %s" %
                        (mu, sd, p, type(e).__name__, e))
                continue
            ok = abs(got - want) <= 1e-12 * max(1.0, abs(want))
            ck.true("gaussian-integer-arguments", ok, "Gaussian(%r, %r)."
                    "lnprob(%r) = %r, the log of the density is %r" %
                    (mu, sd, p, got, want))
            pr = float(P.prob(p))
            ck.trans += 1
            ck.true("gaussian-integer-arguments", abs(pr - math.exp(want))
                    <= 1e-12 * math.exp(want), "Gaussian(%r, %r).prob(%r) = "
                    "%r, the density is %r" % (mu, sd, p, pr, math.exp(want)))
            acc.append(repr(round(want, 9)))
    # Uniform priors whose bounds are narrow / unsigned integers
    from holopy.core.prior import Uniform
    for lo, hi in ((np.int8(-100), np.int8(100)), (np.uint8(3), np.uint8(250)),
                   (np.int16(-30000), np.int16(30000)),
                   (np.int8(-100), 100)):
        U = Uniform(lo, hi)
        w = float(hi) - float(lo)
        mid = float(lo) + w / 2
        got_p, got_l = float(U.prob(mid)), float(U.lnprob(mid))
        ck.trans += 2
        ck.true("uniform-integer-bounds", abs(got_p - 1 / w) <= 1e-12 / w and
                abs(got_l + math.log(w)) <= 1e-12 and
                float(U.interval) == w, "Uniform(%r, %r): interval %r, "
                "prob %r, lnprob %r (width %r)" %
                (lo, hi, U.interval, got_p, got_l, w))
    return digest(acc)


def _run_repeated(case, ck, info):
    """a prior used more than once in ONE expression is one quantity: the
    derived samples are the expression evaluated on ITS samples (real
    generator, re-seeded before each draw; no statistics involved)"""
    from holopy.core.prior import Uniform, Gaussian
    acc = []
    for nm, mk in (("Uniform(1, 3)", lambda: Uniform(1.0, 3.0)),
                   ("Gaussian(2, 0.5)", lambda: Gaussian(2.0, 0.5))):
        for en, f, build in (
                ("P - P", lambda p: p - p, None),
                ("P / P", lambda p: p / p, None),
                ("2 * P - P", lambda p: 2 * p - p, None),
                ("(P + 1) * (P - 1)", lambda p: (p + 1) * (p - 1), None),
                ("np.sqrt(P * P)", lambda p: np.sqrt(p * p), None),
                # a derived prior that was given a name on the way is still
                # a function of the same P
                ("(P + 1).renamed('s') - P", lambda p: (p + 1) - p,
                 lambda P: (P + 1).renamed("s") - P),
                ("(2 * P).renamed('d') - P", lambda p: 2 * p - p,
                 lambda P: (2 * P).renamed("d") - P),
                ("P * (P + 1).renamed('s')", lambda p: p * (p + 1),
                 lambda P: P * (P + 1).renamed("s")),
                ("(P ** 2).renamed('q') / P", lambda p: p ** 2 * (1 / p),
                 lambda P: (P ** 2).renamed("q") / P),
                ("((P + 1).renamed('s') * 2).renamed('t') - P",
                 lambda p: (p + 1) * 2 - p,
                 lambda P: ((P + 1).renamed("s") * 2).renamed("t") - P),
                ("(-P).renamed('m') + P", lambda p: -p + p,
                 lambda P: (-P).renamed("m") + P)):
            P = mk()
            try:
                E = (build or f)(P)
            except Exception as e:
                ck.true("derived-sample", False, "building %s with P=%s "
                        "raised %s: %s" % (en, nm, type(e).__name__, e))
                continue
            if build is not None:
                g_want = float(f(float(P.guess)))
                ck.true("derived-guess", abs(float(E.guess) - g_want) <=
                        1e-12 * max(1.0, abs(g_want)), "(%s).guess with P=%s "
                        "is %r, the expression on P's guess gives %r" %
                        (en, nm, E.guess, g_want))
            for size in (None, 1, 5):
                np.random.seed(4711)
                base = P.sample(size)
                np.random.seed(4711)
                try:
                    got = E.sample(size)
                    ck.trans += 2
                except Exception as e:
                    ck.true("derived-sample", False, "(%s).sample(%r) with "
                            "P=%s raised %s: %s" %
                            (en, size, nm, type(e).__name__, e))
                    continue
                want = f(np.asarray(base, dtype=float))
                ok = np.shape(got) == np.shape(want) and bool(np.allclose(
                    np.asarray(got, dtype=float), want, rtol=1e-13,
                    atol=1e-13))
                ck.true("derived-sample", ok, "(%s).sample(%r) with P=%s: "
                        "got %r; the expression on P's samples %r gives %r" %
                        (en, size, nm, np.asarray(got).tolist(),
                         np.asarray(base).tolist(),
                         np.asarray(want).tolist()))
                acc.append(np.round(np.asarray(want, dtype=float), 9))
    return digest(*acc)


def _run_npleft(case, ck, info):
    """a NumPy scalar as the LEFT operand: numpy dispatches to
    __array_ufunc__ instead of the reflected operator."""
    acc = []
    for nm, X in _subjects()[:4]:
        for tn, t in (("np.float64", np.float64), ("np.int64", np.int64),
                      ("np.float32", np.float32)):
            try:
                r = t(0) + X
                ck.trans += 1
                ck.true("add-zero-identity", r is X, "%s(0) + %s is not the "
                        "prior itself: %r" % (tn, nm, r))
            except Exception as e:
                acc.append(type(e).__name__)
            try:
                r = t(1) * X
                ck.trans += 1
                ck.true("mul-one-identity", r is X, "%s(1) * %s is not the "
                        "prior itself: %r" % (tn, nm, r))
            except Exception as e:
                acc.append(type(e).__name__)
            try:
                r = t(0) * X
                ck.trans += 1
            except Exception as e:
                acc.append(type(e).__name__)
            else:
                _viol(ck, "mul-zero-raises", "%s(0) * %s did not raise "
                      "(returned a prior with guess %r)" %
                      (tn, nm, getattr(r, "guess", None)))
            # a non-special numpy scalar on the left must still give a
            # derived prior with the right guess
            r = t(2) * X
            ck.trans += 1
            g = r.guess
            ck.true("derived-guess", abs(g - 2 * X.guess) <= 1e-6 *
                    abs(X.guess), "%s(2) * %s has guess %r" % (tn, nm, g))
            acc.append(repr(float(np.real(g))))
    return digest(acc)


# ---------------------------------------------------------------------------
# expression trees
# ---------------------------------------------------------------------------
def _b_add(a, b):
    return a + b


def _b_sub(a, b):
    return a - b


def _b_mul(a, b):
    return a * b


def _b_div(a, b):
    return a / b


def _b_pow(a, b):
    return a ** b


def _b_max(a, b):
    return np.maximum(a, b)


def _u_neg(a):
    return -a


_BINF = {"add": _b_add, "sub": _b_sub, "mul": _b_mul, "div": _b_div,
         "pow": _b_pow, "max": _b_max}
_UNAF = {"neg": _u_neg, "sqrt": np.sqrt, "exp": np.exp}
_CACHE = {}


def _isnum(t):
    return t.__class__ is tuple and t[0] == "n"


def _has_prior(t):
    if t.__class__ is str:
        return True
    if t[0] == "n":
        return False
    return any(_has_prior(c) for c in t[1:])


def _first_prior(t):
    if t.__class__ is str:
        return t
    if t[0] == "n":
        return None
    for c in t[1:]:
        r = _first_prior(c)
        if r:
            return r
    return None


def _nprior(t):
    if t.__class__ is str:
        return 1
    if t[0] == "n":
        return 0
    return sum(_nprior(c) for c in t[1:])


def _depth1():
    """every expression of depth <= 1 over the scalar leaves, fixed order"""
    if "d1" not in _CACHE:
        out = list(LEAVES)
        for op in BIN:
            for l in LEAVES:
                for r in LEAVES:
                    out.append((op, l, r))
        for op in UNA:
            for l in LEAVES:
                out.append((op, l))
        _CACHE["d1"] = out
    return _CACHE["d1"]


def _steps(e):
    """one more comb step: e combined with every leaf on either side, and
    every unary operator"""
    seen = set()
    for op in BIN:
        for l in LEAVES:
            for t in ((op, e, l), (op, l, e)):
                if t not in seen:
                    seen.add(t)
                    yield t
    for op in UNA:
        yield (op, e)


def _spine1():
    if "s1" not in _CACHE:
        out = []
        for p in ("P", "Q"):
            for t in _steps(p):
                if t not in out:
                    out.append(t)
        _CACHE["s1"] = out
    return _CACHE["s1"]


def show(t):
    if t.__class__ is str:
        return t
    if t[0] == "n":
        return repr(t[1])
    if len(t) == 3:
        if t[0] == "max":
            return "np.maximum(%s, %s)" % (show(t[1]), show(t[2]))
        return "(%s %s %s)" % (show(t[1]), SYM[t[0]], show(t[2]))
    if t[0] == "neg":
        return "(-%s)" % show(t[1])
    return "np.%s(%s)" % (t[0], show(t[1]))


def ev(t, env):
    """the same operations on plain numbers (reference model)"""
    if t.__class__ is str:
        return env[t]
    if t[0] == "n":
        return t[1]
    if len(t) == 3:
        return _BINF[t[0]](ev(t[1], env), ev(t[2], env))
    return _UNAF[t[0]](ev(t[1], env))


class Unclean(Exception):
    pass


def _real(x):
    if isinstance(x, (bool, np.bool_)):
        raise Unclean
    if isinstance(x, (int, float, np.floating, np.integer)):
        x = float(x)
        if x != x or x in (INF, -INF):
            raise Unclean
        return x
    raise Unclean


def evb(t, env):
    """reference value with a forward error bound (corner evaluation of the
    operand intervals + 4 roundings per node).  Raises Unclean when an
    intermediate is not a finite real or an operand interval touches a
    pole."""
    if t.__class__ is str:
        return _real(env[t]), 0.0
    if t[0] == "n":
        return _real(t[1]), 0.0
    try:
        if len(t) == 3:
            f = _BINF[t[0]]
            a, ea = evb(t[1], env)
            b, eb = evb(t[2], env)
            v = _real(f(a, b))
            if t[0] == "div" and abs(b) <= 2 * eb:
                raise Unclean
            if t[0] == "pow" and (abs(a) <= 2 * ea or (a < 0 and eb > 0)):
                raise Unclean
            e = 0.0
            if ea or eb:
                for sa in ((-1, 1) if ea else (0,)):
                    for sb in ((-1, 1) if eb else (0,)):
                        c = _real(f(a + sa * 2 * ea, b + sb * 2 * eb))
                        e = max(e, abs(c - v))
            if t[0] == "pow":
                # libm pow is accurate to an ulp, but the result's
                # sensitivity to the rounding of its own operands is
                # already in the corners; keep a little extra head-room
                e += 4 * U * abs(v)
            return v, e + 4 * U * abs(v)
        f = _UNAF[t[0]]
        a, ea = evb(t[1], env)
        v = _real(f(a))
        e = 0.0
        if ea:
            for sa in (-1, 1):
                c = _real(f(a + sa * 2 * ea))
                e = max(e, abs(c - v))
        return v, e + 4 * U * abs(v)
    except Unclean:
        raise
    except Exception:
        raise Unclean


def _classify(op, side, c):
    """what the property demands when a prior meets the number c.
    -> must (accept) / may (either) / raise (must raise)"""
    npleft = isinstance(c, np.generic) and side == "L"
    if isinstance(c, complex) and not isinstance(c, numbers.Real):
        return "raise" if op == "mul" else "may"
    if isinstance(c, (bool, np.bool_)) or not isinstance(
            c, (int, float, np.floating, np.integer)):
        return "may"
    cf = float(c)
    if cf != cf or cf in (INF, -INF):
        return "may"
    if op == "mul":
        if cf == 0:
            return "may" if npleft else "raise"
        return "must"
    if op == "div":
        return "may" if cf == 0 else "must"
    return "must"


class Trees:
    """builds expressions on the real Prior objects and compares guess,
    samples and map placement with the reference model."""

    VP, VQ = 0.6875, 1.8125

    def __init__(self, ck, info, level):
        from holopy.core.prior import Uniform, Gaussian, Prior
        from holopy.core.mapping import Mapper, read_map
        self.ck, self.info, self.level = ck, info, level
        self.Prior, self.Mapper, self.read_map = Prior, Mapper, read_map
        self.P = Uniform(0.25, 1.5)
        self.Q = Gaussian(2.0, 0.5)
        self.pri = {"P": self.P, "Q": self.Q}
        self.genv = {"P": self.P.guess, "Q": self.Q.guess}
        self.fp = []
        self.seam = self._probe()
        if level == "full":
            self.plans = [(None, (qu, qn)) for qu in QGRID for qn in QGRID]
            for n in (1, 7):
                for r in range(len(QGRID)):
                    self.plans.append((n, r))
        else:
            self.plans = [(None, (0.25, 0.75)), (None, (1 - 1e-12, 1e-12)),
                          (None, (0.0, 0.5)), (1, 2), (7, 0), (7, 3)]
        self._mk = {}

    def _probe(self):
        with scripted(QuantilePlan([0.5], [0.5])) as s:
            if s is None:
                self.info["seam"] = "absent"
                return False
            try:
                self.P.sample()
                self.Q.sample(2)
            except Exception:
                self.info["seam"] = "unusable"
                return False
            if len(s.calls) < 2:
                self.info["seam"] = "silent"
                return False
        self.info["seam"] = "scripted"
        return True

    def _plan(self, spec):
        if spec not in self._mk:
            size, a = spec
            if size is None:
                p = QuantilePlan([a[0]], [a[1]])
            else:
                qs = QGRID[a:] + QGRID[:a]
                p = QuantilePlan(qs, qs[::-1][2:] + qs[::-1][:2])
            self._mk[spec] = p
        return self._mk[spec]

    # -- construction -------------------------------------------------------
    def build(self, t):
        """-> (kind, obj); kind in num / pri / ref (refused) / inv"""
        ck = self.ck
        if t.__class__ is str:
            return "pri", self.pri[t]
        if t[0] == "n":
            return "num", t[1]
        if len(t) == 2:
            k, x = self.build(t[1])
            if k in ("ref", "inv"):
                return k, x
            try:
                r = _UNAF[t[0]](x)
            except Exception as e:
                if k == "num":
                    return "inv", type(e).__name__
                ck.viol.append({"check": "closure-unary", "msg":
                                "%s raised %s: %s" % (show(t),
                                                      type(e).__name__, e)})
                return "ref", type(e).__name__
            if k == "num":
                return "num", r
            ck.trans += 1
            if not isinstance(r, self.Prior):
                ck.viol.append({"check": "closure-type", "msg": "%s is a %s,"
                                " not a prior" % (show(t),
                                                  type(r).__name__)})
                return "ref", "non-prior"
            return "pri", r
        kl, l = self.build(t[1])
        if kl in ("ref", "inv"):
            return kl, l
        kr, r = self.build(t[2])
        if kr in ("ref", "inv"):
            return kr, r
        f = _BINF[t[0]]
        if kl == "num" and kr == "num":
            try:
                return "num", f(l, r)
            except Exception as e:
                return "inv", type(e).__name__
        op = t[0]
        if kl == "num":
            status, c, X = _classify(op, "L", l), l, r
        elif kr == "num":
            status, c, X = _classify(op, "R", r), r, l
        else:
            status, c, X = "must", None, None
        try:
            res = f(l, r)
            ck.trans += 1
        except Exception as e:
            if status == "must":
                ck.viol.append({"check": "closure:%s" % op, "msg":
                                "%s raised %s: %s" % (show(t),
                                                      type(e).__name__, e)})
            self.info.bump("refused:" + type(e).__name__)
            return "ref", type(e).__name__
        if status == "raise":
            ck.viol.append({"check": "mul-zero-raises" if not isinstance(
                c, complex) else "unsupported-type-raises", "msg":
                "%s did not raise (operand %r)" % (show(t), c)})
            return "ref", "should-have-raised"
        if not isinstance(res, self.Prior):
            if status == "must":
                ck.viol.append({"check": "closure-type", "msg": "%s is a %s,"
                                " not a prior" % (show(t),
                                                  type(res).__name__)})
            return "ref", "non-prior"
        if c is not None and status == "must" and not (
                isinstance(c, np.generic) and kl == "num"):
            if op == "add" and c == 0 and res is not X:
                ck.viol.append({"check": "add-zero-identity", "msg":
                                "%s is not the prior operand itself" %
                                show(t)})
            if op == "mul" and c == 1 and res is not X:
                ck.viol.append({"check": "mul-one-identity", "msg":
                                "%s is not the prior operand itself" %
                                show(t)})
        return "pri", res

    # -- comparison ---------------------------------------------------------
    def compare(self, check, hol, exc, t, env, what):
        """hol: observed value (exc None) or exc: exception raised"""
        info = self.info
        try:
            ref = ev(t, env)
        except Exception:
            info.bump("ref-undefined")
            return
        if exc is None:
            h = hol
            try:
                if (h == ref) or (h != h and ref != ref):
                    if not isinstance(h, (numbers.Number, np.generic)):
                        raise TypeError
                    info.bump("exact")
                    return
            except Exception:
                self.ck.viol.append({"check": check + "-type", "msg":
                                     "%s of %s is %r" % (what, show(t), h)})
                return
        try:
            v, e = evb(t, env)
        except Unclean:
            info.bump("ref-unclean")
            return
        if exc is not None:
            self.ck.viol.append({"check": check + "-raises", "msg":
                                 "%s of %s raised %s: %s, the same "
                                 "operations on the base values give %r" %
                                 (what, show(t), type(exc).__name__,
                                  str(exc)[:100], v)})
            return
        try:
            hf = _real(h)
        except Unclean:
            self.ck.viol.append({"check": check, "msg":
                                 "%s of %s is %r, the same operations on the"
                                 " base values give %r" % (what, show(t), h,
                                                           v)})
            return
        ratio = abs(hf - v) / (e + 5e-324)
        self.ck.metric("derived-ratio", ratio)
        info.bump("within-bound")
        if not ratio <= TOLERANCES["derived-ratio"]:
            self.ck.viol.append({"check": check, "msg":
                                 "%s of %s is %r, the same operations on the"
                                 " base values (%r) give %r (error bound "
                                 "%.2e)" % (what, show(t), hf, env, v, e)})

    # -- one expression -----------------------------------------------------
    def check(self, t):
        info = self.info
        info.bump("expressions")
        k, obj = self.build(t)
        if k != "pri":
            info.bump("not-constructed:" + k)
            return
        info.bump("constructed")
        ck = self.ck
        # guess
        try:
            g, exc = obj.guess, None
        except Exception as e:
            g, exc = None, e
        ck.trans += 1
        self.compare("derived-guess", g, exc, t, self.genv, "guess")
        if exc is None:
            try:
                self.fp.append(float(np.real(g)))
            except Exception:
                pass
        # map placement (holopy.core.mapping)
        try:
            m = self.Mapper()
            mp = m.convert_to_map(obj, "x")
            vals = [self.VP if p is self.P else self.VQ
                    for p in m.parameters]
            got, exc = self.read_map(mp, vals), None
        except Exception as e:
            got, exc = None, e
        ck.trans += 2
        self.compare("map-value", got, exc, t,
                     {"P": self.VP, "Q": self.VQ}, "read_map(convert_to_map)")
        # samples
        if self.seam:
            for spec in self.plans:
                self.sample_scripted(t, obj, spec)
        else:
            self.sample_seeded(t, obj)

    def sample_scripted(self, t, obj, spec):
        size = spec[0]
        with scripted(self._plan(spec)) as s:
            bp = self.P.sample(size)
            bq = self.Q.sample(size)
            if not (_shape_ok(bp, size) and _shape_ok(bq, size)):
                # the base priors themselves are broken; that is decided in
                # the uniform:/gaussian: cases, nothing to compare here
                self.info.bump("base-sample-malformed")
                return
            del s.calls[:]
            try:
                h, exc = obj.sample(size), None
            except (SeamUnusable, SeamRunaway):
                self.info.bump("seam-unusable")
                return
            except Exception as e:
                h, exc = None, e
            ncalls = len(s.calls)
        self.ck.trans += 1
        if exc is None and ncalls == 0:
            self.info.bump("seam-silent")
            return
        what = "sample(%r) [scripted answers P=%r Q=%r]" % (
            size, np.asarray(bp).ravel()[:2].tolist(),
            np.asarray(bq).ravel()[:2].tolist())
        if size is None:
            self.compare("derived-sample", h, exc, t, {"P": bp, "Q": bq},
                         what)
            return
        if exc is None and not (isinstance(h, np.ndarray)
                                and h.shape == (size,)):
            self.ck.viol.append({"check": "derived-sample-shape", "msg":
                                 "%s of %s has shape %r" %
                                 (what, show(t), np.shape(h))})
            return
        for i in range(size):
            self.compare("derived-sample", None if exc else h[i], exc, t,
                         {"P": bp[i], "Q": bq[i]}, what + " element %d" % i)
            if exc is not None:
                break

    def sample_seeded(self, t, obj):
        """fallback without the seam: enumerated seeds of the real
        generator; values are compared only when the expression draws from
        one base prior once (no assumption on the order of draws)."""
        self.info.bump("fallback-seeds-only")
        single = _nprior(t) == 1
        name = _first_prior(t)
        for seed in (0, 1):
            for size in SIZES:
                np.random.seed(seed)
                b = self.pri[name].sample(size)
                np.random.seed(seed)
                try:
                    h, exc = obj.sample(size), None
                except Exception as e:
                    h, exc = None, e
                self.ck.trans += 1
                what = "sample(%r) [seed %d]" % (size, seed)
                if size is not None and exc is None and not (
                        isinstance(h, np.ndarray) and h.shape == (size,)):
                    self.ck.viol.append({
                        "check": "derived-sample-shape", "msg":
                        "%s of %s has shape %r" % (what, show(t),
                                                   np.shape(h))})
                    continue
                if not single:
                    continue
                if size is None:
                    self.compare("derived-sample", h, exc, t, {name: b},
                                 what)
                else:
                    for i in range(size):
                        self.compare("derived-sample",
                                     None if exc else h[i], exc, t,
                                     {name: b[i]}, what)
                        if exc is not None:
                            break


def _run_tree1(case, ck, info):
    T = Trees(ck, info, "full")
    for t in _depth1():
        if _has_prior(t):
            T.check(t)
    return digest(np.array(T.fp))


def _run_tree2(case, ck, info):
    T = Trees(ck, info, "light")
    D1 = _depth1()
    L = D1[case["i"]]
    nl = len(LEAVES)
    for op in BIN:
        for j, R in enumerate(D1):
            if case["i"] < nl and j < nl:
                continue            # depth 1, covered by tree:d1
            t = (op, L, R)
            if _has_prior(t):
                T.check(t)
    return digest(np.array(T.fp))


def _run_tree2u(case, ck, info):
    T = Trees(ck, info, "light")
    for X in _depth1()[len(LEAVES):]:
        if _has_prior(X):
            for op in UNA:
                T.check((op, X))
    return digest(np.array(T.fp))


def _run_tree3(case, ck, info):
    T = Trees(ck, info, "light")
    T.plans = [(None, (0.25, 0.75)), (7, 0)]
    e1 = _spine1()[case["i"]]
    for e2 in _steps(e1):
        for e3 in _steps(e2):
            T.check(e3)
            info.bump("depth3-expressions")
    return digest(np.array(T.fp))


# ---------------------------------------------------------------------------
# ndarray operand in direct contact with a prior
# ---------------------------------------------------------------------------
ARR = [1, 2]
ARR0 = [0.0, 1.0, 2.5]


def _nd_bases(T):
    """(tree, object) for every prior-valued expression of depth <= 1"""
    out = []
    for t in _depth1():
        if not _has_prior(t):
            continue
        nv = len(T.ck.viol)
        k, obj = T.build(t)
        del T.ck.viol[nv:]          # asserted in tree:d1, not here
        if k == "pri":
            out.append((t, obj))
    return out


def _run_ndelem(case, ck, info):
    """prior (op) ndarray -> ndarray of priors, element i == prior (op) a_i"""
    T = Trees(ck, info, "light")
    A = np.array(ARR)
    n = 0
    for t, obj in _nd_bases(T):
        for op in ("add", "sub", "mul", "div"):
            txt = "%s %s np.array(%r)" % (show(t), SYM[op], ARR)
            try:
                r = _BINF[op](obj, A)
                ck.trans += 1
            except Exception as e:
                _viol(ck, "closure:ndarray", "%s raised %s: %s" %
                      (txt, type(e).__name__, e))
                continue
            if not (isinstance(r, np.ndarray) and r.shape == A.shape and
                    all(isinstance(x, T.Prior) for x in r)):
                _viol(ck, "closure-type", "%s is not an array of priors: %r"
                      % (txt, r))
                continue
            for i, a in enumerate(ARR):
                et = (op, t, ("n", a))
                n += 1
                try:
                    g, exc = r[i].guess, None
                except Exception as e:
                    g, exc = None, e
                T.compare("derived-guess", g, exc, et, T.genv,
                          "guess of element %d" % i)
                if T.seam:
                    for spec in T.plans:
                        T.sample_scripted(et, r[i], spec)
            if op == "mul":
                ck.true("mul-one-identity", r[0] is obj, "(%s)[0] is not the"
                        " prior itself although a_0 == 1" % txt)
    P = T.P
    r = P + np.array(ARR0)
    ck.true("add-zero-identity", r[0] is P, "(P + np.array(%r))[0] is not P"
            % ARR0)
    try:
        r = P * np.array(ARR0)
        _viol(ck, "mul-zero-raises", "P * np.array(%r) did not raise "
              "although a_0 == 0" % ARR0)
    except Exception:
        pass
    ck.trans += 2
    info["elements"] = n
    return digest(np.array(T.fp), n)


def _run_ndarr(case, ck, info):
    """ndarray (op) prior, np.maximum(prior, ndarray), prior ** ndarray ->
    one array-valued derived prior"""
    T = Trees(ck, info, "light")
    A = np.array(ARR)
    acc = []
    nexp = 0
    bad_shape = []
    bad_val = []
    for t, obj in _nd_bases(T):
        forms = [(op, "L") for op in BIN] + [("max", "R"), ("pow", "R")]
        for op, side in forms:
            if side == "L":
                txt = "np.array(%r) %s %s" % (ARR, SYM.get(op, op), show(t))
                fn = lambda: _BINF[op](A, obj)
                mk = lambda a: (op, ("n", a), t)
            else:
                txt = ("np.maximum(%s, np.array(%r))" if op == "max" else
                       "%s ** np.array(%r)") % (show(t), ARR)
                fn = lambda: _BINF[op](obj, A)
                mk = lambda a: (op, t, ("n", a))
            try:
                r = fn()
                ck.trans += 1
            except Exception as e:
                _viol(ck, "closure:ndarray", "%s raised %s: %s" %
                      (txt, type(e).__name__, e))
                continue
            if not isinstance(r, T.Prior):
                _viol(ck, "closure-type", "%s is a %s, not a prior" %
                      (txt, type(r).__name__))
                continue
            nexp += 1
            if case["part"] == "guess":
                try:
                    g, exc = r.guess, None
                    if np.shape(g) != (len(ARR),):
                        _viol(ck, "derived-guess-shape", "guess of %s has "
                              "shape %r" % (txt, np.shape(g)))
                        continue
                except Exception as e:
                    g, exc = None, e
                for i, a in enumerate(ARR):
                    T.compare("derived-guess", None if exc else g[i], exc,
                              mk(a), T.genv, "guess[%d] of %s" % (i, txt))
                for spec in T.plans[:2]:
                    if not T.seam:
                        break
                    with scripted(T._plan(spec)):
                        bp, bq = T.P.sample(), T.Q.sample()
                        try:
                            h, exc = r.sample(), None
                        except Exception as e:
                            h, exc = None, e
                    ck.trans += 1
                    if exc is None and np.shape(h) != (len(ARR),):
                        _viol(ck, "derived-sample-shape", "%s.sample() has "
                              "shape %r" % (txt, np.shape(h)))
                        continue
                    for i, a in enumerate(ARR):
                        T.compare("derived-sample", None if exc else h[i],
                                  exc, mk(a), {"P": bp, "Q": bq},
                                  "sample()[%d] of %s" % (i, txt))
                continue
            # sample(size=n): n rows, row j == operation(array, base sample j)
            if not T.seam:
                info.bump("fallback-seeds-only")
                for size in (1, 2, 7):
                    np.random.seed(0)
                    try:
                        h = np.asarray(r.sample(size))
                    except Exception as e:
                        bad_shape.append("%s.sample(%d) raised %s" %
                                         (txt, size, type(e).__name__))
                        continue
                    if h.shape not in ((size, len(ARR)), (len(ARR), size)):
                        bad_shape.append("%s.sample(%d) has shape %r" %
                                         (txt, size, h.shape))
                continue
            for size, rot in ((1, 2), (2, 1), (7, 0)):
                with scripted(T._plan((size, rot))):
                    bp, bq = T.P.sample(size), T.Q.sample(size)
                    if not (_shape_ok(bp, size) and _shape_ok(bq, size)):
                        info.bump("base-sample-malformed")
                        continue
                    try:
                        h, exc = np.asarray(r.sample(size)), None
                    except Exception as e:
                        h, exc = None, e
                ck.trans += 1
                if exc is not None:
                    bad_shape.append("%s.sample(%d) raised %s: %s" %
                                     (txt, size, type(exc).__name__, exc))
                    continue
                if h.shape == (len(ARR), size) and size != len(ARR):
                    h = h.T
                if h.shape != (size, len(ARR)):
                    bad_shape.append("%s.sample(%d) has shape %r, expected "
                                     "%d samples of a length-%d value" %
                                     (txt, size, h.shape, size, len(ARR)))
                    continue
                nv = len(ck.viol)
                for j in range(size):
                    for i, a in enumerate(ARR):
                        T.compare("derived-sample", h[j, i], None, mk(a),
                                  {"P": bp[j], "Q": bq[j]},
                                  "sample(%d)[%d,%d] of %s" % (size, j, i,
                                                              txt))
                if len(ck.viol) > nv:
                    bad_val.append(ck.viol[nv]["msg"])
                    del ck.viol[nv:]
                acc.append(np.round(h.astype(float), 9))
    if bad_shape:
        _viol(ck, "derived-sample-shape:ndarray-operand", "%d array-valued "
              "derived priors return the wrong number of values for "
              "sample(size=n); first: %s" % (len(bad_shape), bad_shape[0]),
              more=bad_shape[1:4])
    if bad_val:
        _viol(ck, "derived-sample:ndarray-operand", "%d wrong values; first:"
              " %s" % (len(bad_val), bad_val[0]))
    info["array-valued-priors"] = nexp
    return digest(np.array(T.fp), nexp, *acc)


# ---------------------------------------------------------------------------
RUN = {"uniform": _run_uniform, "gaussian": _run_gaussian,
       "bgauss": _run_bgauss, "bgnone": _run_bgnone, "bgrej": _run_bgrej,
       "ctor": _run_ctor, "complex": _run_complex, "ident": _run_ident,
       "unsup": _run_unsup, "npleft": _run_npleft, "unsigned": _run_unsigned, "gint": _run_gint, "repeated": _run_repeated, "ndelem": _run_ndelem,
       "cplxconst": _run_cplxconst,
       "ndarr": _run_ndarr, "tree1": _run_tree1, "tree2": _run_tree2,
       "tree2u": _run_tree2u, "tree3": _run_tree3}


def _run_npbin(case, ck, info):
    """NumPy's two-argument functions with a prior as either argument: the
    guess and the samples are the function of the base guess / samples"""
    from holopy.core import prior
    bases = [("U(1,2)", lambda: prior.Uniform(1.0, 2.0, 1.25)),
             ("U(-3,-1)", lambda: prior.Uniform(-3.0, -1.0, -2.5)),
             ("G(-2.5,.1)", lambda: prior.Gaussian(-2.5, 0.1)),
             ("BG(.7,.2,0,2)", lambda: prior.BoundedGaussian(0.7, 0.2, 0.0,
                                                             2.0))]
    consts = [1.0, -0.7, 2.5, -3.0]
    funcs = [("fmod", np.fmod), ("remainder", np.remainder),
             ("mod", np.mod), ("minimum", np.minimum),
             ("maximum", np.maximum), ("hypot", np.hypot),
             ("arctan2", np.arctan2), ("copysign", np.copysign),
             ("subtract", np.subtract), ("true_divide", np.true_divide),
             ("power", np.power), ("floor_divide", np.floor_divide)]
    acc = []
    for bname, mk in bases:
        for fname, fn in funcs:
            for c in consts:
                for side in ("L", "R"):
                    P = mk()
                    txt = ("np.%s(%s, %r)" if side == "L" else
                           "np.%s(%r, %s)") % ((fname, bname, c) if
                                               side == "L" else
                                               (fname, c, bname))
                    try:
                        d = fn(P, c) if side == "L" else fn(c, P)
                    except TypeError:
                        continue      # a refusal is not a wrong value
                    ck.trans += 1
                    g0 = P.guess
                    want = fn(g0, c) if side == "L" else fn(c, g0)
                    got = d.guess
                    same = (got == want) or (got != got and want != want)
                    ck.true("derived-guess", same, "guess of %s is %r, the "
                            "function of the base guess %r is %r" %
                            (txt, got, g0, want))
                    np.random.seed(1234)
                    s1 = np.asarray(d.sample(5), dtype=float)
                    np.random.seed(1234)
                    b1 = np.asarray(P.sample(5), dtype=float)
                    w1 = fn(b1, c) if side == "L" else fn(c, b1)
                    ck.trans += 2
                    ok = s1.shape == w1.shape and bool(np.all(
                        (s1 == w1) | ((s1 != s1) & (w1 != w1))))
                    ck.true("derived-sample", ok, "samples of %s are %r, "
                            "the function of the base samples %r is %r" %
                            (txt, s1.tolist(), b1.tolist(),
                             np.asarray(w1).tolist()))
                    acc.append(np.nan_to_num(s1))
    return digest(*acc)


RUN["npbin"] = _run_npbin


def run_case(case):
    import warnings
    ck = Checker()
    info = Info()
    with np.errstate(all="ignore"), warnings.catch_warnings():
        warnings.simplefilter("ignore")
        fp = RUN[case["kind"]](case, ck, info)
    # keep the report readable: at most 12 violations per check name
    seen = {}
    kept = []
    for v in ck.viol:
        seen[v["check"]] = seen.get(v["check"], 0) + 1
        if seen[v["check"]] <= 12:
            kept.append(v)
    for v in kept:
        if seen[v["check"]] > 12:
            v.setdefault("count_in_case", seen[v["check"]])
    ck.viol = kept
    res = ck.result(fp=fp)
    res["info"] = dict(info)
    return res


def coverage_extra(cases, results):
    tier = cases[0]["tier"]
    tot = {}
    seam = set()
    for r in results:
        for k, v in (r.get("info") or {}).items():
            if k == "seam":
                seam.add(v)
            elif isinstance(v, int):
                tot[k] = tot.get(k, 0) + v
    d1 = len(_depth1())
    nfull2 = len(BIN) * d1 * d1 + len(UNA) * d1 + len(LEAVES)
    out = {
        "uniform_bound_alphabet": [repr(x) for x in UBOUNDS],
        "gaussian_mu": GMU[tier], "gaussian_sd": GSD[tier],
        "bounded_patterns_in_sd": [[repr(a), repr(b)] for a, b in BPAT],
        "bounded_gaussians": len(_bg_params(tier)),
        "quantile_answers": QGRID, "sample_sizes": [repr(s) for s in SIZES],
        "seeds": SEEDS[tier], "ecdf_n": NECDF,
        "leaf_alphabet": ["P=Uniform(0.25,1.5)", "Q=Gaussian(2,0.5)", "0",
                          "1", "2", "-1.5", "ndarray([1,2]) (contact only)"],
        "operator_alphabet": BIN + UNA,
        "expressions_depth_le_2_total": nfull2,
        "expression_depth_complete": 2,
        "counters": dict(sorted(tot.items())),
        "seam_status": sorted(seam) or ["not probed"],
        "seam_fallback_used": bool(tot.get("fallback-seeds-only")),
    }
    if tier == "thorough":
        s1 = len(_spine1())
        out["depth3"] = {
            "shape": "comb (every binary node has a leaf operand)",
            "expressions": tot.get("depth3-expressions", 0),
            "blocks": s1,
            "not_enumerated": "bushy depth-3 trees (6*(%d)^2 expressions): "
                              "capped, depth 3 is NOT exhaustive" % nfull2}
    return out

"""C11 -- model parameters map to exactly the places their priors were used.

Three families of cases, all executed on the real `AlphaModel`/`ExactModel`:

* model:*   bounded-exhaustive *programs*: structure x subset of sites x
            every set partition of the chosen sites into shared prior objects
            x naming pattern per prior x wrapper per use.  The reference
            model is the site -> block map the program was generated from.
* tie:*     explicit-state breadth-first search over `Model.add_tie` from a
            fresh model with k mutually equal candidates plus unequal ones,
            every subset (|S| >= 2) x new-name choice as a transition, to
            quiescence, against a union-find reference model.
* rt:*      `s.from_parameters(s.parameters)` for every member of a scatterer
            alphabet: equality and absence of shared mutable state.

No HoloPy naming convention is part of the oracle: parameters are matched to
blocks by the attributes of the prior they expose (or, for value-equal
priors, by the places a change of the parameter reaches), names only have to
be unique.
"""
import itertools
import math
import operator
import traceback

import numpy as np

from lib import Checker, digest, euler_zyz, fork_call

PROPERTY = "C11"
RULE = ("model:* cases = structure x every subset of <= K sites x every set "
        "partition of the subset into shared prior objects x naming pattern "
        "per prior x wrapper per use (blocks of programs per case); tie:* "
        "cases = breadth-first search over add_tie(S[, new_name]) for every "
        "subset S (|S|>=2) of the current parameters from a fresh model, "
        "deduplicated on (parameter names, placeholder maps), to quiescence; "
        "rt:* cases = scatterer alphabet x from_parameters(parameters).  A "
        "case is non-trivial when its fingerprint (names, observed values, "
        "canonical states) differs from other cases'")
ASSUMPTIONS = [
    "only the stated structures, site subsets (size bound per group), naming "
    "and wrapper alphabets and the three value vectors are explored",
    "a prior object used both inside the scatterer and outside it (alpha, "
    "theory, optics) is not part of the strict enumeration: the statement "
    "speaks of priors 'shared between places of the scatterer'; what HoloPy "
    "does there is recorded by the informational case model:cross-section",
    "new_name values passed to add_tie never collide with the name of a "
    "parameter that is not being tied (a collision chosen by the caller is "
    "not covered by the statement)",
    "no solver is run: Model.forward is observed through ExactModel's "
    "calc_func hook / the module attribute holopy.inference.model.calc_holo",
    "the tie search deduplicates on the state visible in "
    "Model._parameter_names/_parameters/_maps",
]
TOLERANCES = {
    "rigid-placement": 1e-12,
    "everything else": "exact (==, same type for values moved unchanged)",
}
TIMEOUT = 600
PREIMPORT = ["holopy", "holopy.scattering", "holopy.inference"]

PRIMES = [2.5, 3.25, 5.125, 7.5, 11.25, 13.125, 17.5, 19.25, 23.125, 29.5,
          31.25, 37.125, 41.5, 43.25]
NAMINGS = ["u", "own", "dup", "auto", "short", "dup0", "dup1"]
NAMINGS_SHORT = ["u", "dup", "short"]
WRAPS = ["b", "mul", "addq", "addb", "cplx", "sqrt", "dict", "mulS", "sqrtN",
         "xr", "rsub", "dictnum"]
MAXVIOL = 3                  # violation records kept per check per case

# --------------------------------------------------------------------------
# structures and their sites
# --------------------------------------------------------------------------
#   tree: ("S", nlayers[, "tuple"]) | ("Spheres", [...]) |
#         ("Scatterers", [...]) | ("Rigid", [...]);  "tuple": the centre is
#         given as a tuple instead of a list
STRUCTS = {
    "sphere": {"tree": ("S", 0), "theory": "aberrated", "model": "alpha"},
    "sphere-exact": {"tree": ("S", 0, "tuple"), "theory": "mielens",
                     "model": "exact"},
    "layered": {"tree": ("S", 2), "theory": "mie", "model": "alpha"},
    "spheres1": {"tree": ("Spheres", [("S", 0)]), "theory": "mie",
                 "model": "alpha"},
    "spheres2": {"tree": ("Spheres", [("S", 0), ("S", 0)]),
                 "theory": "multisphere", "model": "alpha"},
    "spheres3": {"tree": ("Spheres", [("S", 0), ("S", 2), ("S", 0)]),
                 "theory": "mie", "model": "exact"},
    "spheres4": {"tree": ("Spheres", [("S", 0), ("S", 0), ("S", 0),
                                      ("S", 0)]),
                 "theory": "multisphere", "model": "alpha"},
    "nested": {"tree": ("Scatterers", [("Spheres", [("S", 0), ("S", 2)]),
                                       ("S", 0)]),
               "theory": "mie", "model": "exact"},
    "rigid": {"tree": ("Rigid", [("S", 0), ("S", 0)]), "theory": "mie",
              "model": "alpha"},
}
# the reduced site alphabets (larger subsets / naming / wrapper products)
REDUCED = {
    "sphere": ["n", "r", "center.0", "center.2", "alpha", "lens_angle",
               "spherical_aberration.1", "medium_index", "noise_sd"],
    "sphere-exact": ["n", "r", "center.1", "lens_angle", "medium_index",
                     "illum_wavelen.red", "noise_sd"],
    "layered": ["n.0", "n.1", "r.0", "r.1", "center.0", "center.2", "alpha",
                "illum_wavelen.red"],
    "spheres1": ["0:n", "0:r", "0:center.0", "0:center.2", "alpha",
                 "medium_index"],
    "spheres2": ["0:n", "0:r", "0:center.2", "1:n", "1:r", "1:center.0",
                 "alpha", "noise_sd"],
    "spheres3": ["0:r", "0:center.1", "1:n.1", "1:r.0", "2:n", "2:r",
                 "2:center.2", "medium_index"],
    "spheres4": ["0:r", "1:r", "1:center.0", "2:n", "2:r", "3:r",
                 "3:center.2", "alpha"],
    "nested": ["0:0:n", "0:0:r", "0:1:n.0", "0:1:r.1", "0:1:center.2",
               "1:n", "1:r", "1:center.0", "illum_wavelen.red"],
    "rigid": ["0:n", "0:r", "1:r", "1:center.0", "rotation.1",
              "translation.0", "translation.2", "alpha"],
}

_SITE_CACHE = {}


def _leaf_sites(tree, prefix, out, counter):
    kind = tree[0]
    if kind == "S":
        k = counter[0]
        counter[0] += 1
        nl = tree[1]
        base_n = [1.41, 1.47, 1.53, 1.585][k % 4]
        cx = [(1, 2, 3), (14.0, 15, 16.5), (-27, 28.25, 9), (40, -41.0, 42)][
            k % 4]
        if nl == 0:
            n_def = complex(base_n, 0.0625) if k % 4 == 3 else base_n
            out.append((prefix + "n", "scat", "n", n_def))
            out.append((prefix + "r", "scat", "x", 0.375 + 0.0625 * k))
        else:
            for j in range(nl):
                out.append((prefix + "n.%d" % j, "scat", "n",
                            base_n + 0.125 * j))
            for j in range(nl):
                out.append((prefix + "r.%d" % j, "scat", "x",
                            0.25 * (j + 1) + 0.03125 * k))
        for j in range(3):
            out.append((prefix + "center.%d" % j, "scat", "x", cx[j]))
    else:
        for i, sub in enumerate(tree[1]):
            _leaf_sites(sub, prefix + "%d:" % i, out, counter)
        if kind == "Rigid":
            for j, v in enumerate((0.3, 0.4, 0.5)):
                out.append((prefix + "rotation.%d" % j, "scat", "x", v))
            for j, v in enumerate((1.0, -2.0, 3.5)):
                out.append((prefix + "translation.%d" % j, "scat", "x", v))


def _sites(sname):
    """ordered list of (id, section, class, default)"""
    if sname in _SITE_CACHE:
        return _SITE_CACHE[sname]
    st = STRUCTS[sname]
    out = []
    _leaf_sites(st["tree"], "", out, [0])
    if st["theory"] in ("mielens", "aberrated"):
        out.append(("lens_angle", "theory", "x", 0.875))
    if st["theory"] == "aberrated":
        out.append(("spherical_aberration.0", "theory", "x", 0.125))
        out.append(("spherical_aberration.1", "theory", "x", -0.25))
    out.append(("medium_index", "optics", "n", 1.33))
    out.append(("illum_wavelen.red", "optics", "x", 0.66))
    out.append(("noise_sd", "optics", "ch", 0.0625))
    if st["model"] == "alpha":
        out.append(("alpha", "model", "ch", 0.8125))
    _SITE_CACHE[sname] = out
    return out


def _wrap_ok(cls, w):
    if w in ("cplx",):
        return cls == "n"
    if w in ("dict", "xr", "dictnum"):
        return cls in ("n", "ch")
    return True


# --------------------------------------------------------------------------
# set partitions, program enumeration
# --------------------------------------------------------------------------
def _partitions(k):
    """restricted growth strings of length k"""
    def rec(prefix, m):
        if len(prefix) == k:
            yield tuple(prefix)
            return
        for b in range(m + 1):
            yield from rec(prefix + [b], max(m, b + 1))
    return list(rec([], 0))


def _side_ok(sname, sites, blocks, wraps):
    """declared side conditions: (1) a prior object is not used both inside
    and outside the scatterer; (2) a wrapper must suit the site."""
    info = {s[0]: s for s in _sites(sname)}
    sec = {}
    for s, b in zip(sites, blocks):
        inside = info[s][1] == "scat"
        if sec.setdefault(b, inside) != inside:
            return False
    nb = max(blocks) + 1
    for s, b, w in zip(sites, blocks, wraps):
        if not _wrap_ok(info[s][2], w):
            return False
        if w == "addb":
            partner = (b + 1) % nb
            if sec[partner] != sec[b]:
                return False
    return True


def _prog(sname, sites, blocks, names=None, wraps=None, eq=None):
    nb = max(blocks) + 1
    return {"s": sname, "sites": list(sites), "blocks": list(blocks),
            "names": list(names) if names else ["u"] * nb,
            "wraps": list(wraps) if wraps else ["b"] * len(sites),
            "eq": list(eq) if eq else list(range(nb))}


def _key(p):
    return "%s|%s|%s|%s|%s%s" % (
        p["s"], ",".join(p["sites"]), "".join(map(str, p["blocks"])),
        ",".join(p["names"]), ",".join(p["wraps"]),
        "" if p["eq"] == list(range(len(p["names"])))
        else "|eq" + "".join(map(str, p["eq"])))


GROUPS = ["share", "name", "wrap", "mix"]
# group -> list of (subset size, site list: "full" | "red" | "red<N>" = the
# first N reduced sites, extra).  extra: wrap -> max number of wrapped uses;
# name -> 1: the short naming alphabet NAMINGS_SHORT instead of NAMINGS
PLAN = {
    "quick": {
        "share": [(1, "full", 0), (2, "full", 0), (3, "red", 0)],
        "name": [(1, "red", 0), (2, "red6", 0), (3, "red4", 0)],
        "wrap": [(1, "red", 1), (2, "red6", 1)],
        "mix": [(1, "red5", 0)],
    },
    "thorough": {
        "share": [(1, "full", 0), (2, "full", 0), (3, "full", 0),
                  (4, "red", 0)],
        "name": [(1, "red", 0), (2, "red", 0), (3, "red5", 0),
                 (4, "red4", 1)],
        "wrap": [(1, "red", 1), (2, "red", 2), (3, "red6", 1)],
        "mix": [(1, "red", 0), (2, "red4", 0)],
    },
}


def _site_list(sname, sel):
    full = [s[0] for s in _sites(sname)]
    if sel == "full":
        return full
    red = REDUCED[sname]
    assert all(s in full for s in red), (sname, red, full)
    return red if sel == "red" else red[:int(sel[3:])]


def _subsets(sname, k, sel):
    return list(itertools.combinations(_site_list(sname, sel), k))


def _programs_of_subset(sname, group, sub, extra):
    """-> (programs, number removed by the side conditions)"""
    out, removed = [], 0

    composite = STRUCTS[sname]["tree"][0] != "S"

    def add(p):
        nonlocal removed
        if "short" in p["names"] and not composite:
            return                  # identical to "auto" without members
        if _side_ok(p["s"], p["sites"], p["blocks"], p["wraps"]):
            out.append(p)
        else:
            removed += 1

    for part in _partitions(len(sub)):
        nb = max(part) + 1
        if group == "share":
            add(_prog(sname, sub, part))
            if nb == 2 and len(sub) == 2:
                # separately defined but value-equal priors stay separate
                add(_prog(sname, sub, part, eq=[0] * nb))
                # ... also when each of them sits inside an (equal)
                # expression of its own
                # (not 50 - P: with the shared numbers of an equality group
                # it makes a radius negative -- the harness' own doing)
                for w in WRAPS[1:]:
                    if w != "rsub":
                        add(_prog(sname, sub, part, eq=[0] * nb,
                                  wraps=[w, w]))
        elif group == "name":
            for nm in itertools.product(NAMINGS_SHORT if extra else NAMINGS,
                                        repeat=nb):
                if any(x != "u" for x in nm):
                    add(_prog(sname, sub, part, names=nm))
        elif group == "wrap":
            for d in range(1, min(extra, len(sub)) + 1):
                for which in itertools.combinations(range(len(sub)), d):
                    for ws in itertools.product(WRAPS[1:], repeat=d):
                        wr = ["b"] * len(sub)
                        for i, w in zip(which, ws):
                            wr[i] = w
                        add(_prog(sname, sub, part, wraps=wr))
        elif group == "mix":
            # every naming pattern x one wrapped use
            for nm in itertools.product(NAMINGS, repeat=nb):
                if all(x == "u" for x in nm):
                    continue
                for i in range(len(sub)):
                    for w in WRAPS[1:]:
                        wr = ["b"] * len(sub)
                        wr[i] = w
                        add(_prog(sname, sub, part, names=nm, wraps=wr))
    return out, removed


CHUNK = {"quick": 250, "thorough": 500}


def _model_structs(tier):
    if tier == "quick":
        return ["sphere", "sphere-exact", "layered", "spheres2", "spheres3",
                "nested"]
    return ["sphere", "sphere-exact", "layered", "spheres1", "spheres2",
            "spheres3", "spheres4", "nested"]


def _model_cases(tier):
    out = []
    for sname in _model_structs(tier):
        for group in GROUPS:
            for k, sel, extra in PLAN[tier][group]:
                subs = _subsets(sname, k, sel)
                if not subs:
                    continue
                # programs per subset are nearly constant within one size
                per = max(len(_programs_of_subset(sname, group, s, extra)[0])
                          for s in (subs[0], subs[-1], subs[len(subs) // 2]))
                n = max(1, -(-(per * len(subs)) // CHUNK[tier]))
                n = min(n, len(subs))
                for c in range(n):
                    out.append({
                        "id": "model:%s:%s:k=%d:%d/%d" % (sname, group, k, c,
                                                          n),
                        "kind": "model", "tier": tier, "s": sname,
                        "group": group, "k": k, "sel": sel, "extra": extra,
                        "chunk": c, "nchunks": n})
    return out


def _case_programs(case):
    subs = _subsets(case["s"], case["k"], case["sel"])
    progs, removed = [], 0
    for sub in subs[case["chunk"]::case["nchunks"]]:
        p, r = _programs_of_subset(case["s"], case["group"], sub,
                                   case["extra"])
        progs += p
        removed += r
    return progs, removed


def cases(tier, seed):
    out = _model_cases(tier)
    # every rigid-cluster program in ONE case: a model built on a RigidCluster
    # is suspected (DESIGN.md section 6 #14) to ignore rotation/translation
    out.append({"id": "model:rigid", "kind": "rigid", "tier": tier})
    out.append({"id": "model:many-parameters", "kind": "many",
                "tier": tier})
    out.append({"id": "model:cross-section", "kind": "cross", "tier": tier})
    out.append({"id": "model:prior-shared-beyond-the-scatterer",
                "kind": "sharedout", "tier": tier})
    for lay in _tie_layouts(tier):
        out.append({"id": "tie:" + lay["id"], "kind": "tie", "tier": tier,
                    "layout": lay["id"]})
    for i, (name, _) in enumerate(_rt_alphabet()):
        out.append({"id": "rt:" + name, "kind": "rt", "i": i})
    # histories: models of different classes built one after the other in
    # one interpreter expose the same parameters as in a pristine one
    refs = {}
    for name in HIST_OPS:
        st, val = fork_call(_hist_op, name, timeout=120)
        refs[name] = val if st == "ok" else "FAILED:%s:%r" % (st, val)
    L = 2 if tier == "quick" else 3
    for n in range(2, L + 1):
        for seq in itertools.product(list(HIST_OPS), repeat=n):
            out.append({"id": "hist:" + ">".join(seq), "kind": "hist",
                        "seq": list(seq),
                        "ref": {o: refs[o] for o in seq}})
    return out


HIST_OPS = {
    "alpha-prior": ("sphere", ["n", "alpha"]),
    "alpha-fixed": ("sphere", ["n", "r"]),
    "exact": ("sphere-exact", ["n", "r"]),
    "exact-noise": ("sphere-exact", ["r", "noise_sd"]),
    "cluster-alpha": ("spheres2", ["0:r", "1:r", "alpha"]),
}


def _hist_op(name):
    sname, sites = HIST_OPS[name]
    b = _build(_prog(sname, sites, range(len(sites))))
    m = b.model
    vals = [PRIMES[i] for i in range(len(m.parameters))]
    sc = m.scatterer_from_parameters(vals)
    return repr((list(m.parameters), sorted(m._maps),
                 _canon_map(m._maps["model"]), _canon_map(m._maps["optics"]),
                 repr(sc)))


def _run_hist(case, cs):
    outs = []
    for i, name in enumerate(case["seq"]):
        ref = case["ref"][name]
        if str(ref).startswith("FAILED"):
            cs.bad("api-exception", "%s failed in a pristine interpreter: "
                   "%s" % (name, ref))
            return "ref-failed", {}
        try:
            got = _hist_op(name)
        except Exception as e:                 # noqa
            got = "EXC:%s:%s" % (type(e).__name__, e)
        cs.ck.trans += 1
        cs.ok("history-independent", got == ref, "step %d (%s) of %s: the "
              "model exposes %s; the same construction in a pristine "
              "interpreter gives %s" % (i + 1, name, ">".join(case["seq"]),
                                        got[:300], str(ref)[:300]))
        outs.append(got)
    return digest(*outs), {}


# --------------------------------------------------------------------------
# building the real objects of one program
# --------------------------------------------------------------------------
def _prior_numbers(g):
    """numbers that define the prior of equality group g (distinct per g)"""
    lo = 0.25 + 1.5 * g
    return {"kind": g % 3, "lo": lo, "hi": lo + 1.25 + 0.125 * (g % 5),
            "mu": lo + 0.5, "sd": 0.125 + 0.0625 * (g % 4),
            # odd groups: an interior guess; multiples of 6: a guess exactly
            # on the lower bound; the rest: the default guess
            "guess": (lo + 0.375 if g % 2 else (lo if g % 6 == 0 else None))}


def _mk_prior(g, name):
    from holopy.inference import prior
    d = _prior_numbers(g)
    if d["kind"] == 0:
        return prior.Uniform(d["lo"], d["hi"], guess=d["guess"], name=name)
    if d["kind"] == 1:
        return prior.Gaussian(d["mu"], d["sd"], name=name)
    return prior.BoundedGaussian(d["mu"], d["sd"], d["lo"], d["hi"],
                                 name=name)


def _guess_of(g):
    d = _prior_numbers(g)
    if d["kind"] == 0:
        return d["guess"] if d["guess"] is not None \
            else (d["hi"] + d["lo"]) / 2
    return d["mu"]


def _sig(p):
    """attributes of an exposed prior, without its name"""
    return (type(p).__name__,) + tuple(
        repr(getattr(p, a, None)) for a in
        ("lower_bound", "upper_bound", "mu", "sd", "guess"))


def _capture(detector, scatterer, theory=None, scaling=None, **optics):
    return {"scatterer": scatterer, "theory": theory, "scaling": scaling,
            "optics": optics}


class Built:
    pass


def _mk_tree(tree, prefix, val):
    from holopy.scattering.scatterer import (Sphere, Spheres, Scatterers,
                                             RigidCluster)
    kind = tree[0]
    if kind == "S":
        nl = tree[1]
        if nl == 0:
            n, r = val(prefix + "n"), val(prefix + "r")
        else:
            n = [val(prefix + "n.%d" % j) for j in range(nl)]
            r = [val(prefix + "r.%d" % j) for j in range(nl)]
        c = [val(prefix + "center.%d" % j) for j in range(3)]
        return Sphere(n=n, r=r, center=tuple(c) if "tuple" in tree else c)
    members = [_mk_tree(sub, prefix + "%d:" % i, val)
               for i, sub in enumerate(tree[1])]
    if kind == "Spheres":
        return Spheres(members, warn=False)
    if kind == "Scatterers":
        return Scatterers(members)
    if kind == "Rigid":
        return RigidCluster(
            Spheres(members, warn=False),
            translation=[val(prefix + "translation.%d" % j)
                         for j in range(3)],
            rotation=[val(prefix + "rotation.%d" % j) for j in range(3)])
    raise ValueError(kind)


def _build(p):
    """-> Built with .model, .scatterer, .priors (list per block incl. the
    private ones), .groups, .f (site -> function of the block value list),
    .uses (site -> set of blocks), .defaults"""
    from holopy.inference import prior, AlphaModel, ExactModel
    from holopy.scattering.theory import (Mie, MieLens, AberratedMieLens,
                                          Multisphere)
    import holopy.inference.model as hmodel
    st = STRUCTS[p["s"]]
    sites = _sites(p["s"])
    info = {s[0]: s for s in sites}
    nb = max(p["blocks"]) + 1
    b = Built()
    b.prog = p
    b.sites = sites
    b.defaults = {s[0]: s[3] for s in sites}
    # ---- names ----------------------------------------------------------
    names = []
    for k in range(nb):
        how = p["names"][k]
        if how == "u":
            names.append(None)
        elif how == "own":
            names.append("p%d" % k)
        elif how == "dup":
            names.append("dup")
        elif how == "dup0":
            names.append("dup_0")
        elif how == "dup1":
            names.append("dup_1")
        else:
            # like an automatically generated name: the place of another
            # prior ("auto"), or that place without its member prefix, which
            # is what a prior shared by several members may be called
            # ("short", e.g. "r" or "center.0")
            mine = {s for s, bb in zip(p["sites"], p["blocks"]) if bb == k}
            other = [s for s in p["sites"] if s not in mine] + \
                    [s[0] for s in sites if s[0] not in mine]
            names.append(other[0] if how == "auto"
                         else other[0].rsplit(":", 1)[-1])
    b.groups = list(p["eq"])
    b.priors = [_mk_prior(b.groups[k], names[k]) for k in range(nb)]
    b.f, b.uses, exprs = {}, {}, {}
    shared_mul = {}
    for s, k, w in zip(p["sites"], p["blocks"], p["wraps"]):
        P = b.priors[k]
        default = b.defaults[s]
        if w == "b":
            e, f, u = P, (lambda v, k=k: v[k]), {k}
        elif w == "mul":
            e, f, u = 2 * P, (lambda v, k=k: operator.mul(v[k], 2)), {k}
        elif w == "rsub":
            # a number minus the parameter (reflected operator)
            e, f, u = 50 - P, (lambda v, k=k: operator.sub(50, v[k])), {k}
        elif w == "mulS":
            if k not in shared_mul:
                shared_mul[k] = 2 * P
            e, f, u = shared_mul[k], \
                (lambda v, k=k: operator.mul(v[k], 2)), {k}
        elif w == "addq":
            q = len(b.priors)
            b.groups.append(100 + q)
            b.priors.append(_mk_prior(100 + q, None))
            e = P + b.priors[q]
            f, u = (lambda v, k=k, q=q: operator.add(v[k], v[q])), {k, q}
        elif w == "addb":
            k2 = (k + 1) % nb
            e = P + b.priors[k2]
            f, u = (lambda v, k=k, k2=k2: operator.add(v[k], v[k2])), {k, k2}
        elif w == "cplx":
            e = prior.ComplexPrior(P, 0.25)
            f, u = (lambda v, k=k: complex(v[k], 0.25)), {k}
        elif w == "sqrt":
            e, f, u = np.sqrt(P), (lambda v, k=k: np.sqrt(v[k])), {k}
        elif w == "sqrtN":
            e = prior.TransformedPrior(np.sqrt, P, name="tn")
            f, u = (lambda v, k=k: np.sqrt(v[k])), {k}
        elif w == "dict":
            e = {"red": P, "green": default}
            f = (lambda v, k=k, d=default: {"red": v[k], "green": d})
            u = {k}
        elif w == "dictnum":
            # channels labelled by numbers (HoloPy's own labels for a plain
            # list of wavelengths; integer labels)
            e = {0.66: P, 1: default}
            f = (lambda v, k=k, d=default: {0.66: v[k], 1: d})
            u = {k}
        elif w == "xr":
            # a labelled array over the channels, labels NOT in sorted order
            e = _xr_channels([P, default])
            f = (lambda v, k=k, d=default: _xr_channels([v[k], d]))
            u = {k}
        else:
            raise ValueError(w)
        exprs[s], b.f[s], b.uses[s] = e, f, u
    b.exprs = exprs

    def val(site):
        return exprs[site] if site in exprs else b.defaults[site]

    b.scatterer = _mk_tree(st["tree"], "", val)
    if st["theory"] == "mie":
        b.theory = Mie(compute_escat_radial=False)
        b.theory_fixed = {"compute_escat_radial": False,
                          "full_radial_dependence": True}
    elif st["theory"] == "multisphere":
        b.theory = Multisphere(niter=123, eps=1e-5)
        b.theory_fixed = {"niter": 123, "eps": 1e-5}
    elif st["theory"] == "mielens":
        b.theory = MieLens(lens_angle=val("lens_angle"))
        b.theory_fixed = {}
    else:
        b.theory = AberratedMieLens(
            spherical_aberration=[val("spherical_aberration.0"),
                                  val("spherical_aberration.1")],
            lens_angle=val("lens_angle"))
        b.theory_fixed = {}
    kw = dict(noise_sd=val("noise_sd"), medium_index=val("medium_index"),
              illum_wavelen={"red": val("illum_wavelen.red"), "green": 0.52},
              illum_polarization=(1, 0), theory=b.theory)
    if st["model"] == "alpha":
        hmodel.calc_holo = _capture
        b.model = AlphaModel(b.scatterer, alpha=val("alpha"), **kw)
    else:
        b.model = ExactModel(b.scatterer, calc_func=_capture, **kw)
    return b


# --------------------------------------------------------------------------
# observation: flatten scatterer / theory / optics into site -> value
# --------------------------------------------------------------------------
def _flat_scat(s, prefix, out):
    if hasattr(s, "scatterers"):
        out[prefix + "#type"] = type(s).__name__
        mem = s.scatterers
        out[prefix + "#members"] = len(mem)
        for i, m in enumerate(mem):
            _flat_scat(m, prefix + "%d:" % i, out)
        if hasattr(s, "warn"):
            out[prefix + "#warn"] = s.warn
        return
    out[prefix + "#type"] = type(s).__name__
    for attr in ("n", "r"):
        v = getattr(s, attr)
        if isinstance(v, (list, tuple, np.ndarray)):
            for j, x in enumerate(v):
                out[prefix + "%s.%d" % (attr, j)] = x
        else:
            out[prefix + attr] = v
    c = s.center
    if c is None:
        out[prefix + "center"] = None
    else:
        for j, x in enumerate(c):
            out[prefix + "center.%d" % j] = x


def _flat_theory(th, out):
    out["#theory"] = type(th).__name__
    if hasattr(th, "lens_angle"):
        out["lens_angle"] = th.lens_angle
    if hasattr(th, "spherical_aberration"):
        sa = th.spherical_aberration
        if isinstance(sa, (list, tuple, np.ndarray)):
            for j, x in enumerate(sa):
                out["spherical_aberration.%d" % j] = x
        else:
            out["spherical_aberration"] = sa
    for k in ("compute_escat_radial", "full_radial_dependence", "niter",
              "eps"):
        if hasattr(th, k):
            out["#theory." + k] = getattr(th, k)


def _flat_forward(res, out):
    if not isinstance(res, dict) or "optics" not in res:
        out["#forward"] = repr(res)[:200]
        return
    op = res["optics"]
    out["medium_index"] = op.get("medium_index")
    wl = op.get("illum_wavelen")
    if isinstance(wl, dict):
        out["illum_wavelen.red"] = wl.get("red")
        out["#illum_wavelen.green"] = wl.get("green")
        out["#illum_wavelen.keys"] = sorted(wl)
    else:
        out["illum_wavelen"] = wl
    out["#illum_polarization"] = list(op.get("illum_polarization"))
    if res["scaling"] is not None:
        out["alpha"] = res["scaling"]


def _xr_channels(vals):
    import xarray as xr
    return xr.DataArray(np.array(list(vals), dtype=object),
                        dims=["illumination"],
                        coords={"illumination": ["red", "green"]})


def _same(a, b):
    """equal and of the same type, recursively"""
    import xarray as xr
    if isinstance(a, xr.DataArray) or isinstance(b, xr.DataArray):
        return (isinstance(a, xr.DataArray) and isinstance(b, xr.DataArray)
                and a.dims == b.dims and
                all(list(a[d].values) == list(b[d].values) for d in a.dims)
                and _same([x.item() if hasattr(x, "item") else x
                           for x in a.values.ravel().tolist()],
                          [x.item() if hasattr(x, "item") else x
                           for x in b.values.ravel().tolist()]))
    if isinstance(a, dict) or isinstance(b, dict):
        return (isinstance(a, dict) and isinstance(b, dict) and
                list(a) == list(b) and
                all(_same(a[k], b[k]) for k in a))
    if isinstance(a, (list, tuple)) or isinstance(b, (list, tuple)):
        return (type(a) is type(b) and len(a) == len(b) and
                all(_same(x, y) for x, y in zip(a, b)))
    if type(a) is not type(b):
        return False
    try:
        return bool(a == b)
    except Exception:
        return False


def _observe(b, pars, ck, direct=True):
    """all observation points for one parameter vector (list or dict)"""
    m = b.model
    obs = {}
    res = m.forward(pars, None)
    ck.trans += 1
    fw = {}
    if isinstance(res, dict) and "scatterer" in res:
        _flat_scat(res["scatterer"], "", fw)
        _flat_theory(res["theory"], fw)
    _flat_forward(res, fw)
    obs.update(fw)
    if direct:
        d = {}
        _flat_scat(m.scatterer_from_parameters(pars), "", d)
        _flat_theory(m.theory_from_parameters(pars), d)
        ck.trans += 2
        obs["#direct-equals-forward"] = all(
            k in fw and _same(fw[k], v) for k, v in d.items())
        obs.update(d)
    if hasattr(m, "_find_noise"):
        lst = pars
        if isinstance(pars, dict):
            lst = [pars[k] for k in m.parameters]
        obs["noise_sd"] = m._find_noise(lst, None)
        ck.trans += 1
    return obs


def _expected(b, vals):
    """site -> value the reference model predicts for block values `vals`"""
    exp = {}
    for s in b.sites:
        sid = s[0]
        exp[sid] = b.f[sid](vals) if sid in b.f else b.defaults[sid]
    return exp


def _rigid_expected_centers(exp, nmem):
    C = np.array([[exp["%d:center.%d" % (i, j)] for j in range(3)]
                  for i in range(nmem)], dtype=float)
    rot = [exp["rotation.%d" % j] for j in range(3)]
    tr = np.array([exp["translation.%d" % j] for j in range(3)], dtype=float)
    com = C.mean(0)
    return com + (C - com) @ euler_zyz(*rot).T + tr


def _struct_expected(tree, prefix, out):
    kind = tree[0]
    if kind == "S":
        out[prefix + "#type"] = "Sphere"
        return
    out[prefix + "#type"] = {"Spheres": "Spheres", "Rigid": "Spheres",
                             "Scatterers": "Scatterers"}[kind]
    out[prefix + "#members"] = len(tree[1])
    if kind != "Scatterers":
        out[prefix + "#warn"] = False
    for i, sub in enumerate(tree[1]):
        _struct_expected(sub, prefix + "%d:" % i, out)


class Case:
    """Checker + bounded violation records"""

    def __init__(self):
        self.ck = Checker()
        self.count = {}

    def bad(self, check, msg, **kw):
        n = self.count.get(check, 0) + 1
        self.count[check] = n
        if n <= MAXVIOL:
            self.ck.true(check, False, msg, **kw)
        else:
            self.ck.metric("more-violations:" + check, n - MAXVIOL)

    def ok(self, check, cond, msg, **kw):
        if not cond:
            self.bad(check, msg() if callable(msg) else msg, **kw)
        return bool(cond)


def _compare_sites(cs, b, obs, exp, tag, vec):
    """every site: observed value == predicted value"""
    rigid = STRUCTS[b.prog["s"]]["tree"][0] == "Rigid"
    skip = set()
    if rigid:
        nmem = len(STRUCTS[b.prog["s"]]["tree"][1])
        want = _rigid_expected_centers(exp, nmem)
        got = None
        try:
            got = np.array([[obs["%d:center.%d" % (i, j)] for j in range(3)]
                            for i in range(nmem)], dtype=float)
        except (KeyError, TypeError, ValueError):
            pass
        scale = max(1.0, float(np.abs(want).max()))
        e = float(np.abs(got - want).max() / scale) if got is not None \
            else float("inf")
        cs.ck.metric("rigid-placement", e)
        cs.ok("rigid-placement", e <= 1e-12,
              lambda: "%s [%s]: members of the scatterer built from the "
              "parameters are not at com + R(c - com) + t for the rotation/"
              "translation values (max deviation %.3g of scale %.3g)" %
              (tag, vec, e * scale, scale),
              obs=None if got is None else got.tolist(), exp=want.tolist())
        for s in exp:
            if "center." in s or s.startswith(("rotation", "translation")):
                skip.add(s)
    for s, want in exp.items():
        if s in skip:
            continue
        moved = s in b.f
        check = "place-values" if moved else "fixed-untouched"
        if s not in obs:
            cs.bad("structure", "%s [%s]: site %s missing from the result "
                   "(have %s)" % (tag, vec, s, sorted(obs)[:12]))
            continue
        got = obs[s]
        cs.ok(check, _same(got, want),
              lambda: "%s [%s]: site %s holds %r, expected %r" %
              (tag, vec, s, got, want))
    # types, member counts, flags and the theory's fixed options
    want_struct = {}
    _struct_expected(STRUCTS[b.prog["s"]]["tree"], "", want_struct)
    want_struct["#theory"] = type(b.theory).__name__
    for k, v in b.theory_fixed.items():
        want_struct["#theory." + k] = v
    badk = [(k, obs.get(k), v) for k, v in want_struct.items()
            if not _same(obs.get(k), v)]
    cs.ok("structure", not badk,
          lambda: "%s [%s]: result has a different structure / fixed "
          "options: %r" % (tag, vec, badk[:4]))
    if "#illum_wavelen.green" in obs:
        cs.ok("fixed-untouched", _same(obs["#illum_wavelen.green"], 0.52) and
              obs["#illum_polarization"] == [1, 0],
              "%s [%s]: fixed optics entries changed" % (tag, vec))


def _check_state(cs, b, rep, name2block, tag, light=False):
    """the invariant of one model state.
    rep[k]       representative block of block k (union-find result)
    name2block   parameter name -> representative block"""
    ck = cs.ck
    m = b.model
    pars = m.parameters
    ck.trans += 1
    names = list(pars)
    raw = list(getattr(m, "_parameter_names", names))
    reps = sorted(set(rep))
    # ---- one uniquely named parameter per distinct prior -------------------
    cs.ok("names-unique", len(set(raw)) == len(raw),
          lambda: "%s: parameter names are not unique: %r" % (tag, raw))
    cs.ok("param-count", len(raw) == len(reps) and len(names) == len(reps)
          and len(getattr(m, "_parameters", raw)) == len(reps),
          lambda: "%s: %d parameters (%r) for %d distinct priors" %
          (tag, len(raw), raw, len(reps)))
    if sorted(name2block) != sorted(names) or \
            sorted(name2block.values()) != reps:
        cs.bad("one-per-prior", "%s: parameters %r cannot be matched one to "
               "one to the %d distinct priors" % (tag, names, len(reps)))
        return None
    for nm in names:
        k = name2block[nm]
        cs.ok("one-per-prior", _sig(pars[nm]) == _sig(b.priors[k]),
              lambda: "%s: parameter %r exposes %r, its prior is %r" %
              (tag, nm, pars[nm], b.priors[k]))
    # ---- three value vectors ----------------------------------------------
    nb = len(b.priors)
    order = {r: i for i, r in enumerate(reps)}
    guess = [_guess_of(b.groups[rep[k]]) for k in range(nb)]
    vec2 = [PRIMES[order[rep[k]]] for k in range(nb)]
    vec3 = [PRIMES[len(reps) - 1 - order[rep[k]]] for k in range(nb)]
    fps = []
    # initial guess: dictionary and scatterer
    ig = m.initial_guess
    ck.trans += 1
    want = {nm: guess[name2block[nm]] for nm in names}
    cs.ok("initial-guess", isinstance(ig, dict) and list(ig) == names and
          all(_same(ig[k], want[k]) for k in names),
          lambda: "%s: initial_guess %r, priors' guesses %r" %
          (tag, ig, want))
    exp1 = _expected(b, guess)
    igs = {}
    _flat_scat(m.initial_guess_scatterer, "", igs)
    ck.trans += 1
    for vec, vals in (("guess", guess), ("primes", vec2),
                      ("reversed", vec3)):
        if light and vec == "reversed":
            continue
        exp = _expected(b, vals)
        as_dict = {nm: vals[name2block[nm]] for nm in names}
        as_list = [as_dict[nm] for nm in names]
        obs = _observe(b, as_list, ck, direct=(vec != "reversed"))
        _compare_sites(cs, b, obs, exp, tag, vec)
        if vec != "reversed":
            cs.ok("direct-vs-forward", obs.get("#direct-equals-forward"),
                  "%s [%s]: scatterer/theory_from_parameters differ from "
                  "what forward() hands to the calculation" % (tag, vec))
        if vec == "primes":
            obs_d = _observe(b, as_dict, ck)
            same = sorted(obs) == sorted(obs_d) and all(
                _same(obs[k], obs_d[k]) for k in obs)
            cs.ok("dict-vs-list", same,
                  lambda: "%s: name-keyed and list-ordered values give "
                  "different objects: %r" %
                  (tag, [(k, obs.get(k), obs_d.get(k)) for k in
                         sorted(set(obs) | set(obs_d))
                         if not _same(obs.get(k), obs_d.get(k))][:4]))
        if vec == "guess":
            sc = {k: v for k, v in obs.items() if k in igs}
            cs.ok("initial-guess-scatterer", all(
                _same(igs[k], obs[k]) for k in igs) and len(sc) == len(igs),
                "%s: initial_guess_scatterer differs from the scatterer "
                "built from the guesses" % tag)
        fps.append(sorted((k, repr(v)) for k, v in obs.items()))
    return digest(raw, fps)


def _match_by_signature(b, rep=None):
    """parameter name -> block through the exposed prior's attributes;
    None if that is ambiguous or impossible"""
    pars = b.model.parameters
    sigs = {}
    for k, P in enumerate(b.priors):
        sigs.setdefault(_sig(P), []).append(k)
    if any(len(v) > 1 for v in sigs.values()):
        return None
    out = {}
    for nm, P in pars.items():
        ks = sigs.get(_sig(P))
        if not ks:
            return {}
        out[nm] = ks[0]
    return out


def _match_by_reach(b, ck):
    """parameter name -> block by the set of places a change of that
    parameter reaches (needed when priors are value-equal)"""
    m = b.model
    names = list(m.parameters)
    base = [PRIMES[i] for i in range(len(names))]
    o0 = _observe(b, base, ck, direct=False)
    reach_of_block = {}
    for k in range(len(b.priors)):
        reach_of_block[k] = frozenset(s for s, u in b.uses.items() if k in u)
    out, used = {}, set()
    for i, nm in enumerate(names):
        v = list(base)
        v[i] = 97.5
        o1 = _observe(b, v, ck, direct=False)
        reach = frozenset(s for s in b.f
                          if not _same(o0.get(s), o1.get(s)))
        cands = [k for k, r in reach_of_block.items()
                 if r == reach and k not in used]
        if not cands:
            return {}
        out[nm] = cands[0]
        used.add(cands[0])
    return out


def _sharing_check(cs, b, rep, tag):
    """model.scatterer: the same prior object at every place of a block,
    distinct objects for distinct blocks (scatterer sites only)"""
    m = b.model
    flat = {}
    try:
        sc = m.scatterer
    except Exception as e:                     # noqa
        cs.bad("model-scatterer", "%s: model.scatterer raised %s: %s" %
               (tag, type(e).__name__, e))
        return
    cs.ck.trans += 1
    if STRUCTS[b.prog["s"]]["tree"][0] == "Rigid":
        return      # positions of a rigid cluster with priors are undefined
    _flat_scat(sc, "", flat)
    ident = {}
    info = {s[0]: s for s in b.sites}
    for s, w in zip(b.prog["sites"], b.prog["wraps"]):
        if info[s][1] != "scat" or w != "b":
            continue
        k = rep[b.prog["blocks"][b.prog["sites"].index(s)]]
        o = flat.get(s)
        cs.ok("model-scatterer", _sig(o) == _sig(b.priors[k]),
              lambda: "%s: model.scatterer has %r at site %s, prior is %r" %
              (tag, o, s, b.priors[k]))
        ident.setdefault(k, []).append(id(o))
    for k, ids in ident.items():
        cs.ok("model-scatterer-sharing", len(set(ids)) == 1,
              "%s: model.scatterer does not use one prior object at all "
              "places of block %d" % (tag, k))
    firsts = [ids[0] for ids in ident.values()]
    cs.ok("model-scatterer-sharing", len(set(firsts)) == len(firsts),
          "%s: model.scatterer uses one prior object for different blocks"
          % tag)


def _purity_check(cs, b, names, tag):
    """second call: mutating the lists of a result leaves later results
    unchanged"""
    m = b.model
    vals = [PRIMES[i] for i in range(len(names))]
    first = m.scatterer_from_parameters(vals)
    f0 = {}
    _flat_scat(first, "", f0)

    def scribble(s):
        if hasattr(s, "scatterers"):
            for x in s.scatterers:
                scribble(x)
            if isinstance(s.scatterers, list):
                s.scatterers.append(None)
            return
        for attr in ("n", "r", "center"):
            v = getattr(s, attr, None)
            if isinstance(v, list):
                for j in range(len(v)):
                    v[j] = -7777.0
            elif isinstance(v, np.ndarray):
                v[...] = -7777.0
    try:
        scribble(first)
    except Exception:                          # noqa
        pass
    second = m.scatterer_from_parameters(vals)
    f1 = {}
    _flat_scat(second, "", f1)
    cs.ck.trans += 2
    cs.ok("second-call", sorted(f0) == sorted(f1) and
          all(_same(f0[k], f1[k]) for k in f0),
          "%s: overwriting the lists of one result of "
          "scatterer_from_parameters changed the next result" % tag)


def _validate_check(cs, b, tag):
    from holopy.scattering.interface import validate_scatterer
    if STRUCTS[b.prog["s"]]["tree"][0] == "Rigid":
        return
    nb = len(b.priors)
    guess = [_guess_of(b.groups[k]) for k in range(nb)]
    exp = _expected(b, guess)
    obs = {}
    _flat_scat(validate_scatterer(b.scatterer), "", obs)
    cs.ck.trans += 1
    info = {s[0]: s for s in b.sites}
    bad = [(s, obs.get(s), exp[s]) for s in exp
           if info[s][1] == "scat" and not _same(obs.get(s), exp[s])]
    cs.ok("validate-scatterer-guesses", not bad,
          lambda: "%s: validate_scatterer does not put the guesses at the "
          "priors' places: %r" % (tag, bad[:3]))


def _run_program(cs, p):
    tag = _key(p)
    try:
        b = _build(p)
        cs.ck.trans += 1
        rep = list(range(len(b.priors)))
        n2b = _match_by_signature(b)
        if n2b is None:
            n2b = _match_by_reach(b, cs.ck)
        fp = _check_state(cs, b, rep, n2b, tag)
        if fp is not None:
            _sharing_check(cs, b, rep, tag)
            _purity_check(cs, b, list(n2b), tag)
            _validate_check(cs, b, tag)
        return fp
    except Exception as e:                     # noqa
        # every program is a valid description: nothing here may raise
        cs.bad("api-exception", "%s: %s: %s" % (tag, type(e).__name__, e),
               tb=traceback.format_exc()[-1500:])
        return "exception:" + type(e).__name__


def _run_model(case, cs):
    progs, removed = _case_programs(case)
    fps = [_run_program(cs, p) for p in progs]
    return digest(fps), {"programs": len(progs),
                         "removed_by_side_conditions": removed}


def _rigid_programs(tier):
    full = [s[0] for s in _sites("rigid")]
    red = REDUCED["rigid"]
    out = []
    kfull, kred = (1, 2) if tier == "quick" else (2, 3)
    subs = [c for k in range(1, kfull + 1)
            for c in itertools.combinations(full, k)]
    subs += [c for k in range(kfull + 1, kred + 1)
             for c in itertools.combinations(red, k)]
    for sub in subs:
        for part in _partitions(len(sub)):
            p = _prog("rigid", sub, part)
            if _side_ok("rigid", p["sites"], p["blocks"], p["wraps"]):
                out.append(p)
    for sub in itertools.combinations(red, 2):
        for w in ("mul", "sqrt"):
            for i in range(2):
                wr = ["b", "b"]
                wr[i] = w
                out.append(_prog("rigid", sub, (0, 1), wraps=wr,
                                 names=("own", "u")))
    return out


def _run_rigid(case, cs):
    progs = _rigid_programs(case["tier"])
    fps = [_run_program(cs, p) for p in progs]
    return digest(fps), {"programs": len(progs)}


def _run_cross(case, cs):
    """informational: a prior used inside and outside the scatterer.
    Decides nothing; records how many parameters HoloPy exposes."""
    from holopy.inference import prior, AlphaModel
    from holopy.scattering import Sphere
    from holopy.scattering.theory import MieLens
    seen = {}
    for where in ("alpha", "lens_angle", "noise_sd", "medium_index"):
        P = prior.Uniform(0.25, 1.5)
        kw = {"alpha": 0.8, "noise_sd": 0.1, "medium_index": 1.33}
        th = MieLens(lens_angle=P if where == "lens_angle" else 0.9)
        if where in kw:
            kw[where] = P
        m = AlphaModel(Sphere(n=1.5, r=P, center=[1, 2, 3]), theory=th, **kw)
        cs.ck.trans += 1
        seen[where] = len(m.parameters)
        cs.ck.metric("cross-section-parameters:" + where, seen[where])
    return digest(sorted(seen.items())), {"cross_section": seen}


# --------------------------------------------------------------------------
# explicit-state search over add_tie
# --------------------------------------------------------------------------
def _tie_layouts(tier):
    kmax = 4 if tier == "quick" else 5
    out = []
    for k in range(2, kmax + 1):
        # k equal candidates in one sphere, the unequal one last (alpha)
        sites = ["n", "r", "center.0", "center.1", "center.2"][:k] + ["alpha"]
        out.append({"id": "sphere:k=%d" % k, "k": k, "prog": _prog(
            "sphere", sites, range(k + 1), eq=[0] * k + [1])})
        # candidates spread over all four maps, the unequal one (r) early
        spread = ["center.1", "lens_angle", "medium_index", "alpha", "n"][:k]
        order = [s[0] for s in _sites("sphere")]
        sites = sorted(spread + ["r"], key=order.index)
        eq = [1 if s == "r" else 0 for s in sites]
        out.append({"id": "spread:k=%d" % k, "k": k, "prog": _prog(
            "sphere", sites, range(k + 1), eq=eq)})
        # cluster: first parameter unequal, one candidate already shared by
        # two places, wrapped and named candidates
        cand = [("0:r", 1, "b"), ("1:r", 1, "b"), ("0:center.0", 2, "mul"),
                ("1:n", 3, "cplx"), ("1:center.2", 4, "b"),
                ("alpha", 5, "b")]
        cand = [c for c in cand if c[1] <= k]
        sites = ["0:n"] + [c[0] for c in cand]
        blocks = [0] + [c[1] for c in cand]
        wraps = ["b"] + [c[2] for c in cand]
        names = ["u", "own", "u", "own", "u", "dup"][:k + 1]
        out.append({"id": "cluster:k=%d" % k, "k": k, "prog": _prog(
            "spheres2", sites, blocks, names=names, wraps=wraps,
            eq=[1] + [0] * k)})
    # more than ten parameters: every leaf of two spheres and the scaling
    # have their own prior; the k equal ones sit at both ends of the list
    # (indices 1, 3, 8, 9, 10 of 11), so that ties renumber two-digit
    # placeholders.  Refused ties are enumerated up to size 3 only here.
    wide_sites = [s[0] for s in _sites("spheres2") if s[1] == "scat"] + \
        ["alpha"]
    for k in range(3, kmax + 1):
        pos = sorted([8, 3, 10, 1, 9][:k])
        eq, g = [], 1
        for i in range(len(wide_sites)):
            if i in pos:
                eq.append(0)
            else:
                eq.append(g)
                g += 1
        out.append({"id": "wide:k=%d" % k, "k": k, "refuse_max": 3,
                    "prog": _prog("spheres2", wide_sites,
                                  range(len(wide_sites)), eq=eq)})
    # the same sphere with its centre given as a TUPLE (the exact model has
    # no scaling: the unequal parameter is the lens angle)
    for k in range(2, kmax + 1):
        sites = ["n", "r", "center.0", "center.1", "center.2"][:k] + \
            ["lens_angle"]
        out.append({"id": "sphere-tuple:k=%d" % k, "k": k, "prog": _prog(
            "sphere-exact", sites, range(k + 1), eq=[0] * k + [1])})
    for k in range(4, kmax + 1):
        # two groups of equal priors (k-2 and 2) interleaved
        sites = ["n", "r", "center.0", "center.1", "center.2"][:k]
        eq = [0, 1, 0, 1, 0][:k]
        out.append({"id": "twogroups:k=%d" % k, "k": k, "prog": _prog(
            "sphere", sites, range(k), eq=eq)})
    return out


def _canon_map(x):
    if isinstance(x, (list, tuple)):
        return "[" + ",".join(_canon_map(i) for i in x) + "]"
    if callable(x):
        return "<%s>" % getattr(x, "__name__", type(x).__name__)
    return repr(x)


def _canon(m):
    """(names, canonical form up to names)"""
    names = tuple(m._parameter_names)
    maps = ";".join("%s=%s" % (k, _canon_map(m._maps[k]))
                    for k in sorted(m._maps))
    pri = tuple(_sig(p) for p in m._parameters)
    return names, (maps, pri)


class TieRef:
    """union-find reference model of one state"""

    def __init__(self, nblocks, name2block):
        self.rep = list(range(nblocks))
        self.n2b = dict(name2block)

    def find(self, k):
        while self.rep[k] != k:
            k = self.rep[k]
        return k

    def full_rep(self):
        return [self.find(k) for k in range(len(self.rep))]

    def partition(self):
        d = {}
        for k in range(len(self.rep)):
            d.setdefault(self.find(k), []).append(k)
        return tuple(sorted(tuple(v) for v in d.values()))


def _tie_step(cs, b, ref, S, new_name, tag):
    """apply one successful add_tie on the live model and on the reference;
    -> False if the implementation's answer is not an allowed one"""
    m = b.model
    before = list(m._parameter_names)
    cs.ck.trans += 1
    try:
        if new_name is None:
            m.add_tie(list(S))
        else:
            m.add_tie(list(S), new_name=new_name)
    except Exception as e:                     # noqa
        cs.bad("tie-equal-accepted", "%s: add_tie(%r, new_name=%r) of equal "
               "parameters raised %s: %s" % (tag, list(S), new_name,
                                             type(e).__name__, e))
        return False
    after = list(m._parameter_names)
    gone = set(S)
    kept = [n for n in before if n not in gone]
    extra = [n for n in after if n not in kept or after.count(n) > 1]
    # exactly the duplicates are removed: the untouched names stay, one
    # name stands for the tied ones
    okay = (len(after) == len(before) - len(S) + 1 and
            all(n in after for n in kept) and len(extra) == 1 and
            (extra[0] == new_name if new_name is not None
             else extra[0] in gone))
    cs.ok("tie-removes-duplicates", okay,
          lambda: "%s: add_tie(%r, new_name=%r) turned names %r into %r" %
          (tag, list(S), new_name, before, after))
    if not okay:
        return False
    blocks = sorted(ref.find(ref.n2b[n]) for n in S)
    root = blocks[0]
    for k in blocks[1:]:
        ref.rep[k] = root
    for n in S:
        del ref.n2b[n]
    ref.n2b[extra[0]] = root
    return True


def _replay(cs, lay, root_n2b, hist, tag):
    """fresh model + reference with the history applied (no deepcopy)"""
    b = _build(lay["prog"])
    cs.ck.trans += 1
    ref = TieRef(len(b.priors), root_n2b)
    for S, nn in hist:
        if not _tie_step(cs, b, ref, S, nn, tag):
            return None, None
    return b, ref


def _run_tie(case, cs):
    lay = [x for x in _tie_layouts(case["tier"])
           if x["id"] == case["layout"]][0]
    prog = lay["prog"]
    tag0 = "tie:" + lay["id"]
    try:
        b0 = _build(prog)
        root_n2b = _match_by_reach(b0, cs.ck)
        root_names, root_form = _canon(b0.model)
    except Exception as e:                     # noqa
        cs.bad("api-exception", "%s: fresh model: %s: %s" %
               (tag0, type(e).__name__, e),
               tb=traceback.format_exc()[-1500:])
        return "exception", {}
    groups = b0.groups
    if sorted(root_n2b) != sorted(root_names):
        cs.bad("one-per-prior", "%s: fresh model: parameters %r cannot be "
               "matched to the priors by the places they reach" %
               (tag0, list(root_names)))
        return "unmatched", {}
    seen = {(root_names, root_form): ()}
    by_partition = {}
    frontier = [()]
    nstates = ntrans = nfail = 0
    depth = 0
    fps = []
    max_depth = 0
    while frontier:
        nxt = []
        for hist in frontier:
            tag = "%s after %r" % (tag0, list(hist))
            b, ref = _replay(cs, lay, root_n2b, hist, tag)
            if b is None:
                continue
            nstates += 1
            m = b.model
            names, form = _canon(m)
            # ---- invariant ------------------------------------------------
            try:
                fp = _check_state(cs, b, ref.full_rep(), ref.n2b, tag,
                                  light=True)
                _sharing_check(cs, b, ref.full_rep(), tag)
            except Exception as e:             # noqa
                cs.bad("api-exception", "%s: %s: %s" %
                       (tag, type(e).__name__, e),
                       tb=traceback.format_exc()[-1500:])
                fp = "exception"
            fps.append(fp)
            part = ref.partition()
            if part in by_partition:
                cs.ok("tie-order-independent", by_partition[part][0] == form,
                      lambda: "%s: merging blocks %r gives maps %r here but "
                      "%r after %r" % (tag, part, form[0],
                                       by_partition[part][0][0],
                                       by_partition[part][1]))
            else:
                by_partition[part] = (form, list(hist))
            # ---- transitions ----------------------------------------------
            cur = list(names)
            grp = {n: groups[ref.find(ref.n2b[n])] for n in cur}
            ok_sets, bad_sets = [], []
            rmax = lay.get("refuse_max", len(cur))
            for r in range(2, len(cur) + 1):
                for S in itertools.combinations(cur, r):
                    if len({grp[n] for n in S}) == 1:
                        ok_sets.append(S)
                    elif r <= rmax:
                        bad_sets.append(S)
            # refused ties: unequal / unknown; the state must not change
            unknown = [("no_such_parameter", cur[0]),
                       (cur[0], "no_such_parameter"),
                       (cur[-1], cur[0], "_parameter_0")]
            gone = [n for n in root_names if n not in cur]
            if gone:
                unknown.append((cur[0], gone[0]))
                unknown.append((gone[-1], cur[-1]))
            attempts = [(S, None) for S in bad_sets] + \
                       [(S[::-1], "renamed") for S in bad_sets] + \
                       [(S, None) for S in unknown]
            for S, nn in attempts:
                raised = None
                try:
                    if nn is None:
                        m.add_tie(list(S))
                    else:
                        m.add_tie(list(S), new_name=nn)
                except ValueError:
                    raised = "ValueError"
                except Exception as e:         # noqa
                    raised = type(e).__name__
                cs.ck.trans += 1
                nfail += 1
                what = "unknown" if S in unknown else "unequal"
                cs.ok("tie-%s-refused" % what, raised == "ValueError",
                      lambda: "%s: add_tie(%r) of %s parameters %s" %
                      (tag, list(S), what,
                       "was accepted" if raised is None
                       else "raised " + raised))
                unchanged = _canon(m) == (names, form)
                cs.ok("tie-refusal-leaves-state", unchanged,
                      lambda: "%s: refused add_tie(%r) changed the model: "
                      "names %r -> %r" % (tag, list(S), list(names),
                                          list(m._parameter_names)))
                if not unchanged:
                    b, ref = _replay(cs, lay, root_n2b, hist, tag)
                    m = b.model
            # successful ties: every subset x name choice
            for S in ok_sets:
                for nn in (None, "T%d" % (len(hist) + 1), S[-1]):
                    h2 = hist + ((S, nn),)
                    b2, ref2 = _replay(cs, lay, root_n2b, h2, tag)
                    ntrans += 1
                    if b2 is None:
                        continue
                    st = _canon(b2.model)
                    if nn is None:
                        # the order of the names in the call is irrelevant
                        b3, ref3 = _replay(cs, lay, root_n2b,
                                           hist + ((S[::-1], None),), tag)
                        ntrans += 1
                        cs.ok("tie-argument-order",
                              b3 is not None and _canon(b3.model) == st,
                              "%s: add_tie(%r) and add_tie(%r) differ" %
                              (tag, list(S), list(S[::-1])))
                    if st not in seen:
                        seen[st] = h2
                        nxt.append(h2)
                        max_depth = max(max_depth, len(h2))
            if not ok_sets:
                # quiescent: no two remaining parameters are equal
                gs = [grp[n] for n in cur]
                cs.ok("tie-quiescent", len(set(gs)) == len(gs),
                      "%s: quiescent state still has equal parameters" % tag)
        frontier = nxt
        depth += 1
    k_groups = {}
    for g in groups:
        k_groups[g] = k_groups.get(g, 0) + 1
    extra = {"bfs": {"layout": lay["id"], "states": nstates,
                     "transitions": ntrans, "refused": nfail,
                     "partitions": len(by_partition), "depth": max_depth,
                     "group_sizes": sorted(k_groups.values())}}
    return digest(fps, sorted(map(repr, by_partition))), extra


# --------------------------------------------------------------------------
# round trip: s.from_parameters(s.parameters)
# --------------------------------------------------------------------------
def _rt_alphabet():
    """(name, thunk) -- thunks import holopy lazily"""
    def S(**kw):
        from holopy.scattering.scatterer import Sphere
        return Sphere(**kw)

    def U(a, b, **kw):
        from holopy.inference import prior
        return prior.Uniform(a, b, **kw)

    def hs():
        import holopy.scattering.scatterer as m
        return m

    def pr():
        from holopy.inference import prior
        return prior

    def shared():
        p = U(0.25, 0.75)
        return S(n=U(1.25, 1.75), r=p, center=[p, 2 * p, 3])

    def two(warn=False, layered=False):
        return hs().Spheres([
            S(n=1.5, r=0.5, center=[1, 2, 3]),
            S(n=[1.5, 1.625] if layered else 1.625 + 0.125j,
              r=[0.25, 0.5] if layered else 0.25,
              center=(14.0, 15, 16.5))], warn=warn)

    A = [
        ("sphere:scalars", lambda: S(n=1.5, r=0.5, center=[1, 2, 3])),
        ("sphere:tuple-centre", lambda: S(n=1.5 + 0.125j, r=0.5,
                                          center=(1.0, -2.0, 3.5))),
        ("sphere:array-centre", lambda: S(n=1.5, r=0.5,
                                          center=np.array([1.0, 2.0, 3.0]))),
        ("sphere:no-centre", lambda: S(n=1.5, r=0.5)),
        ("sphere:layered-lists", lambda: S(n=[1.5, 1.625], r=[0.25, 0.5],
                                           center=[1, 2, 3])),
        ("sphere:layered-arrays", lambda: S(
            n=np.array([1.5, 1.625 + 0.125j]), r=np.array([0.25, 0.5]),
            center=np.array([1, 2, 3]))),
        ("sphere:layered-3", lambda: S(n=(1.5, 1.625, 1.75),
                                       r=(0.25, 0.5, 0.75),
                                       center=[0.0, 0.0, 0.0])),
        ("sphere:priors", lambda: S(n=U(1.25, 1.75), r=U(0.25, 0.75,
                                                         name="radius"),
                                    center=[U(0, 1), 2, U(2, 4, guess=3)])),
        ("sphere:shared-prior", shared),
        ("sphere:complex-prior", lambda: S(
            n=pr().ComplexPrior(U(1.25, 1.75), 0.125), r=np.sqrt(U(1, 4)),
            center=[1, 2, 3])),
        ("sphere:dict-index", lambda: S(n={"red": 1.5, "green": 1.625},
                                        r=0.5, center=[1, 2, 3])),
        ("layeredsphere", lambda: hs().LayeredSphere(
            n=[1.5, 1.625], t=[0.25, 0.125], center=[1, 2, 3])),
        ("layeredsphere:arrays", lambda: hs().LayeredSphere(
            n=np.array([1.5, 1.625, 1.75]), t=np.array([0.25, 0.125, 0.5]),
            center=(1.0, 2.0, 3.0))),
        ("spheres:2", lambda: two()),
        ("spheres:2:warn", lambda: two(warn=True)),
        ("spheres:2:layered", lambda: two(layered=True)),
        ("spheres:1", lambda: hs().Spheres(
            [S(n=1.5, r=0.5, center=[1, 2, 3])])),
        ("spheres:4", lambda: hs().Spheres(
            [S(n=1.5 + 0.03125 * i, r=0.25 + 0.125 * i,
               center=[10.0 * i, i, -i]) for i in range(4)], warn=False)),
        ("spheres:12", lambda: hs().Spheres(
            [S(n=1.5, r=0.25, center=[10.0 * i, 1, 2]) for i in range(12)],
            warn=False)),
        ("spheres:priors", lambda: hs().Spheres(
            [S(n=U(1.25, 1.75), r=0.5, center=[1, 2, 3]),
             S(n=1.5, r=U(0.25, 0.75), center=[14, 15, U(10, 20)])],
            warn=False)),
        ("scatterers:flat", lambda: hs().Scatterers(
            [S(n=1.5, r=0.5, center=[1, 2, 3]),
             hs().Ellipsoid(n=1.5, r=(0.25, 0.5, 0.75),
                            center=(14, 15, 16))])),
        ("scatterers:nested", lambda: hs().Scatterers(
            [two(), S(n=1.75, r=0.125, center=[-27, 28.25, 9]),
             hs().Scatterers([S(n=1.5, r=0.5, center=[40, -41.0, 42])])])),
        ("scatterers:empty-member-list", lambda: hs().Scatterers([])),
        ("ellipsoid", lambda: hs().Ellipsoid(
            n=1.5, r=(0.25, 0.5, 0.75), center=(1, 2, 3),
            rotation=(0.25, 0.5, 0.75))),
        ("ellipsoid:lists", lambda: hs().Ellipsoid(
            n=1.5 + 0.125j, r=[0.25, 0.5, 0.75], center=[1, 2, 3],
            rotation=[0.25, 0.5, 0.75])),
        ("spheroid", lambda: hs().Spheroid(
            n=1.5, r=(0.25, 0.5), rotation=(0.25, 0.5, 0.75),
            center=(1, 2, 3))),
        ("spheroid:lists", lambda: hs().Spheroid(
            n=1.5, r=[0.25, 0.5], rotation=[0.25, 0.5, 0.75],
            center=[1, 2, 3])),
        ("cylinder", lambda: hs().Cylinder(
            n=1.5, h=1.25, d=0.5, center=[1, 2, 3],
            rotation=[0.25, 0.5, 0.75])),
        ("capsule", lambda: hs().Capsule(
            n=1.5, h=1.25, d=0.5, center=(1, 2, 3),
            rotation=(0.25, 0.5, 0.75))),
        ("bisphere", lambda: hs().Bisphere(
            n=1.5, h=1.25, d=0.5, center=[1, 2, 3],
            rotation=(0.25, 0.5, 0.75))),
        ("janus-uniform", lambda: hs().JanusSphere_Uniform(
            n=[1.5, 1.625], r=[0.25, 0.5], rotation=[0.25, 0.5, 0.75],
            center=[1, 2, 3])),
        ("janus-tapered", lambda: hs().JanusSphere_Tapered(
            n=[1.5, 1.625], r=[0.25, 0.5], rotation=[0.25, 0.5],
            center=[1, 2, 3])),
        ("union", lambda: hs().Union(
            S(n=1.5, r=0.5, center=[1, 2, 3]),
            S(n=1.5, r=0.25, center=[1.25, 2, 3]))),
        ("difference", lambda: hs().Difference(
            S(n=1.5, r=0.5, center=[1, 2, 3]),
            hs().Ellipsoid(n=1.5, r=[0.25, 0.5, 0.75], center=[1, 2, 3.5]))),
        ("intersection", lambda: hs().Intersection(
            S(n=1.5, r=0.5, center=(1, 2, 3)),
            S(n=1.5, r=0.25, center=(1.25, 2, 3)))),
    ]
    rots = [(0.0, 0.0, 0.0), (0.3, 0.4, 0.5), (math.pi / 2, 0.0, 0.0),
            (0.0, math.pi, 0.0), (7.3, -4.1, 1.0)]
    trs = [(0.0, 0.0, 0.0), (1.0, -2.0, 3.5)]
    for ir, rot in enumerate(rots):
        for it, tr in enumerate(trs):
            for form in ("tuple", "list"):
                if form == "list" and (ir, it) not in ((1, 1), (4, 1)):
                    continue
                A.append(("rigid:rot#%d:tr#%d:%s" % (ir, it, form),
                          lambda rot=rot, tr=tr, form=form:
                          hs().RigidCluster(
                              two(layered=(form == "list")),
                              translation=(list(tr) if form == "list"
                                           else tr),
                              rotation=(list(rot) if form == "list"
                                        else rot))))
    A.append(("rigid:4-members", lambda: hs().RigidCluster(
        hs().Spheres([S(n=1.5 + 0.03125 * i, r=0.25,
                        center=[3.0 * i, i * i, -i]) for i in range(4)],
                     warn=False),
        translation=(1.0, -2.0, 3.5), rotation=(0.3, 0.4, 0.5))))
    A.append(("rigid:index-priors", lambda: hs().RigidCluster(
        hs().Spheres([S(n=U(1.25, 1.75), r=0.5, center=[1, 2, 3]),
                      S(n=1.5, r=U(0.25, 0.75), center=[14, 15, 16])],
                     warn=False),
        translation=(1.0, -2.0, 3.5), rotation=(0.3, 0.4, 0.5))))
    return A


def _norm(x, depth=0):
    """own structural fingerprint of a value / holopy object: sequences
    become lists, numpy scalars become python numbers"""
    if depth > 12:
        return "<deep>"
    if isinstance(x, np.ndarray):
        return ["seq"] + [_norm(v, depth + 1) for v in x.tolist()]
    if isinstance(x, (list, tuple)):
        return ["seq"] + [_norm(v, depth + 1) for v in x]
    if isinstance(x, dict):
        return ["dict"] + [[repr(k), _norm(v, depth + 1)]
                           for k, v in x.items()]
    if isinstance(x, (bool, np.bool_)):
        return bool(x)
    if isinstance(x, (int, np.integer)):
        return float(x)
    if isinstance(x, (float, np.floating)):
        return float(x)
    if isinstance(x, (complex, np.complexfloating)):
        c = complex(x)
        return c.real if c.imag == 0 else ["c", c.real, c.imag]
    if x is None or isinstance(x, str):
        return x
    if callable(x) and not hasattr(x, "__dict__"):
        return "<%s>" % getattr(x, "__name__", "callable")
    if hasattr(x, "__dict__"):
        d = vars(x)
        return [type(x).__name__] + [[k, _norm(d[k], depth + 1)]
                                     for k in sorted(d)]
    return repr(x)


def _containers(x, out, depth=0, seen=None):
    """all lists / dicts / arrays reachable from x (through holopy objects)"""
    if seen is None:
        seen = set()
    if id(x) in seen or depth > 12:
        return
    seen.add(id(x))
    if isinstance(x, np.ndarray):
        out.append(x)
        if x.dtype == object:
            for v in x.ravel():
                _containers(v, out, depth + 1, seen)
    elif isinstance(x, list):
        out.append(x)
        for v in list(x):
            _containers(v, out, depth + 1, seen)
    elif isinstance(x, tuple):
        for v in x:
            _containers(v, out, depth + 1, seen)
    elif isinstance(x, dict):
        out.append(x)
        for v in list(x.values()):
            _containers(v, out, depth + 1, seen)
    elif hasattr(x, "__dict__") and not callable(x):
        for v in list(vars(x).values()):
            _containers(v, out, depth + 1, seen)


def _scribble(conts):
    n = 0
    for c in conts:
        try:
            if isinstance(c, np.ndarray):
                if c.dtype != object and c.size:
                    c += 1
                    n += 1
                elif c.size:
                    c.ravel()[0] = "scribble"
                    n += 1
            elif isinstance(c, list):
                if c:
                    c[0] = "scribble"
                c.append("scribble")
                n += 1
            elif isinstance(c, dict):
                c["scribble"] = "scribble"
                n += 1
        except Exception:                      # noqa
            pass
    return n


def _run_rt(case, cs):
    import holopy.scattering.scatterer as hs
    name, thunk = _rt_alphabet()[case["i"]]
    ck = cs.ck
    s = thunk()
    tag = "rt:" + name
    before = _norm(s)
    p1 = s.parameters
    p2 = s.parameters
    ck.trans += 2
    cs.ok("parameters-deterministic", _norm(p1) == _norm(p2),
          "%s: two reads of .parameters differ" % tag)
    try:
        c = s.from_parameters(p1)
    except Exception as e:                     # noqa
        cs.bad("roundtrip-raised", "%s: from_parameters(parameters) raised "
               "%s: %s" % (tag, type(e).__name__, e))
        return "raised", {}
    ck.trans += 1
    cs.ok("parameters-read-pure", _norm(s) == before,
          "%s: reading .parameters / from_parameters changed the original"
          % tag)
    rigid = isinstance(s, hs.RigidCluster)
    if not rigid:
        cs.ok("roundtrip-type", type(c) is type(s),
              "%s: from_parameters returned a %s" % (tag, type(c).__name__))
        cs.ok("roundtrip-equal", _norm(c) == before,
              lambda: "%s: from_parameters(parameters) differs from the "
              "original: %r vs %r" % (tag, _norm(c), before))
        eq = None
        try:
            eq = bool(c == s) and bool(s == c)
        except Exception as e:                 # noqa
            eq = "%s: %s" % (type(e).__name__, e)
        cs.ok("roundtrip-equal", eq is True,
              "%s: from_parameters(parameters) == original gives %r" %
              (tag, eq))
    else:
        base = s.spheres
        C0 = np.array([np.asarray(m.center, float)
                       for m in base.scatterers])
        com = C0.mean(0)
        want = com + (C0 - com) @ euler_zyz(*s.rotation).T + \
            np.asarray(s.translation, float)
        cs.ok("roundtrip-type", type(c) is hs.Spheres and
              len(c.scatterers) == len(base.scatterers),
              "%s: from_parameters returned %s" % (tag, type(c).__name__))
        if type(c) is hs.Spheres and \
                len(c.scatterers) == len(base.scatterers):
            got = np.array([np.asarray(m.center, float)
                            for m in c.scatterers])
            scale = max(1.0, float(np.abs(want).max()))
            e = float(np.abs(got - want).max() / scale)
            ck.metric("rigid-placement", e)
            cs.ok("rigid-roundtrip-placement", e <= 1e-12,
                  "%s: rebuilt members are not the rotated and translated "
                  "spheres (max deviation %.3g)" % (tag, e * scale),
                  obs=got.tolist(), exp=want.tolist())
            for i, (a, o) in enumerate(zip(c.scatterers, base.scatterers)):
                cs.ok("roundtrip-equal", _norm(a.n) == _norm(o.n) and
                      _norm(a.r) == _norm(o.r) and type(a) is type(o),
                      "%s: member %d changed index or radius" % (tag, i))
            cs.ok("roundtrip-equal", c.warn == base.warn,
                  "%s: warn flag not carried over" % tag)
    # ---- no shared mutable state -------------------------------------------
    mine, theirs, pc = [], [], []
    _containers(s, mine)
    _containers(c, theirs)
    _containers(p1, pc)
    common = {id(x) for x in mine} & {id(x) for x in theirs}
    cs.ok("no-shared-containers", not common,
          lambda: "%s: the copy holds %d list/array/dict object(s) of the "
          "original: %r" % (tag, len(common),
                            [x for x in mine if id(x) in common][:3]))
    common = {id(x) for x in mine} & {id(x) for x in pc}
    cs.ok("no-shared-containers", not common,
          "%s: .parameters hands out containers of the original" % tag)
    n1 = _scribble(theirs)
    cs.ok("mutate-copy", _norm(s) == before,
          "%s: overwriting the lists/arrays of the copy changed the "
          "original" % tag)
    n2 = _scribble(pc)
    _scribble([p1])
    cs.ok("mutate-parameters", _norm(s) == before,
          "%s: overwriting the .parameters dictionary changed the original"
          % tag)
    ck.metric("containers-overwritten", n1 + n2)
    return digest(before, n1, n2), {}


# --------------------------------------------------------------------------
def _run_many(case, cs):
    """(added by the lead) models with MORE THAN TEN distinct parameters:
    every leaf of 2-4 spheres (and of a 4-layer sphere) has its own prior.
    The oracle reads the parameter NAMES: '2:center.1' must land in member
    2, centre component 1."""
    import warnings
    from holopy.inference import prior, AlphaModel
    from holopy.scattering import Sphere, Spheres, Mie
    ck = cs.ck
    acc = []

    def leafprior(k):
        return prior.Uniform(0.0, 100.0, guess=1.0 + 0.37 * k)
    for nsph in (2, 3, 4):
        k = 0
        mem = []
        for i in range(nsph):
            ps = [leafprior(k + j) for j in range(5)]
            k += 5
            mem.append(Sphere(n=ps[0], r=ps[1], center=[ps[2], ps[3],
                                                        ps[4]]))
        with warnings.catch_warnings():
            warnings.simplefilter("ignore")
            model = AlphaModel(Spheres(mem, warn=False),
                               alpha=prior.Uniform(0.5, 1.0, 0.8),
                               theory=Mie())
        names = list(model.parameters)
        ck.true("param-count", len(names) == 5 * nsph + 1 and
                len(set(names)) == len(names), "%d free leaves + alpha give "
                "%d parameters (%d distinct names)" %
                (5 * nsph, len(names), len(set(names))))
        for vec in ("primes", "reversed"):
            vals = [2.0 + 0.5 * j + (j * j % 7) * 0.01 for j in
                    range(len(names))]
            if vec == "reversed":
                vals = vals[::-1]
            byname = dict(zip(names, vals))
            for form, arg in (("list", list(vals)), ("dict", dict(byname))):
                with warnings.catch_warnings():
                    warnings.simplefilter("ignore")
                    sc = model.scatterer_from_parameters(arg)
                ck.trans += 1
                for nm, v in byname.items():
                    if ":" not in nm:
                        continue
                    i, leaf = nm.split(":", 1)
                    s = sc.scatterers[int(i)]
                    if leaf == "n":
                        got = s.n
                    elif leaf == "r":
                        got = s.r
                    else:
                        got = s.center[int(leaf.split(".")[1])]
                    ck.true("place-values", got == v, "%d spheres, %s "
                            "values: parameter %s = %r arrived as %r" %
                            (nsph, form, nm, v, got))
                acc.append(np.array([float(np.real(s.r))
                                     for s in sc.scatterers]))
        g = model.initial_guess
        ck.true("initial-guess", [g[nm] for nm in names] ==
                [model.parameters[nm].guess for nm in names],
                "initial guess does not list the priors' guesses")
    return digest(*acc), {"programs": 3}


def _run_sharedout(case, cs):
    """one prior object used in the scatterer AND in the scaling, the optics
    or the theory is one parameter, and its value reaches every place"""
    from holopy.core.prior import Uniform
    from holopy.inference import AlphaModel
    from holopy.scattering import Sphere
    from holopy.scattering.theory import MieLens
    ck = cs.ck
    acc = []
    for what, build, probe in (
            ("Sphere.r and alpha", lambda u: AlphaModel(
                Sphere(n=1.5, r=u, center=[0.1, 0.2, 5.0]), alpha=u),
             lambda m, v: (m.scatterer_from_parameters([v]).r,
                           m._find_parameter("alpha", [v])
                           if hasattr(m, "_find_parameter") else v)),
            ("Sphere.n and medium_index", lambda u: AlphaModel(
                Sphere(n=u, r=0.5, center=[0.1, 0.2, 5.0]), alpha=0.7,
                medium_index=u), None),
            ("centre z and lens_angle", lambda u: AlphaModel(
                Sphere(n=1.5, r=0.5, center=[0.1, 0.2, u]), alpha=0.7,
                theory=MieLens(lens_angle=u)), None),
            ("Sphere.r and centre x (inside the scatterer: control)",
             lambda u: AlphaModel(Sphere(n=1.5, r=u, center=[u, 0.2, 5.0]),
                                  alpha=0.7), None)):
        u = Uniform(0.6, 0.9)
        try:
            m = build(u)
            cs.ck.trans += 1
        except Exception as e:
            ck.true("one-parameter-per-prior", False, "%s: the model cannot "
                    "be built: %s: %s" % (what, type(e).__name__, e))
            continue
        names = list(m.parameters)
        ck.true("one-parameter-per-prior", len(names) == 1, "%s hold ONE "
                "prior object, the model has parameters %r" % (what, names))
        acc.append((what, names))
    return digest(repr(acc)), {}


def run_case(case):
    cs = Case()
    kind = case["kind"]
    fn = {"model": _run_model, "rigid": _run_rigid, "cross": _run_cross,
          "tie": _run_tie, "rt": _run_rt, "many": _run_many,
          "hist": _run_hist, "sharedout": _run_sharedout}[kind]
    fp, extra = fn(case, cs)
    res = cs.ck.result(fp=fp)
    res["extra"] = extra
    return res


def coverage_extra(cases, results):
    tier = cases[0].get("tier", "quick") if cases else "quick"
    progs = removed = 0
    by_group = {}
    bfs = []
    cross = None
    for c, r in zip(cases, results):
        ex = r.get("extra") or {}
        if "programs" in ex:
            progs += ex["programs"]
            removed += ex.get("removed_by_side_conditions", 0)
            g = c.get("group", c["kind"])
            by_group[g] = by_group.get(g, 0) + ex["programs"]
        if "bfs" in ex:
            bfs.append(ex["bfs"])
        if "cross_section" in ex:
            cross = ex["cross_section"]
    out = {
        "model_programs": progs,
        "model_programs_by_group": by_group,
        "programs_removed_by_side_conditions": removed,
        "structures": sorted({c["s"] for c in cases if "s" in c}) +
        ["rigid"],
        "naming_alphabet": NAMINGS,
        "wrapper_alphabet": WRAPS,
        "enumeration_plan": PLAN[tier],
        "value_vectors": ["guesses", "distinct values", "reversed"],
        "tie_search": bfs,
        "tie_states": sum(x["states"] for x in bfs),
        "tie_transitions": sum(x["transitions"] + x["refused"]
                               for x in bfs),
        "tie_max_candidates": max([max(x["group_sizes"]) for x in bfs] +
                                  [0]),
        "roundtrip_scatterers": sum(1 for c in cases if c["kind"] == "rt"),
        "cross_section_sharing_parameters": cross,
    }
    # states = programs + search states + round-trip objects
    out["states"] = progs + out["tie_states"] + out["roundtrip_scatterers"]
    return out

"""C18 -- image-processing tools satisfy their defining identities.

Bounded-exhaustive over small images (every shape of a square range, several
value sets, two metadata variants):

* normalize   : mean 1, idempotent, invariant to positive rescaling,
                proportional to the input;
* bg_correct  : (raw - dark)/(bg - dark) pixelwise, exactly 1 for an image
                divided by itself;
* subimage    : EVERY centre and even size that fits, both call forms; every
                retained pixel keeps its value and physical coordinates and
                the window is the requested one;
* zero_filter : every single dead-pixel position on every shape, every
                non-adjacent pair on 5x6; positive pixels untouched,
                interior zero -> mean of its 4 neighbours, edge zero -> mean
                of its 2 neighbours along the edge, corner -> BadImage;
* detrend     : every plane of a coefficient alphabet^3 is removed;
* Accumulator : every ordered selection (= every subset in every order) of
                2..5 images of a 5-image alphabet vs numpy batch mean / std;
* center_find : computed single-sphere Mie holograms, sphere centre on a
                lattice over the central 60 % of detectors of 60/100/160 px;
* make_center_priors : centre_found*spacing + origin;
* all of them : name / attrs / coordinates of the image are kept.

Oracles are numpy / math only.
"""
import itertools
import math

import numpy as np

from lib import (Checker, bits_equal, digest, fp_xarray, history_refs,
                 history_seqs, history_cases, run_history)

PROPERTY = "C18"
RULE = ("cases = (tool, image shape) blocks over every shape of [3..8]^2 "
        "(quick [3..5]^2) x value sets x 2 metadata variants; inside a block "
        "the tool's whole argument alphabet is enumerated (every crop centre "
        "and even size that fits, every dead-pixel position, every "
        "non-adjacent dead pair on 5x6, every plane of a coefficient "
        "alphabet^3, every order of every subset of the accumulator's image "
        "alphabet); one case per centre-finder configuration (detector size "
        "x (r,n,z) x lattice point x sub-pixel offset).  A case is "
        "non-trivial when its observed value fingerprint differs from other "
        "cases'")
ASSUMPTIONS = [
    "numpy elementwise arithmetic, math.fsum and numpy.std(ddof=0) are "
    "correct; 'batch standard deviation' is the population value (the "
    "Accumulator divides by n, numpy's default)",
    "'within one pixel' is decided per axis (|row error| <= 1 and |column "
    "error| <= 1), the reading under which make_center_priors' independent "
    "1-pixel Gaussians are justified; the Euclidean error is recorded as a "
    "metric (centre-error-euclid-px) but does not decide",
    "'mean exactly 1' / 'idempotent' are decided to rounding: a bound in "
    "ulp multiplied by the conditioning sum|v|/|sum v| of the image",
    "subimage is driven through its two self-consistent call forms: (x, y) "
    "pixel centre + one even size on a (z, x, y) image, and (x, y) centre + "
    "(size_x, size_y) on a 2-D (x, y) array; odd sizes and windows that do "
    "not fit are excluded by the docstring ('Shape values must be even')",
    "bg_correct's formula is decided where background - dark > 0 everywhere "
    "(elsewhere the documented dead-pixel interpolation applies)",
    "normalize is decided for images with non-zero mean; zero_filter for "
    "images whose live pixels are positive; dead pixels are 'isolated' when "
    "none of their 4-neighbours is dead",
    "centre finder: only the enumerated lattice (5x5 over the central 60 %, "
    "sub-pixel offsets, 4 (r,n,z) triples, 3 square + 3 non-square "
    "detectors (the latter on a 3x3 sub-lattice), spacing 0.1, "
    "lambda 0.66, n_medium 1.33, x-polarised) is explored",
]
# tolerances: >= 30x the largest discrepancy observed on the unchanged tree
# over the thorough alphabet (observed maxima are written to the evidence)
TOLERANCES = {
    "normalize-mean-ulp-per-cond": 128.0,
    "normalize-idempotent-ulp-per-cond": 128.0,
    "normalize-scale-invariant": 1e-12,
    "normalize-proportional": 1e-12,
    "bg-formula": 1e-13,
    "bg-self-division": 0.0,
    "subimage-values": 0.0,
    "subimage-coords": 0.0,
    "zero-filter-live-pixels": 0.0,
    "zero-filter-interpolated": 1e-12,
    "detrend-plane-removed": 1e-11,
    "detrend-signal-kept-min": 0.01,
    "accumulator-mean": 1e-12,
    "accumulator-std": 1e-12,
    "centre-error-px": 1.0,
    "center-priors-relation": 1e-12,
}
TIMEOUT = 600

SHAPES = {"quick": [(a, b) for a in range(3, 6) for b in range(3, 6)],
          "thorough": [(a, b) for a in range(3, 9) for b in range(3, 9)]}
SCALES = [1.0, 2.0 ** -10, 3.0, 1e6]
PLANE = [0.0, 1.0, -2.5, 1e3]
META = ["M0", "M1"]

# centre finder
DETECTORS = [60, 100, 160]
NONSQUARE = [(60, 100), (100, 60), (160, 100)]
RNZ = [(0.5, 1.59, 10.0), (0.3, 1.45, 6.0), (1.0, 1.59, 20.0),
       (0.5, 1.40, 15.0)]
OFFSETS = [(0.33, -0.17), (0.0, 0.0), (0.5, 0.5), (-0.17, 0.33)]
LATTICE_N = 5
SPACING = 0.1
OPTICS = dict(medium_index=1.33, illum_wavelen=0.66,
              illum_polarization=(1, 0))


# --------------------------------------------------------------------------
# image alphabet
# --------------------------------------------------------------------------
def _vals(kind, nx, ny):
    i, j = np.mgrid[0:nx, 0:ny].astype(float)
    if kind == "ramp":          # positive, all values distinct
        return 0.7 + 0.3 * (i * ny + j) + 0.013 * ((7 * i + 3 * j) % 5)
    if kind == "mixed":         # both signs, mean ~ 1.4, sum|v|/|sum v| < 3
        return ((3 * i + 5 * j) % 7 - 2.0) * 1.3 + 0.05 * j
    if kind == "const":
        return np.full((nx, ny), 2.5)
    if kind == "ints":          # integer dtype, like raw camera counts
        return (1 + i * ny + j + ((i + j) % 3)).astype(np.int64)
    if kind == "bumpy":         # positive, non-monotone
        return 2.0 + np.cos(1.3 * i + 0.4) * np.sin(0.9 * j + 0.2) \
            + 0.01 * i * j
    if kind == "bg":            # positive background pattern
        return 2.0 + 0.5 * ((i + 2 * j) % 3) + 0.01 * i
    raise KeyError(kind)


def _mk(vals, meta="M0", name="__default__"):
    """a HoloPy image (z, x, y) with metadata variant `meta`."""
    from holopy.core.metadata import data_grid
    vals = np.array(vals)
    if meta == "M0":
        im = data_grid(vals, spacing=0.1, medium_index=1.33,
                       illum_wavelen=0.66, illum_polarization=(1, 0),
                       noise_sd=0.05,
                       name="img" if name == "__default__" else name)
    elif meta == "M2":
        # an image whose coordinate axes do not start at 0 (e.g. a region
        # cut out of a larger frame)
        im = data_grid(vals, spacing=(0.2, 0.1), medium_index=1.33,
                       illum_wavelen=0.66, illum_polarization=(1, 0),
                       name="region" if name == "__default__" else name)
        im = im.assign_coords(x=im.x + 0.37, y=im.y - 1.3)
    else:
        im = data_grid(vals, spacing=(0.1, 0.25), medium_index=1.0,
                       illum_polarization=(0, 1), z=3.5,
                       name=None if name == "__default__" else name)
        im.attrs["user_tag"] = "t1"
    return im


def _val_eq(a, b):
    import xarray as xr
    if isinstance(a, xr.DataArray) or isinstance(b, xr.DataArray):
        return (isinstance(a, xr.DataArray) and isinstance(b, xr.DataArray)
                and a.identical(b))
    if isinstance(a, np.ndarray) or isinstance(b, np.ndarray):
        return np.array_equal(np.asarray(a), np.asarray(b))
    if a is None or b is None:
        return a is None and b is None
    try:
        return bool(a == b)
    except Exception:
        return False


def _attrs_diff(got, ref, allow=None):
    """names of attrs that differ (missing, extra or unequal)."""
    bad = []
    for k in sorted(set(got) | set(ref), key=str):
        if k not in got or k not in ref:
            bad.append(k)
        elif not _val_eq(got[k], ref[k]):
            if allow and k in allow and any(_val_eq(got[k], v)
                                            for v in allow[k]):
                continue
            bad.append(k)
    return bad


class _ToolRaised(Exception):
    """the tool under test raised on an input the property covers."""


def _t(what, fn, *args, passthrough=(), **kw):
    try:
        return fn(*args, **kw)
    except passthrough:
        raise
    except Exception as e:
        raise _ToolRaised("%s raised %s: %s" % (what, type(e).__name__, e))


class _Snap:
    """metadata of an image as it was before a call."""

    def __init__(self, im):
        self.name = im.name
        self.attrs = dict(im.attrs)
        self.dims = tuple(im.dims)
        self.coords = {str(k): np.array(im.coords[k].values)
                       for k in im.coords}


def _meta(ck, tool, out, snap, what, coords=("x", "y", "z"), allow=None):
    """the result carries the image's metadata (name, attrs, coordinates)."""
    import xarray as xr
    if not ck.true("%s-returns-image" % tool, isinstance(out, xr.DataArray),
                   "%s: result is %s, not a DataArray" %
                   (what, type(out).__name__)):
        return
    ck.true("%s-name-kept" % tool, out.name == snap.name,
            "%s: name %r became %r" % (what, snap.name, out.name))
    bad = _attrs_diff(out.attrs, snap.attrs, allow)
    ck.true("%s-attrs-kept" % tool, not bad,
            "%s: attrs differ from the image's: %r" % (what, bad))
    ck.true("%s-dims-kept" % tool, tuple(out.dims) == snap.dims,
            "%s: dims %r became %r" % (what, snap.dims, tuple(out.dims)))
    for c in coords:
        if c not in snap.coords:
            continue
        ok = c in out.coords and bits_equal(np.asarray(out.coords[c].values),
                                            snap.coords[c])
        ck.true("%s-coords-kept" % tool, ok,
                "%s: coordinate %s differs from the image's" % (what, c))


def _input_meta(ck, tool, im, snap, what):
    """the call left the metadata of its input image alone."""
    ok = (im.name == snap.name and not _attrs_diff(im.attrs, snap.attrs)
          and tuple(im.dims) == snap.dims
          and all(c in im.coords and
                  bits_equal(np.asarray(im.coords[c].values), v)
                  for c, v in snap.coords.items()))
    ck.true("%s-input-metadata-kept" % tool, ok,
            "%s: the call changed name/attrs/coords of its input" % what)


def _fmean(a):
    a = np.asarray(a, dtype=float).ravel()
    return math.fsum(a.tolist()) / a.size


def _cond(v):
    v = np.asarray(v, dtype=float)
    return float(np.abs(v).sum() / abs(v.sum()))


EPS = float(np.finfo(float).eps)


# --------------------------------------------------------------------------
# cases
# --------------------------------------------------------------------------
def _lattice(N):
    return [float(v) for v in np.linspace(0.2 * N, 0.8 * N, LATTICE_N)]


def _nxy(N):
    return (N, N) if np.isscalar(N) else (int(N[0]), int(N[1]))


def cases(tier, seed):
    out = []
    for (nx, ny) in SHAPES[tier]:
        for tool in ("normalize", "bg", "subimage", "zero1", "detrend"):
            out.append({"id": "%s:%dx%d" % (tool, nx, ny), "kind": tool,
                        "nx": nx, "ny": ny, "tier": tier})
    out.append({"id": "bg:refusals", "kind": "bgrefuse", "tier": tier})
    # histories: the frames of a recording pass through the tools one after
    # another in one interpreter
    hops = ["%s@%s" % (t, v) for t in HIST_TOOLS for v in HIST_VARIANTS]
    # (the frames are built once here, in the driver, which runs no tool:
    # workers and their per-case children inherit them)
    _hist_frames()
    refs = history_refs(_hist_op, hops)
    if tier == "quick":
        # every ordered pair over the whole alphabet; length 3 inside one
        # tool over the frames A, B, C
        seqs = history_seqs(hops, depth=2)
        for t in HIST_TOOLS:
            mine = [o for o in hops if o.split("@")[0] == t
                    and o[-1] in "ABC"]
            seqs += [list(q) for q in itertools.product(mine, repeat=3)]
    else:
        core = [o for o in hops if o[-1] in "ABC"]
        seqs = history_seqs(hops, core=core, depth=3)
    out += history_cases("hist", refs, seqs, tier=tier)
    for (nx, ny) in ((4, 5), (3, 3)):
        out.append({"id": "bg:camera-counts:%dx%d" % (nx, ny),
                    "kind": "bgcounts", "nx": nx, "ny": ny, "tier": tier})
    # zero_filter pairs on 5x6: one case per first position
    for p in range(30):
        if _partners(p):
            out.append({"id": "zero2:5x6:first=%d,%d" % divmod(p, 6),
                        "kind": "zero2", "p": p, "tier": tier})
    # accumulator: one case per subset of the image alphabet
    kmax = 4 if tier == "quick" else 5
    for k in range(2, kmax + 1):
        for sub in itertools.combinations(range(5), k):
            if tier == "quick" and k >= 3 and sub[0] != 0:
                continue
            out.append({"id": "accumulator:%s" % "".join(map(str, sub)),
                        "kind": "acc", "members": list(sub), "tier": tier})
    out.append({"id": "accumulator:repeats", "kind": "accrep", "tier": tier})
    out.append({"id": "accumulator:mixed-float-widths", "kind": "accdtype",
                "tier": tier})
    # centre finder: one case per configuration
    if tier == "quick":
        pts = [(0, 0), (0, 4), (2, 2), (4, 0), (4, 4)]
        rnzs = [0, 1, 2]
        offs = [0]
    else:
        pts = [(i, j) for i in range(LATTICE_N) for j in range(LATTICE_N)]
        rnzs = range(len(RNZ))
        offs = range(len(OFFSETS))
    for N in DETECTORS:
        for k in rnzs:
            for (i, j) in pts:
                for o in offs:
                    out.append({
                        "id": "centre:N=%d:rnz#%d:lat=%d,%d:off#%d" %
                              (N, k, i, j, o),
                        "kind": "centre", "N": N, "rnz": k, "i": i, "j": j,
                        "off": o, "tier": tier})
    # non-square detectors (rows != columns): reduced lattice
    if tier == "quick":
        nsq, pts, rnzs, offs = NONSQUARE[:1], [(0, 0), (2, 2), (4, 4)], \
            [0, 2], [0]
    else:
        nsq, pts, rnzs, offs = NONSQUARE, \
            [(i, j) for i in (0, 2, 4) for j in (0, 2, 4)], \
            range(len(RNZ)), [0, 3]
    for N in nsq:
        for k in rnzs:
            for (i, j) in pts:
                for o in offs:
                    out.append({
                        "id": "centre:N=%dx%d:rnz#%d:lat=%d,%d:off#%d" %
                              (N[0], N[1], k, i, j, o),
                        "kind": "centre", "N": list(N), "rnz": k, "i": i,
                        "j": j, "off": o, "tier": tier})
    # detectors whose pixels are not square
    for isp, sp in enumerate([(0.1, 0.12), (0.15, 0.1), (0.1, 0.07)]):
        for k in ([0] if tier == "quick" else [0, 2]):
            for (i, j) in ([(2, 2), (0, 4)] if tier == "quick" else
                           [(0, 0), (2, 2), (4, 4), (0, 4)]):
                out.append({
                    "id": "centre:rect-pixels#%d:rnz#%d:lat=%d,%d" %
                          (isp, k, i, j),
                    "kind": "centre", "N": 80, "rnz": k, "i": i, "j": j,
                    "off": 0, "tier": tier, "spacing": list(sp)})
    # images whose dimensions are ordered otherwise, two-colour holograms
    for lay in ("zyx", "yxz", "xyz", "two-colour", "two-colour-last"):
        out.append({"id": "centre:layout:%s" % lay, "kind": "centre",
                    "N": [70, 90], "rnz": 0, "i": 1, "j": 3, "off": 0,
                    "tier": tier, "layout": lay})
    # make_center_priors: origin x spacing x uncertainty
    for N in ([60] if tier == "quick" else [60, 100]):
        for k in ([0, 2] if tier == "quick" else range(len(RNZ))):
            for io, origin in enumerate([(0.0, 0.0), (1.7, -0.4)]):
                for isp, sp in enumerate([0.1, 0.0851]):
                    out.append({
                        "id": "priors:N=%d:rnz#%d:origin#%d:spacing#%d" %
                              (N, k, io, isp),
                        "kind": "priors", "N": N, "rnz": k,
                        "origin": list(origin), "spacing": sp, "tier": tier})
    return out


# --------------------------------------------------------------------------
# normalize
# --------------------------------------------------------------------------
def _run_normalize(case, ck):
    from holopy.core.process import normalize
    nx, ny = case["nx"], case["ny"]
    acc = []
    for kind in ("ramp", "mixed", "const", "ints", "negmean"):
        # negmean: an image whose pixel sum is negative (a difference or
        # dark-subtracted frame)
        v0 = -_vals("mixed", nx, ny) if kind == "negmean" else \
            _vals(kind, nx, ny)
        cond = _cond(v0)
        for meta in META:
            base = None
            for s in SCALES:
                if kind == "ints":
                    if s != int(s) or s > 1e3:
                        continue
                    v = v0 * int(s)
                else:
                    v = v0 * s
                what = "normalize(%s %dx%d x%g, %s)" % (kind, nx, ny, s, meta)
                im = _mk(v, meta)
                snap = _Snap(im)
                n1 = _t(what, normalize, im)
                ck.trans += 1
                _meta(ck, "normalize", n1, snap, what)
                _input_meta(ck, "normalize", im, snap, what)
                a1 = np.asarray(n1.values, dtype=float)
                if not ck.true("normalize-shape", a1.shape == (1, nx, ny),
                               "%s: shape %r" % (what, a1.shape)):
                    continue
                # mean exactly 1 (to rounding)
                e = abs(_fmean(a1) - 1.0) / EPS / cond
                ck.metric("normalize-mean-ulp-per-cond", e)
                ck.true("normalize-mean-one",
                        e <= TOLERANCES["normalize-mean-ulp-per-cond"],
                        "%s: mean = %r, %.3g ulp/cond from 1" %
                        (what, _fmean(a1), e))
                # proportional to the input (divides by the pixel average)
                ref = np.asarray(v, dtype=float) / _fmean(v)
                e = float(np.abs(a1[0] - ref).max() / np.abs(ref).max())
                ck.metric("normalize-proportional", e)
                ck.true("normalize-proportional",
                        e <= TOLERANCES["normalize-proportional"],
                        "%s: differs from v/mean(v) by %.3g" % (what, e))
                # idempotent
                n2 = _t(what + ' twice', normalize, n1)
                ck.trans += 1
                a2 = np.asarray(n2.values, dtype=float)
                e = float(np.abs(a2 - a1).max() / np.abs(a1).max()
                          / EPS / cond)
                ck.metric("normalize-idempotent-ulp-per-cond", e)
                ck.true("normalize-idempotent",
                        e <= TOLERANCES["normalize-idempotent-ulp-per-cond"],
                        "%s: normalize(normalize(x)) differs from "
                        "normalize(x) by %.3g ulp/cond" % (what, e))
                _meta(ck, "normalize", n2, snap, what + " twice")
                # invariant to positive rescaling
                if base is None:
                    base = a1
                else:
                    e = float(np.abs(a1 - base).max() / np.abs(base).max())
                    ck.metric("normalize-scale-invariant", e)
                    ck.true("normalize-scale-invariant",
                            e <= TOLERANCES["normalize-scale-invariant"],
                            "%s: differs from the unscaled image's result "
                            "by %.3g" % (what, e))
                acc.append(np.round(a1, 9))
    # images with more than one plane or colour channel: the mean over ALL
    # pixels is 1
    from holopy.core.metadata import data_grid
    for tag, shape, kw in (
            ("2ch", (nx, ny, 2), {"extra_dims": {"illumination":
                                                 ["red", "green"]}}),
            ("3ch", (nx, ny, 3), {"extra_dims": {"illumination":
                                                 ["red", "green", "blue"]}}),
            ("2planes", (2, nx, ny), {"z": [0.0, 1.0]}),
            ("4planes", (4, nx, ny), {"z": [0.0, 1.0, 2.0, 3.5]})):
        n = int(np.prod(shape))
        v = 0.7 + 0.3 * np.arange(n, dtype=float).reshape(shape) + \
            0.011 * (np.arange(n).reshape(shape) % 7)
        try:
            im = data_grid(v, spacing=0.1, medium_index=1.33, name="multi",
                           **kw)
        except Exception:
            continue
        what = "normalize(%s image %r)" % (tag, shape)
        snap = _Snap(im)
        n1 = _t(what, normalize, im)
        ck.trans += 1
        a1 = np.asarray(n1.values, dtype=float)
        e = abs(_fmean(a1) - 1.0) / EPS / _cond(v)
        ck.metric("normalize-mean-ulp-per-cond", e)
        ck.true("normalize-mean-one",
                a1.shape == np.asarray(im.values).shape and
                e <= TOLERANCES["normalize-mean-ulp-per-cond"],
                "%s: mean = %r" % (what, _fmean(a1)))
        n2 = _t(what + " twice", normalize, n1)
        ck.trans += 1
        e = float(np.abs(np.asarray(n2.values) - a1).max() /
                  np.abs(a1).max() / EPS / _cond(v))
        ck.true("normalize-idempotent",
                e <= TOLERANCES["normalize-idempotent-ulp-per-cond"],
                "%s: not idempotent (%.3g ulp/cond)" % (what, e))
        _meta(ck, "normalize", n1, snap, what, coords=tuple(
            c for c in ("x", "y", "z") if c in im.coords))
        acc.append(np.round(a1.ravel()[:16], 9))
    return digest(*acc)


# --------------------------------------------------------------------------
# bg_correct
# --------------------------------------------------------------------------
def _dark(kind, nx, ny):
    i, j = np.mgrid[0:nx, 0:ny].astype(float)
    if kind == "none":
        return None
    if kind == "const":
        return np.full((nx, ny), 0.25)
    if kind == "ramp":
        return 0.1 + 0.01 * (i * ny + j)
    raise KeyError(kind)


def _run_bg(case, ck):
    from holopy.core.process import bg_correct
    from holopy.core.metadata import update_metadata
    nx, ny = case["nx"], case["ny"]
    acc = []
    for meta in META:
        bgv = _vals("bg", nx, ny)
        for dk in ("none", "const", "ramp"):
            dv = _dark(dk, nx, ny)
            den = bgv - (0.0 if dv is None else dv)
            assert (den > 0).all()
            for kind in ("ramp", "mixed", "ints", "self"):
                rv = bgv if kind == "self" else _vals(kind, nx, ny)
                if kind == "ints" and dv is not None:
                    continue
                what = "bg_correct(raw=%s, bg, dark=%s, %dx%d, %s)" % (
                    kind, dk, nx, ny, meta)
                raw = _mk(rv, meta)
                bg = update_metadata(_mk(bgv, meta, name="bg"),
                                     noise_sd=0.07)
                df = None if dv is None else _mk(dv, meta, name="dark")
                snap = _Snap(raw)
                if df is None:
                    out = _t(what, bg_correct, raw, bg)
                else:
                    out = _t(what, bg_correct, raw, bg, df)
                ck.trans += 1
                allow = None
                if snap.attrs.get("noise_sd") is None:
                    # documented: a missing noise_sd is taken from bg
                    allow = {"noise_sd": [bg.attrs.get("noise_sd"), None]}
                _meta(ck, "bg", out, snap, what, allow=allow)
                _input_meta(ck, "bg", raw, snap, what)
                o = np.asarray(out.values, dtype=float)
                if not ck.true("bg-shape", o.shape == (1, nx, ny),
                               "%s: shape %r" % (what, o.shape)):
                    continue
                num = np.asarray(rv, dtype=float) - (0.0 if dv is None
                                                     else dv)
                ref = num / den
                e = float(np.abs(o[0] - ref).max() / np.abs(ref).max())
                ck.metric("bg-formula", e)
                ck.true("bg-formula", e <= TOLERANCES["bg-formula"],
                        "%s: differs from (raw-dark)/(bg-dark) by %.3g"
                        % (what, e))
                if kind == "self":
                    ck.metric("bg-self-division",
                              float(np.abs(o - 1.0).max()))
                    ck.true("bg-self-division", bool((o == 1.0).all()),
                            "%s: image divided by itself is not exactly 1 "
                            "(max |out-1| = %.3g)" %
                            (what, np.abs(o - 1.0).max()))
                acc.append(np.round(o, 9))
    return digest(*acc)


def _run_bgcounts(case, ck):
    """raw camera counts (unsigned integers): the formula holds as for real
    numbers, also where the raw frame is darker than the dark frame"""
    from holopy.core.process import bg_correct
    nx, ny = case["nx"], case["ny"]
    i, j = np.mgrid[0:nx, 0:ny]
    acc = []
    for dt in ("uint8", "uint16", "int16", "int16-wide", "int8-wide",
               # frames of different types (an averaged raw frame with raw
               # counts as background and dark frame, ...)
               "mixed:float64,uint16,uint16", "mixed:float32,uint8,uint8",
               "mixed:uint16,float64,uint16", "mixed:uint8,uint8,float64",
               "mixed:float64,uint8,int16"):
        if dt.startswith("mixed:"):
            t_raw, t_bg, t_dk = dt[6:].split(",")
        else:
            t_raw = t_bg = t_dk = dt.split("-")[0]
        rawv = (10 + (7 * i + 3 * j) % 23).astype(t_raw)
        bgv = (100 + (5 * i + j) % 50).astype(t_bg)
        dkv = (12 + (i + 2 * j) % 9).astype(t_dk)
        if dt == "int16-wide":
            # signed counts whose differences do not fit the type
            rawv = (rawv * 600).astype("int16")            # 6000..19200
            bgv = (bgv * 250).astype("int16")              # 25000..29750
            dkv = (-dkv * 300).astype("int16")             # -6000..-3600
        if dt == "int8-wide":
            rawv = (rawv * 3).astype("int8")               # 30..96
            bgv = (bgv - 30).astype("int8")                # 70..119
            dkv = (-dkv * 2).astype("int8")                # -40..-24
        # one interior pixel where the background frame is darker than the
        # dark frame (read noise): a negative, not a dead, denominator
        dkv[nx // 2, ny // 2] = bgv[nx // 2, ny // 2] + 25
        # ... and a corner where the background frame reads exactly 0 while
        # the dark frame does not: dark-subtracted it is not a dead pixel
        bg_all = bgv
        for dark in (True, False):
            what = "bg_correct(%s counts, dark=%s, %dx%d)" % (dt, dark, nx,
                                                              ny)
            bgv = bg_all.copy()
            if dark and not dt.endswith("-wide"):
                bgv[0, 0] = 0
            raw, bg, df = _mk(rawv), _mk(bgv, name="bg"), _mk(dkv,
                                                            name="dark")
            out = _t(what, bg_correct, raw, bg, df) if dark else \
                _t(what, bg_correct, raw, bg)
            ck.trans += 1
            o = np.asarray(out.values, dtype=float)
            d = dkv.astype(float) if dark else 0.0
            ref = (rawv.astype(float) - d) / (bgv.astype(float) - d)
            if not ck.true("bg-shape", o.shape == (1, nx, ny),
                           "%s: shape %r" % (what, o.shape)):
                continue
            e = float(np.abs(o[0] - ref).max() / np.abs(ref).max())
            ck.metric("bg-formula", e)
            ck.true("bg-formula", e <= TOLERANCES["bg-formula"],
                    "%s: differs from (raw-dark)/(bg-dark) by %.3g (e.g. "
                    "%r instead of %r)" %
                    (what, e, float(o[0].ravel()[int(np.argmax(np.abs(
                        o[0] - ref)))]), float(ref.ravel()[int(np.argmax(
                            np.abs(o[0] - ref)))])))
            acc.append(np.round(o, 9))
    return digest(*acc)


def _run_bgrefuse(case, ck):
    """mismatched shapes / spacings: whatever bg_correct does, it must not
    return something else than the formula; refusals are counted."""
    from holopy.core.process import bg_correct
    from holopy.core.errors import BadImage
    from holopy.core.metadata import data_grid
    raw = _mk(_vals("ramp", 4, 5))
    seen = []
    for label, bg in (
            ("shape", _mk(_vals("bg", 5, 4))),
            ("shape-smaller", _mk(_vals("bg", 3, 5))),
            ("spacing", data_grid(_vals("bg", 4, 5), spacing=0.2)),
            ("spacing-y", data_grid(_vals("bg", 4, 5), spacing=(0.1, 0.2)))):
        try:
            out = bg_correct(raw, bg)
            ck.trans += 1
            seen.append((label, "accepted"))
            # accepted: then it has to be the pixelwise formula
            ref = _vals("ramp", 4, 5) / np.asarray(bg.values[0])
            ok = (np.shape(out.values) == (1, 4, 5) and
                  np.abs(out.values[0] - ref).max() <= 1e-13 *
                  np.abs(ref).max())
            ck.true("bg-formula", ok, "bg_correct with mismatched %s was "
                    "accepted and is not raw/bg pixelwise" % label)
        except BadImage:
            ck.trans += 1
            seen.append((label, "refused"))
        except Exception as e:       # some other explicit error of xarray
            ck.trans += 1
            seen.append((label, "refused:" + type(e).__name__))
    return digest(seen), ("refused" if all(s[1].startswith("refused")
                                           for s in seen) else "ok")


# --------------------------------------------------------------------------
# subimage
# --------------------------------------------------------------------------
def _windows(n):
    """every (centre, even size) whose window [c-s/2, c+s/2) lies in [0,n)"""
    for s in range(2, n + 1, 2):
        for c in range(s // 2, n - s // 2 + 1):
            yield c, s


def _check_crop(ck, sub, im, snap, lo, sizes, what, three_d):
    import xarray as xr
    nd = 3 if three_d else 2
    if not ck.true("subimage-returns-image", isinstance(sub, xr.DataArray),
                   "%s: result is %s" % (what, type(sub).__name__)):
        return None
    ck.true("subimage-name-kept", sub.name == snap.name,
            "%s: name %r became %r" % (what, snap.name, sub.name))
    bad = _attrs_diff(sub.attrs, snap.attrs)
    ck.true("subimage-attrs-kept", not bad,
            "%s: attrs differ: %r" % (what, bad))
    ck.true("subimage-dims-kept", tuple(sub.dims) == snap.dims,
            "%s: dims %r became %r" % (what, snap.dims, tuple(sub.dims)))
    if sub.ndim != nd:
        ck.true("subimage-dims-kept", False, "%s: ndim %d" % (what, sub.ndim))
        return None
    if "z" in snap.coords:
        ck.true("subimage-coords", "z" in sub.coords and bits_equal(
            np.asarray(sub.coords["z"].values), snap.coords["z"]),
            "%s: z coordinate changed" % what)
    vals = np.asarray(sub.values)
    orig = np.asarray(im.values)
    if three_d:
        vals, orig = vals[0], orig[0]
    xs = np.asarray(sub.x.values)
    ys = np.asarray(sub.y.values)
    # requested window
    want = (sizes[0], sizes[1])
    ck.true("subimage-window-shape", vals.shape == want,
            "%s: shape %r, requested %r" % (what, vals.shape, want))
    ox, oy = snap.coords["x"], snap.coords["y"]
    wx = ox[lo[0]:lo[0] + sizes[0]]
    wy = oy[lo[1]:lo[1] + sizes[1]]
    ck.true("subimage-window-position",
            bits_equal(xs, wx) and bits_equal(ys, wy),
            "%s: window covers x=%r y=%r, requested x=%r y=%r" %
            (what, xs.tolist(), ys.tolist(), wx.tolist(), wy.tolist()))
    # each retained pixel: find it in the original through its PHYSICAL
    # coordinates (bit-identical), compare the value bit for bit
    okc = True
    okv = True
    ix = []
    for x in xs:
        w = np.nonzero(ox == x)[0]
        ix.append(int(w[0]) if w.size == 1 else -1)
    iy = []
    for y in ys:
        w = np.nonzero(oy == y)[0]
        iy.append(int(w[0]) if w.size == 1 else -1)
    if (not ix or not iy or min(ix + iy) < 0
            or vals.shape != (len(ix), len(iy))):
        okc = False                   # empty crop / unknown coordinates
    else:
        # contiguous, increasing block of the original
        okc = (ix == list(range(ix[0], ix[0] + len(ix))) and
               iy == list(range(iy[0], iy[0] + len(iy))))
        exp = orig[np.ix_(ix, iy)]
        okv = vals.dtype == orig.dtype and bits_equal(vals, exp)
    ck.metric("subimage-coords", 0.0 if okc else 1.0)
    ck.metric("subimage-values", 0.0 if okv else 1.0)
    ck.true("subimage-coords", okc,
            "%s: coordinates of retained pixels x=%r y=%r are not a block "
            "of the image's coordinates" % (what, xs.tolist(), ys.tolist()))
    ck.true("subimage-values", okv,
            "%s: a retained pixel's value differs from the image's value at "
            "the same physical coordinates" % what)
    return vals


def _run_subimage(case, ck):
    from holopy.core.process import subimage
    nx, ny = case["nx"], case["ny"]
    acc = []
    n_ref = 0
    n_acc = 0
    for kind in ("ramp", "ints"):
        v = _vals(kind, nx, ny)
        for meta in META + ["M2"]:
            im3 = _mk(v, meta)
            im2 = im3.isel(z=0)
            s3, s2 = _Snap(im3), _Snap(im2)
            # form A: (z,x,y) image, (cx, cy) pixel centre, one even size
            for s in range(2, min(nx, ny) + 1, 2):
                for cx in range(s // 2, nx - s // 2 + 1):
                    for cy in range(s // 2, ny - s // 2 + 1):
                        for (dx, dy) in ((0, 0), (0.3, -0.4), (-0.2, 0.45)):
                            if (dx, dy) != (0, 0) and kind == "ints":
                                continue
                            cen = (cx + dx, cy + dy)
                            what = "subimage(%s %dx%d %s, %r, %d)" % (
                                kind, nx, ny, meta, cen, s)
                            sub = _t(what, subimage, im3, cen, s)
                            ck.trans += 1
                            n_acc += 1
                            r = _check_crop(ck, sub, im3, s3,
                                            (cx - s // 2, cy - s // 2),
                                            (s, s), what, True)
                            if r is not None and (dx, dy) == (0, 0):
                                acc.append(r)
            _input_meta(ck, "subimage", im3, s3, "subimage(%s %dx%d %s)" %
                        (kind, nx, ny, meta))
            # form B: 2-D (x,y) array, (cx, cy), (size_x, size_y)
            for cx, sx in _windows(nx):
                for cy, sy in _windows(ny):
                    what = "subimage(2-D %s %dx%d %s, (%d, %d), (%d, %d))" % (
                        kind, nx, ny, meta, cx, cy, sx, sy)
                    sub = _t(what, subimage, im2, (cx, cy), (sx, sy))
                    ck.trans += 1
                    n_acc += 1
                    r = _check_crop(ck, sub, im2, s2,
                                    (cx - sx // 2, cy - sy // 2), (sx, sy),
                                    what, False)
                    if r is not None:
                        acc.append(r)
            _input_meta(ck, "subimage", im2, s2, "subimage(2-D %s %dx%d %s)"
                        % (kind, nx, ny, meta))
            # form C: (z,x,y) image with (size_x, size_y): accepted -> must
            # be right; refused by subimage's own assertion -> counted
            if kind == "ramp" and meta == "M0":
                for cx, sx in _windows(nx):
                    for cy, sy in _windows(ny):
                        what = ("subimage(%s %dx%d %s, (%d, %d), (%d, %d))"
                                % (kind, nx, ny, meta, cx, cy, sx, sy))
                        try:
                            sub = subimage(im3, (cx, cy), (sx, sy))
                        except AssertionError:
                            ck.trans += 1
                            n_ref += 1
                            continue
                        ck.trans += 1
                        n_acc += 1
                        _check_crop(ck, sub, im3, s3,
                                    (cx - sx // 2, cy - sy // 2), (sx, sy),
                                    what, True)
    ck.metric("subimage-crops-accepted", n_acc)
    ck.metric("subimage-crops-refused", n_ref)
    return digest(*acc, n_ref)


# --------------------------------------------------------------------------
# zero_filter
# --------------------------------------------------------------------------
def _expected_zero(v, dead, nx, ny):
    """reference: None when a corner is dead (BadImage expected), else the
    filtered array; dead = list of isolated (i, j)."""
    corners = {(0, 0), (0, ny - 1), (nx - 1, 0), (nx - 1, ny - 1)}
    if any(d in corners for d in dead):
        return None
    exp = np.array(v, dtype=float)
    for (i, j) in dead:
        on_x_edge = i in (0, nx - 1)
        on_y_edge = j in (0, ny - 1)
        if on_x_edge:                 # edge runs along y
            exp[i, j] = (v[i, j - 1] + v[i, j + 1]) / 2.0
        elif on_y_edge:               # edge runs along x
            exp[i, j] = (v[i - 1, j] + v[i + 1, j]) / 2.0
        else:
            exp[i, j] = (v[i - 1, j] + v[i + 1, j] + v[i, j - 1]
                         + v[i, j + 1]) / 4.0
    return exp


def _zero_once(ck, v, dead, meta, what):
    from holopy.core.process import zero_filter
    from holopy.core.errors import BadImage
    nx, ny = v.shape
    is_int = np.asarray(v).dtype.kind in "iu"
    z = np.array(v) if is_int else np.array(v, dtype=float)
    for d in dead:
        z[d] = 0
    im = _mk(z, meta)
    snap = _Snap(im)
    exp = _expected_zero(v, dead, nx, ny)
    try:
        out = _t(what, zero_filter, im, passthrough=(BadImage,))
        ck.trans += 1
    except BadImage:
        ck.trans += 1
        ck.true("zero-filter-corner-refused", exp is None,
                "%s: BadImage raised although no corner pixel is dead" % what)
        _input_meta(ck, "zero-filter", im, snap, what)
        return "BadImage"
    if exp is None:
        ck.true("zero-filter-corner-refused", False,
                "%s: a dead corner was accepted (no BadImage); corner values "
                "returned: %r" % (what, [float(np.asarray(out.values)[
                    0, a, b]) for a in (0, -1) for b in (0, -1)]))
        return "accepted-corner"
    _meta(ck, "zero-filter", out, snap, what)
    _input_meta(ck, "zero-filter", im, snap, what)
    o = np.asarray(out.values)
    # (for integer camera frames the mean of the neighbours is in general
    # not an integer: the values are asserted, not the dtype)
    if not ck.true("zero-filter-shape", o.shape == (1, nx, ny) and
                   (is_int or o.dtype == z.dtype), "%s: shape %r dtype %s" %
                   (what, o.shape, o.dtype)):
        return "shape"
    o = o[0]
    live = np.ones((nx, ny), bool)
    for d in dead:
        live[d] = False
    same = bool(np.array_equal(o[live], z[live])) if is_int else \
        bits_equal(o[live], z[live])
    ck.metric("zero-filter-live-pixels", 0.0 if same else
              float(np.abs(o[live] - z[live]).max()))
    ck.true("zero-filter-live-pixels", same,
            "%s: a positive pixel was changed (max change %.3g)" %
            (what, np.abs(o[live] - z[live]).max()))
    for d in dead:
        e = abs(o[d] - exp[d]) / abs(exp[d])
        ck.metric("zero-filter-interpolated", e)
        where = ("interior" if 0 < d[0] < nx - 1 and 0 < d[1] < ny - 1
                 else "edge")
        ck.true("zero-filter-%s-mean" % where,
                e <= TOLERANCES["zero-filter-interpolated"],
                "%s: dead %s pixel %r became %r, mean of its neighbours is "
                "%r" % (what, where, d, float(o[d]), float(exp[d])))
    return np.round(o, 9)


def _run_zero1(case, ck):
    nx, ny = case["nx"], case["ny"]
    acc = []
    for kind in ("ramp", "bumpy", "ints", "ints8", "ramp-tiny", "ramp-huge",
                 "ramp-dim"):
        v = _vals("ints" if kind == "ints8" else kind.split("-")[0], nx, ny)
        if kind == "ints8":
            v = v.astype(np.uint8)
        elif kind == "ramp-tiny":       # intensities in very small units
            v = v * 2.0 ** -40
        elif kind == "ramp-huge":
            v = v * 2.0 ** 40
        elif kind == "ramp-dim":        # one live pixel is very dim
            v = np.array(v, dtype=float)
            v[nx // 2, (ny - 1) // 2] = 3e-9
        assert (v > 0).all()
        for meta in META:
            if kind != "ramp" and meta == "M1":
                continue
            if "-" in kind and meta != META[0]:
                continue
            acc.append(_zero_once(ck, v, [], meta, "zero_filter(%s %dx%d %s,"
                                  " no dead pixel)" % (kind, nx, ny, meta)))
            for i in range(nx):
                for j in range(ny):
                    what = "zero_filter(%s %dx%d %s, dead=(%d,%d))" % (
                        kind, nx, ny, meta, i, j)
                    acc.append(_zero_once(ck, v, [(i, j)], meta, what))
    return digest(*acc)


def _partners(p, nx=5, ny=6):
    """positions q > p that are not 4-adjacent to p (unordered pairs once)"""
    a = divmod(p, ny)
    out = []
    for q in range(p + 1, nx * ny):
        b = divmod(q, ny)
        if abs(a[0] - b[0]) + abs(a[1] - b[1]) > 1:
            out.append(b)
    return out


def _run_zero2(case, ck):
    nx, ny = 5, 6
    p = case["p"]
    a = divmod(p, ny)
    acc = []
    npairs = 0
    for kind in ("ramp", "bumpy"):
        v = _vals(kind, nx, ny)
        for b in _partners(p):
            what = "zero_filter(%s 5x6, dead=%r,%r)" % (kind, a, b)
            acc.append(_zero_once(ck, v, [a, b], "M0", what))
            npairs += 1
    ck.metric("zero-filter-pairs", npairs)
    return digest(*acc)


# --------------------------------------------------------------------------
# detrend
# --------------------------------------------------------------------------
def _run_detrend(case, ck):
    from holopy.core.process import detrend
    nx, ny = case["nx"], case["ny"]
    i, j = np.mgrid[0:nx, 0:ny].astype(float)
    acc = []
    for kind in ("ramp", "mixed", "const", "bumpy"):
        v = _vals(kind, nx, ny)
        for meta in META:
            if meta == "M1" and kind in ("const", "bumpy"):
                continue
            im0 = _mk(v, meta)
            snap0 = _Snap(im0)
            what0 = "detrend(%s %dx%d %s)" % (kind, nx, ny, meta)
            d0 = _t(what0, detrend, im0)
            ck.trans += 1
            _meta(ck, "detrend", d0, snap0, what0)
            _input_meta(ck, "detrend", im0, snap0, what0)
            a0 = np.asarray(d0.values, dtype=float)
            if not ck.true("detrend-shape", a0.shape == (1, nx, ny),
                           "%s: shape %r" % (what0, a0.shape)):
                continue
            acc.append(np.round(a0, 7))
            if kind == "mixed":
                # vacuity guard: "removes any added plane" is trivially true
                # of a detrend that annihilates every image; the strongly
                # non-planar image must survive (observed ratio >= 0.69)
                rr = float(np.abs(a0).max() / np.abs(v - v.mean()).max())
                ck.metric("detrend-signal-kept-deficit", 1.0 - rr)
                ck.true("detrend-nondegenerate",
                        rr >= TOLERANCES["detrend-signal-kept-min"],
                        "%s: a non-planar image was flattened to %.3g of "
                        "its variation" % (what0, rr))
            for (a, b, c) in itertools.product(PLANE, repeat=3):
                plane = a + b * i + c * j
                what = "detrend(%s %dx%d %s + plane %g%+g*i%+g*j)" % (
                    kind, nx, ny, meta, a, b, c)
                im = _mk(v + plane, meta)
                snap = _Snap(im)
                d = _t(what, detrend, im)
                ck.trans += 1
                _meta(ck, "detrend", d, snap, what)
                arr = np.asarray(d.values, dtype=float)
                scale = max(np.abs(plane).max(), np.abs(v).max())
                e = float(np.abs(arr - a0).max() / scale)
                ck.metric("detrend-plane-removed", e)
                ck.true("detrend-plane-removed",
                        arr.shape == a0.shape and
                        e <= TOLERANCES["detrend-plane-removed"],
                        "%s: differs from detrend(image) by %.3g of the "
                        "plane's size" % (what, e))
    return digest(*acc)


# --------------------------------------------------------------------------
# Accumulator
# --------------------------------------------------------------------------
def _acc_images(nx=4, ny=5):
    i, j = np.mgrid[0:nx, 0:ny].astype(float)
    return [
        _vals("ramp", nx, ny),
        _vals("mixed", nx, ny),
        _vals("const", nx, ny),
        1e3 + 37.0 * _vals("bumpy", nx, ny),
        (0.3 * i - 0.7 * j) ** 2 + 0.01,
    ]


def _acc_sequence(ck, arrs, order, what, as_image=True, running=False):
    from holopy.core.io.io import Accumulator
    acc = Accumulator()
    ims = []
    snaps = []
    for npush, k in enumerate(order, 1):
        x = _mk(arrs[k], "M0") if as_image else np.array(arrs[k])
        ims.append(x)
        if as_image:
            snaps.append(_Snap(x))
        _t(what, acc.push, x)
        ck.trans += 1
        if running and npush < len(order):
            # the running values after every push are the batch values of
            # the prefix (and asking for them does not disturb the state)
            pre = np.array([arrs[q] for q in order[:npush]], dtype=float)
            pm = np.asarray(getattr(acc.mean(), "values", acc.mean()),
                            dtype=float)
            ps = np.asarray(getattr(acc.std(), "values", acc.std()),
                            dtype=float)
            ck.trans += 2
            sc = float(np.abs(pre).max())
            if pm.size == pre[0].size and ps.size == pre[0].size:
                e = float(np.abs(pm.reshape(pre[0].shape) -
                                 pre.mean(axis=0)).max() / sc)
                ck.metric("accumulator-mean", e)
                ck.true("accumulator-running-mean",
                        e <= TOLERANCES["accumulator-mean"],
                        "%s: after %d pushes the mean differs from the "
                        "batch mean of the prefix by %.3g" % (what, npush, e))
                e = float(np.abs(ps.reshape(pre[0].shape) -
                                 pre.std(axis=0)).max() / sc)
                ck.metric("accumulator-std", e)
                ck.true("accumulator-running-std",
                        e <= TOLERANCES["accumulator-std"],
                        "%s: after %d pushes the std differs from the "
                        "batch std of the prefix by %.3g" % (what, npush, e))
    _t(what, acc.std)
    _t(what, acc.mean)                # a repeated query changes nothing
    m, s = _t(what, acc.mean), _t(what, acc.std)
    ck.trans += 4
    stack = np.array([arrs[k] for k in order], dtype=float)
    rm = stack.mean(axis=0)
    rs = stack.std(axis=0)           # population value (ddof=0)
    scale = float(np.abs(stack).max())
    mv = np.asarray(getattr(m, "values", m), dtype=float)
    sv = np.asarray(getattr(s, "values", s), dtype=float)
    want = (1,) + rm.shape if as_image else rm.shape
    if not ck.true("accumulator-shape", mv.shape == want and
                   sv.shape == want, "%s: mean/std shapes %r %r" %
                   (what, mv.shape, sv.shape)):
        return None
    mv2 = mv.reshape(rm.shape)
    sv2 = sv.reshape(rm.shape)
    e = float(np.abs(mv2 - rm).max() / scale)
    ck.metric("accumulator-mean", e)
    ck.true("accumulator-mean", e <= TOLERANCES["accumulator-mean"],
            "%s: mean differs from numpy batch mean by %.3g (relative to "
            "max|x|)" % (what, e))
    e = float(np.abs(sv2 - rs).max() / scale)
    ck.metric("accumulator-std", e)
    ck.true("accumulator-std", e <= TOLERANCES["accumulator-std"],
            "%s: std differs from numpy batch std (ddof=0) by %.3g "
            "(relative to max|x|)" % (what, e))
    if as_image:
        # all pushed images share name/attrs/coords: mean and std keep them
        _meta(ck, "accumulator", m, snaps[0], what + " mean")
        _meta(ck, "accumulator", s, snaps[0], what + " std")
        for x, sn in zip(ims, snaps):
            _input_meta(ck, "accumulator", x, sn, what)
    return mv2, sv2


def _run_acc(case, ck):
    arrs = _acc_images()
    members = case["members"]
    acc = []
    first = None
    for order in itertools.permutations(members):
        what = "Accumulator pushes %r" % (list(order),)
        # (second pass with the running values queried after every push)
        _acc_sequence(ck, arrs, order, what + " (queried after every push)",
                      True, running=True)
        r = _acc_sequence(ck, arrs, order, what, True)
        if r is None:
            continue
        if first is None:
            first = r
            acc += [np.round(r[0], 8), np.round(r[1], 8)]
        else:
            scale = float(max(np.abs(arrs[k]).max() for k in members))
            e = max(float(np.abs(r[0] - first[0]).max()),
                    float(np.abs(r[1] - first[1]).max())) / scale
            ck.metric("accumulator-order", e)
            ck.true("accumulator-order-independent",
                    e <= 2 * TOLERANCES["accumulator-mean"],
                    "%s: result differs from order %r by %.3g" %
                    (what, list(members), e))
        _acc_sequence(ck, arrs, order, what + " (ndarray)", False)
    return digest(*acc)


def _run_accrep(case, ck):
    """repeated images and a single push."""
    arrs = _acc_images()
    acc = []
    for order in ([0], [3], [0, 0], [3, 3, 3], [0, 1, 0], [1, 0, 0],
                  [0, 0, 1], [2, 2, 2, 2], [3, 4, 3, 4]):
        what = "Accumulator pushes %r" % (order,)
        r = _acc_sequence(ck, arrs, order, what, True)
        if r is not None:
            acc += [np.round(r[0], 8), np.round(r[1], 8)]
            if len(set(order)) == 1:
                ck.true("accumulator-std", bool((r[1] == 0).all()),
                        "%s: std of identical images is not 0 (max %.3g)"
                        % (what, np.abs(r[1]).max()))
    return digest(*acc)


def _run_accdtype(case, ck):
    """frames of different floating-point width (a float32 camera frame
    among float64 ones): every value is exactly representable, so the batch
    mean / std are those of the numbers, whichever frame comes first"""
    from holopy.core.io.io import Accumulator
    nx, ny = 4, 5
    i, j = np.mgrid[0:nx, 0:ny]
    frames = [(3.0 + 7 * i + j).astype("float32"),
              1000.25 + 37.0 * ((i * j) % 5), 0.125 * (i - 2 * j) ** 2 + 30]
    stack = np.array([np.asarray(f_, dtype=float) for f_ in frames])
    rm, rs = stack.mean(axis=0), stack.std(axis=0)
    scale = float(np.abs(stack).max())
    acc_fp = []
    for order in itertools.permutations(range(3)):
        for as_image in (False, True):
            acc = Accumulator()
            what = "Accumulator pushes %r (frame 0 is float32, %s)" % (
                order, "images" if as_image else "ndarrays")
            for k in order:
                x = _mk(frames[k], "M0") if as_image else frames[k].copy()
                if as_image and frames[k].dtype == np.float32:
                    x = x.astype("float32")
                _t(what, acc.push, x)
                ck.trans += 1
            m, sd = _t(what, acc.mean), _t(what, acc.std)
            mv = np.asarray(getattr(m, "values", m), dtype=float).reshape(
                rm.shape)
            sv = np.asarray(getattr(sd, "values", sd), dtype=float).reshape(
                rm.shape)
            e = float(np.abs(mv - rm).max() / scale)
            ck.metric("accumulator-mean", e)
            ck.true("accumulator-mean", e <= TOLERANCES["accumulator-mean"],
                    "%s: mean differs from the batch mean by %.3g" %
                    (what, e))
            e = float(np.abs(sv - rs).max() / scale)
            ck.metric("accumulator-std", e)
            ck.true("accumulator-std", e <= TOLERANCES["accumulator-std"],
                    "%s: std differs from the batch std by %.3g" % (what, e))
            acc_fp.append(np.round(mv, 8))
    return digest(*acc_fp)


# --------------------------------------------------------------------------
# centre finder
# --------------------------------------------------------------------------
def _holo(N, rnz, centre_phys, spacing=SPACING, origin=(0.0, 0.0)):
    from holopy.core.metadata import detector_grid
    from holopy.scattering import calc_holo, Sphere, Mie
    r, n, z = rnz
    det = detector_grid(N if np.isscalar(N) else list(N), spacing)
    if tuple(origin) != (0.0, 0.0):
        det = det.assign_coords(x=det.x + origin[0], y=det.y + origin[1])
    sph = Sphere(n=n, r=r, center=(centre_phys[0], centre_phys[1], z))
    return calc_holo(det, sph, theory=Mie(), **OPTICS)


def _run_centre(case, ck):
    from holopy.core.process import center_find
    N = case["N"]
    rnz = RNZ[case["rnz"]]
    nx, ny = _nxy(N)
    off = OFFSETS[case["off"]]
    px = _lattice(nx)[case["i"]] + off[0]
    py = _lattice(ny)[case["j"]] + off[1]
    what = ("center_find(Mie hologram, detector %dx%d px, sphere r=%g n=%g "
            "z=%g at pixel (%.2f, %.2f))" % ((nx, ny) + tuple(rnz) +
                                            (px, py)))
    if case.get("spacing"):
        sx, sy = case["spacing"]
        what += " pixels %g x %g" % (sx, sy)
        holo = _holo(N, rnz, (px * sx, py * sy), spacing=(sx, sy))
    else:
        holo = _holo(N, rnz, (px * SPACING, py * SPACING))
    lay = case.get("layout")
    if lay in ("zyx", "yxz", "xyz"):
        holo = holo.transpose(*lay)
        what += " dims ordered %s" % (holo.dims,)
    elif lay:
        from holopy.core.metadata import detector_grid
        from holopy.scattering import calc_holo, Sphere, Mie
        r, n, z = rnz
        det = detector_grid(list(_nxy(N)), SPACING,
                            extra_dims={"illumination": ["red", "green"]})
        holo = calc_holo(det, Sphere(n=n, r=r, center=(px * SPACING,
                                                       py * SPACING, z)),
                         medium_index=1.33,
                         illum_wavelen={"red": 0.66, "green": 0.52},
                         illum_polarization=(1, 0), theory=Mie())
        if lay == "two-colour-last":
            holo = holo.transpose("z", "x", "y", "illumination")
        what += " two-colour, dims %s" % (holo.dims,)
    ck.trans += 1
    snap = _Snap(holo)
    c = np.asarray(_t(what, center_find, holo), dtype=float)
    ck.trans += 1
    _input_meta(ck, "centre", holo, snap, what)
    if not ck.true("centre-shape", c.shape == (2,) and
                   np.isfinite(c).all(), "%s: returned %r" % (what, c)):
        return digest(repr(c))
    ex, ey = c[0] - px, c[1] - py
    ck.metric("centre-error-px", max(abs(ex), abs(ey)))
    ck.metric("centre-error-euclid-px", math.hypot(ex, ey))
    ck.true("centre-within-one-pixel",
            max(abs(ex), abs(ey)) <= TOLERANCES["centre-error-px"],
            "%s: found (%.3f, %.3f), off by (%.3f, %.3f) px" %
            (what, c[0], c[1], ex, ey), obs=c.tolist(), exp=[px, py])
    return digest(np.round(c, 6))


def _run_priors(case, ck):
    from holopy.core.process import center_find
    from holopy.core.prior import make_center_priors
    N = case["N"]
    rnz = RNZ[case["rnz"]]
    sp = case["spacing"]
    origin = tuple(case["origin"])
    px, py = 0.5 * N + 3.33, 0.5 * N - 6.17
    truth = (origin[0] + px * sp, origin[1] + py * sp)
    what = ("make_center_priors(detector %d px, spacing %g, origin %r, "
            "sphere r=%g n=%g z=%g at pixel (%.2f, %.2f))" %
            ((N, sp, origin) + tuple(rnz) + (px, py)))
    holo = _holo(N, rnz, truth, spacing=sp, origin=origin)
    ck.trans += 1
    snap = _Snap(holo)
    c = np.asarray(_t(what, center_find, holo), dtype=float)
    acc = [np.round(c, 6)]
    for unc in (None, 2.5):
        pri = (_t(what, make_center_priors, holo) if unc is None else
               _t(what, make_center_priors, holo,
                  xy_uncertainty_pixels=unc))
        ck.trans += 1
        _input_meta(ck, "center-priors", holo, snap, what)
        if not ck.true("center-priors-shape", len(pri) == 3 and
                       all(hasattr(p, "mu") and hasattr(p, "sd")
                           for p in pri[:2]),
                       "%s: returned %r" % (what, pri)):
            continue
        mu = [float(pri[0].mu), float(pri[1].mu)]
        sd = [float(pri[0].sd), float(pri[1].sd)]
        x0 = float(holo.x.values[0])
        y0 = float(holo.y.values[0])
        ref = [c[0] * sp + x0, c[1] * sp + y0]
        scale = max(abs(ref[0]), abs(ref[1]), N * sp)
        e = max(abs(mu[0] - ref[0]), abs(mu[1] - ref[1])) / scale
        ck.metric("center-priors-relation", e)
        ck.true("center-priors-relation",
                e <= TOLERANCES["center-priors-relation"],
                "%s: prior means %r, centre_found*spacing+origin = %r" %
                (what, mu, ref))
        # hence within one pixel of the true physical centre
        epx = max(abs(mu[0] - truth[0]), abs(mu[1] - truth[1])) / sp
        ck.metric("centre-error-px", epx)
        ck.true("center-priors-within-one-pixel",
                epx <= TOLERANCES["centre-error-px"],
                "%s: prior means %r are %.3f px from the true centre %r" %
                (what, mu, epx, list(truth)))
        u = 1.0 if unc is None else unc
        e = max(abs(sd[0] - u * sp), abs(sd[1] - u * sp)) / (u * sp)
        ck.metric("center-priors-sd", e)
        ck.true("center-priors-sd", e <= 1e-9,
                "%s: prior widths %r, expected %g pixel(s) = %r" %
                (what, sd, u, u * sp))
        acc.append(np.round(mu, 7))
    return digest(*acc)


# --------------------------------------------------------------------------
# --------------------------------------------------------------------------
# histories
# --------------------------------------------------------------------------
HIST_TOOLS = ["bg", "bgdark", "normalize", "subimage", "zero", "detrend",
              "acc", "centre"]
# frames of one recording: the same shape and pixel size throughout; A starts
# at the origin, B and C are windows of a larger frame (other origin, other
# values), D holds integer counts, E has another pixel size
HIST_VARIANTS = ["A", "B", "C", "D", "E"]
_HIST = {}


def _hist_frames():
    if not _HIST:
        from holopy.core.metadata import data_grid
        nx, ny = 8, 10
        i, j = np.mgrid[0:nx, 0:ny].astype(float)
        kw = dict(medium_index=1.33, illum_wavelen=0.66,
                  illum_polarization=(1, 0))
        base = {"A": 2.0 + np.cos(1.3 * i + 0.4) * np.sin(0.9 * j + 0.2),
                "B": 3.0 + 0.1 * i - 0.05 * j + ((i + 2 * j) % 3) * 0.2,
                "C": 1.5 + 0.01 * i * j + ((3 * i + j) % 4) * 0.125,
                "D": (40 + 3 * i + j + ((i + j) % 3)).astype(np.int64),
                "E": 2.5 + 0.2 * np.sin(i) + 0.1 * j}
        org = {"A": (0.0, 0.0), "B": (0.5, 1.25), "C": (-2.0, 3.0),
               "D": (0.0, 0.0), "E": (0.0, 0.0)}
        for v in HIST_VARIANTS:
            sp = 0.125 if v != "E" else 0.25
            im = data_grid(base[v], spacing=sp, name="frame" + v, **kw)
            im = im.assign_coords(x=im.x + org[v][0], y=im.y + org[v][1])
            _HIST[v] = im
            bgv = 2.0 + 0.5 * ((i + 2 * j) % 3) + 0.01 * i
            bg = data_grid(bgv, spacing=sp, name="bg" + v, **kw)
            _HIST["bg" + v] = bg.assign_coords(x=im.x, y=im.y)
            dk = data_grid(0.1 + 0.01 * j, spacing=sp, name="dark" + v, **kw)
            _HIST["dark" + v] = dk.assign_coords(x=im.x, y=im.y)
        _HIST["accum"] = None
    return _HIST


def _hist_inputs_fp():
    F = _hist_frames()
    return digest(*[fp_xarray(F[k]) for k in sorted(F) if k != "accum"])


def _hist_op(name):
    import warnings
    warnings.simplefilter("ignore")
    from holopy.core.process import (bg_correct, normalize, subimage,
                                     zero_filter, detrend, center_find)
    from holopy.core.io.io import Accumulator
    F = _hist_frames()
    tool, v = name.split("@")
    im = F[v]
    if tool == "bg":
        r = bg_correct(im, F["bg" + v])
    elif tool == "bgdark":
        r = bg_correct(im, F["bg" + v], F["dark" + v])
    elif tool == "normalize":
        r = normalize(im)
    elif tool == "subimage":
        r = subimage(im, (4, 5), 4)
    elif tool == "zero":
        z = im.copy()
        z.values[0, 3, 4] = 0
        r = zero_filter(z)
    elif tool == "detrend":
        r = detrend(im)
    elif tool == "acc":
        a = Accumulator()
        a.push(im)
        a.push(F["bg" + v])
        m, sd = a.mean(), a.std()
        return digest(fp_xarray(m) if hasattr(m, "attrs") else repr(m),
                      fp_xarray(sd) if hasattr(sd, "attrs") else repr(sd))
    elif tool == "centre":
        return digest(np.asarray(center_find(im), dtype=float))
    else:
        raise KeyError(name)
    return fp_xarray(r)


def _run_hist(case, ck):
    return run_history(ck, case, _hist_op, _hist_inputs_fp, check="history")


def run_case(case):
    import warnings
    warnings.simplefilter("ignore")
    ck = Checker()
    kind = case["kind"]
    if kind == "hist":
        return ck.result(fp=_run_hist(case, ck))
    outcome = "ok"
    if kind == "bgrefuse":
        fp, outcome = _run_bgrefuse(case, ck)
        return ck.result(fp=fp, outcome=outcome)
    try:
        fp = {"normalize": _run_normalize, "bg": _run_bg,
              "bgcounts": _run_bgcounts,
              "subimage": _run_subimage, "zero1": _run_zero1,
              "zero2": _run_zero2, "detrend": _run_detrend,
              "acc": _run_acc, "accrep": _run_accrep,
              "accdtype": _run_accdtype,
              "centre": _run_centre, "priors": _run_priors}[kind](case, ck)
    except _ToolRaised as e:
        # an error on an input the property covers (refusals the property
        # allows -- BadImage for a dead corner, subimage's own assertion --
        # are handled where they are expected)
        tool = {"zero1": "zero-filter", "zero2": "zero-filter",
                "acc": "accumulator", "accrep": "accumulator",
                "accdtype": "accumulator",
                "priors": "center-priors"}.get(kind, kind)
        ck.true("%s-raised" % tool, False, str(e)[:600])
        fp = digest("raised", str(e)[:200])
        outcome = "raised"
    return ck.result(fp=fp, outcome=outcome)


def coverage_extra(cases, results):
    tier = cases[0]["tier"]
    kinds = {}
    for c in cases:
        kinds[c["kind"]] = kinds.get(c["kind"], 0) + 1
    crops = sum(int(r.get("metrics", {}).get("subimage-crops-accepted", 0))
                for r in results)
    refused = sum(int(r.get("metrics", {}).get("subimage-crops-refused", 0))
                  for r in results)
    pairs = sum(int(r.get("metrics", {}).get("zero-filter-pairs", 0))
                for r in results)
    return {
        "image_shapes": SHAPES[tier],
        "cases_per_tool": kinds,
        "normalize_scales": SCALES,
        "plane_coefficients": PLANE,
        "subimage_crops_accepted": crops,
        "subimage_crops_refused_by_assertion": refused,
        "zero_filter_pair_executions": pairs,
        "centre_finder": {"detectors": DETECTORS,
                          "nonsquare": NONSQUARE[:1] if tier == "quick"
                          else NONSQUARE, "rnz": RNZ,
                          "offsets_px": OFFSETS[:1] if tier == "quick"
                          else OFFSETS,
                          "lattice": "%dx%d over central 60%%" %
                                     (LATTICE_N, LATTICE_N)},
        "side_conditions": [
            "subimage: even sizes, window inside the image",
            "bg_correct: background - dark > 0",
            "normalize: non-zero mean",
            "zero_filter pairs: not 4-adjacent"],
    }

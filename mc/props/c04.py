"""C04 -- results depend only on dimensionless ratios (unit-agnostic).

Exhaustive product: scatterer x theory (13) x length scale (11, spanning 13
decades) x detector kind (grid / points) x quantity (hologram, field,
intensity, scattering matrix, cross sections), plus the medium
renormalisation (n, n_m, L) -> (n/n_m, 1, L/n_m).  Power-of-two factors must
reproduce every bit (scaling by 2^k commutes with floating-point rounding,
whatever the order of operations); decimal factors to 1e-9.
"""
import warnings
import math

import numpy as np

import hpcases as H
from lib import Checker, digest, fp_values

PROPERTY = "C04"
RULE = ("full product scatterer x theory x scale factor x detector kind; "
        "inside a case all quantities the theory supports; one extra case "
        "per scatterer x theory x medium index for the medium "
        "renormalisation; non-trivial = distinct fingerprint of the result")
ASSUMPTIONS = ["scaling by a power of two is exact in IEEE arithmetic (no "
               "under/overflow in the explored range)",
               "alphabet values only"]
TOLERANCES = {"pow2": "bit-identical (T-matrix: 1e-11, cube root of the "
              "volume)", "decimal": 1e-9, "medium": 1e-9,
              "cabs-absolute": "1e-10 Cext when the index is real"}
TIMEOUT = 600

H.ST["mie-2wl"] = H.ST["mie"]          # two wavelengths given as a list
H.ST["auto-ms2"] = (H.ST["ms2"][0], "auto")
H.ST["tm-spheroid-abs"] = (("spheroid", 1.59 + 0.05j, (0.3, 0.6),
                            (0.0, 0.4, 0.7), H.C0), ("Tmatrix", (), {}))
H.ST["tm-cylinder-abs"] = (("cylinder", 1.5 + 0.1j, 0.8, 0.6,
                            (0.0, 0.4, 0.7), H.C0), ("Tmatrix", (), {}))
# two spheres that touch exactly (centre distance = sum of the radii)
H.ST["ms2-touch"] = (("spheres", [(1.59, 0.5, (2.0, 2.0, 10.0)),
                                  (1.59, 0.5, (2.0, 2.0, 11.0))]),
                     ("Multisphere", (), {}))
H.ST["auto-far"] = (("spheres", [(1.59, 0.5, (0.2, 0.1, 5.0)),
                                 (1.45, 0.3, (20.0, 4.0, 7.0))]), "auto")
# particles tens to hundreds of wavelengths from the detector plane (the
# reference wave's phase exp(-ikz) wraps many times there)
H.ST["mie-z61"] = (("sphere", 1.59, 0.5, (0.3, -0.2, 61.3)), ("Mie", (), {}))
H.ST["mie-z401"] = (("sphere", 1.59, 0.5, (0.3, -0.2, 400.9)),
                    ("Mie", (), {}))
STS = {"quick": ["mie-z61", "mie-z401", "mie", "layered", "ms2", "tm-spheroid", "tm-cylinder",
                 "mielens", "abmielens", "lens-mie", "mie2", "auto-ms2",
                 "auto-far", "tm-spheroid-abs", "mie-2wl", "ms2-touch"],
       "thorough": ["mie-z61", "mie-z401", "mie", "mie-far", "mie-abs", "layered", "mie2", "ms1",
                    "ms2", "tm-sphere", "tm-spheroid", "tm-cylinder",
                    "mielens", "abmielens", "mielens2", "lens-mie",
                    "auto-ms2", "auto-far", "auto", "tm-spheroid-abs",
                    "tm-cylinder-abs", "mie-2wl", "ms2-touch"]}
SCALES = {"quick": [2.0 ** -13, 2.0 ** 7, 1e-3, 1e4, 1e9, 0.3, 0.7],
          "thorough": [2.0 ** -13, 2.0 ** -7, 2.0 ** 7, 2.0 ** 13, 2.0 ** 30,
                       1e-6, 1e-4, 1e-3, 1e3, 1e4, 1e9]}
DETK = ["g4x5a", "p4z0", "p3"]        # p3: points off the z=0 plane
NMEDS = [1.33, 1.5, 1.0003]
POL = (0.6, -0.8)


def cases(tier, seed):
    out = []
    for st in STS[tier]:
        for s in SCALES[tier]:
            for dk in DETK:
                out.append({"id": "scale:%s:s=%r:%s" % (st, s, dk),
                            "kind": "scale", "st": st, "s": s, "det": dk,
                            "ms_xsec": (st, s) in MS_XSEC[tier] and
                            dk == DETK[0]})
        if st in ("mie", "mie2", "ms2", "tm-spheroid", "layered", "auto-ms2"):
            # all lengths written as whole numbers (e.g. nanometres) in
            # Python ints / integer arrays instead of floats
            out.append({"id": "intunits:%s" % st, "kind": "intunits",
                        "st": st, "ms_xsec": False})
        if st in ("mie", "tm-spheroid", "ms2", "layered"):
            out.append({"id": "directions-only:%s" % st, "kind": "dirs",
                        "st": st, "ms_xsec": False})
        if st in SCAN_STS:
            # one theory OBJECT serving a scan of nearly equal particles
            for sc in SCALES[tier] + SCAN_SCALES:
                out.append({"id": "scan:%s:s=%r" % (st, sc), "kind": "scan",
                            "st": st, "s": sc, "ms_xsec": False})
        if st in ("mie", "mielens", "ms2", "tm-spheroid", "lens-mie",
                  "layered", "ms1", "tm-sphere"):
            out.append({"id": "medium-loop:%s" % st, "kind": "medialoop",
                        "st": st, "ms_xsec": False, "loop": MEDIA_LOOP})
        for nm in NMEDS:
            out.append({"id": "medium:%s:n_m=%r" % (st, nm), "kind": "medium",
                        "st": st, "nm": nm, "ms_xsec":
                        (st, "medium%r" % nm) in MS_XSEC[tier]})
    return out


# units in which the particle's size is a small number (metres, kilometres):
# an absolute threshold in a comparison of two sizes shows there
MEDIA_LOOP = [(1.33, H.WL), (1.5, H.WL), (1.0003, H.WL), (1.5, H.WL),
              (1.33, H.WL), (1.33, H.WL * 0.8), (1.5, H.WL * 0.8),
              (1.33, H.WL)]
SCAN_SCALES = [2.0 ** -20, 1e-6, 2.0 ** -30, 1e-9]
SCAN_STS = ["mie", "mielens", "abmielens", "lens-mie", "tm-sphere", "ms1",
            "layered"]
# (radius factor, index increment, z increment in units of the radius):
# steps of 0.1 .. 4 percent, as in a scan or a fit
SCAN = [(1.0, 0.0, 0.0), (1.01, 0.0, 0.0), (1.024, 0.0, 0.0),
        (1.024, 0.0, 0.02), (1.024, 0.004, 0.02), (1.04, 0.004, 0.02),
        (1.001, 0.0, 0.0), (1.0, 0.0, 0.0)]


def _scan(st, scale):
    """holograms of the scan, all through ONE theory object"""
    from holopy.scattering import calc_holo, Sphere
    sspec, tspec = H.ST[st]
    theory = H.mk_theory(tspec)
    det = H.DETS["g4x5a"](scale)
    base = H.mk_scatterer(sspec, scale)
    if not isinstance(base, Sphere):
        base = base.scatterers[0]
    out = {}
    for i, (fr, dn, dz) in enumerate(SCAN):
        r = np.asarray(base.r) * fr
        c = np.asarray(base.center, dtype=float)
        c = (c[0], c[1], c[2] + dz * float(np.max(r)))
        sc = Sphere(n=np.asarray(base.n) + dn if np.ndim(base.n) else
                    base.n + dn, r=r if np.ndim(r) else float(r), center=c)
        if st == "ms1":
            from holopy.scattering import Spheres
            sc = Spheres([sc])
        try:
            out["step%d" % i] = np.ascontiguousarray(calc_holo(
                det, sc, medium_index=H.NMED, illum_wavelen=H.WL * scale,
                illum_polarization=_pol_for(st), theory=theory).values)
        except Exception as e:              # noqa
            out["step%d" % i] = ("exc", type(e).__name__)
    return out


def _pol_for(st):
    return (1, 0) if st.startswith("tm-") else POL


MS_XSEC = {"quick": {("ms2", 2.0 ** -13), ("ms2", "medium1.33")},
           "thorough": {("ms1", 2.0 ** -13), ("ms1", 1e3), ("ms2", 2.0 ** 7),
                        ("ms2", 1e-4), ("ms2", "medium1.5")}}


def _quantities(st, scale, detname, nmed=H.NMED, wl=H.WL, nscale=1.0,
                ms_xsec=False):
    """returns dict name -> ndarray (or ('exc', type name))"""
    from holopy.scattering import (calc_holo, calc_field, calc_intensity,
                                   calc_scat_matrix, calc_cross_sections)
    sspec, tspec = H.ST[st]
    scat = H.mk_scatterer(sspec, scale)
    if nscale != 1.0:
        scat = _renorm(scat, nscale)
    theory = H.mk_theory(tspec)
    det = H.DETS[detname](scale)
    pol = _pol_for(st)
    out = {}
    if st == "mie-2wl":
        wl = np.array([wl, wl * 0.52 / 0.66])
        wl = [float(w) for w in wl * scale]
        scale = 1.0
    kw = dict(medium_index=nmed, illum_wavelen=wl * scale if not
              isinstance(wl, list) else wl,
              illum_polarization=pol, theory=theory)
    for name, fn in (("holo", lambda: calc_holo(det, scat, **kw)),
                     ("field", lambda: calc_field(det, scat, **kw)),
                     ("intensity", lambda: calc_intensity(det, scat, **kw)),
                     ("scatmat", lambda: calc_scat_matrix(
                         det, scat, nmed, wl * scale, theory=theory)),
                     ("xsec", lambda: calc_cross_sections(
                         scat, nmed, wl * scale, pol, theory=theory))):
        if st == "mie-2wl" and name in ("scatmat", "xsec"):
            continue
        if name == "xsec" and st in ("ms1", "ms2", "auto-ms2") and \
                not ms_xsec:
            continue            # dblquad inside (~17 s): selected cases only
        try:
            out[name] = np.ascontiguousarray(fn().values)
        except Exception as e:          # unsupported quantity for theory
            out[name] = ("exc", type(e).__name__)
    return out


def _renorm(scat, nm):
    """divide every index of the scatterer by nm (through from_parameters)"""
    pars = scat.parameters
    new = {}
    for k, v in pars.items():
        if k == "n" or k.endswith(":n") or k.endswith(".n"):
            if isinstance(v, (list, tuple, np.ndarray)):
                new[k] = [x / nm for x in v]
            else:
                new[k] = v / nm
        else:
            new[k] = v
    return scat.from_parameters(new)


def _compare(ck, case_desc, base, got, pow2, s, tol):
    fps = []
    for name in base:
        b, g = base[name], got.get(name)
        if isinstance(b, tuple) or isinstance(g, tuple):
            ck.true("same-acceptance:" + name,
                    isinstance(b, tuple) and isinstance(g, tuple),
                    "%s: %s is %r at scale 1 but %r rescaled" %
                    (case_desc, name, b if isinstance(b, tuple) else "ok",
                     g if isinstance(g, tuple) else "ok"))
            continue
        ck.trans += 2
        if name == "xsec":
            b = b.copy()
            b[:3] = b[:3] * s * s
            # absorption of a non-absorbing particle: compare absolutely
            absol = abs(b[2])
            err = max(abs(g[0] - b[0]) / abs(b[0]),
                      abs(g[2] - b[2]) / abs(b[2]),
                      abs(g[1] - b[1]) / absol, abs(g[3] - b[3]))
            ck.metric("xsec", err)
            ck.true("scale-xsec", err <= (1e-12 if pow2 else tol),
                    "%s: cross sections do not scale with s^2 (err %.2e): "
                    "%r vs %r" % (case_desc, err, g.tolist(), b.tolist()))
            continue
        if pow2 and not case_desc.startswith("tm-"):
            ck.same_bits("scale-pow2:" + name, g, b, case_desc + " " + name)
        elif pow2:
            # the T-matrix front end takes a cube root of the particle
            # volume: (2^3k v)^(1/3) is 2^k v^(1/3) only to rounding, so
            # power-of-two scaling is exact to ~1 ulp, not bit for bit
            sc = float(np.max(np.abs(b))) or 1.0
            e = float(np.max(np.abs(g - b))) / sc if g.shape == b.shape \
                else float("inf")
            ck.metric("pow2-tmatrix:" + name, e)
            ck.true("scale-pow2:" + name, e <= 1e-11,
                    "%s: %s changes by %.2e under power-of-two rescaling" %
                    (case_desc, name, e))
        else:
            sc = float(np.max(np.abs(b))) or 1.0
            e = float(np.max(np.abs(g - b))) / sc if g.shape == b.shape \
                else float("inf")
            ck.metric("decimal:" + name, e)
            ck.true("scale-decimal:" + name, e <= tol,
                    "%s: %s changes by %.2e under rescaling" %
                    (case_desc, name, e))
        fps.append(fp_values(g))
    return fps


def _intify(spec):
    """the same scatterer with every length x1000 as Python ints"""
    def I(v):
        if isinstance(v, (list, tuple)):
            return type(v)(I(x) for x in v)
        return int(round(v * 1000))
    k = spec[0]
    if k == "sphere":
        return (k, spec[1], I(spec[2]), I(spec[3]))
    if k == "spheres":
        # (+1 on the last member: the centroid of integer coordinates must
        # not be integer-valued itself)
        mem = [(n, I(r), I(c)) for n, r, c in spec[1]]
        n, r, c = mem[-1]
        mem[-1] = (n, r, tuple(v + 1 for v in c))
        return (k, mem)
    if k == "spheroid":
        return (k, spec[1], I(spec[2]), spec[3], I(spec[4]))
    raise ValueError(k)


def _run_intunits(case, ck):
    import holopy as hp
    from holopy.scattering import calc_holo, calc_field
    st = case["st"]
    sspec, tspec = H.ST[st]
    pol = _pol_for(st)
    fps = []
    for form in ("int", "intarray"):
        ispec = _intify(sspec)
        scat_i = H.mk_scatterer(ispec)
        if form == "intarray" and ispec[0] == "spheres":
            from holopy.scattering import Sphere, Spheres
            scat_i = Spheres([Sphere(n=n, r=r, center=np.array(c))
                              for n, r, c in ispec[1]])
        scat_f = H.mk_scatterer(sspec, 1000.0)
        if ispec[0] == "spheres":
            from holopy.scattering import Sphere, Spheres
            scat_f = Spheres([Sphere(n=n, r=float(r), center=tuple(
                float(v) for v in c)) for n, r, c in ispec[1]])
        det_i = hp.detector_grid((4, 5), (100, 130))
        det_f = H.det_grid((4, 5), (0.1, 0.13), scale=1000.0)
        for fn in (calc_holo, calc_field):
            a = fn(det_i, scat_i, H.NMED, 660, pol,
                   theory=H.mk_theory(tspec)).values
            b = fn(det_f, scat_f, H.NMED, 660.0, pol,
                   theory=H.mk_theory(tspec)).values
            ck.trans += 2
            e = float(np.abs(a - b).max() / np.abs(b).max())
            ck.metric("int-vs-float", e)
            ck.true("integer-valued-lengths", e <= 1e-9,
                    "%s: lengths written as integers (%s) give a result "
                    "that differs by %.2e from the same lengths written as "
                    "floats" % (st, form, e))
            fps.append(fp_values(a))
    return digest(*fps)


def _run_dirs(case, ck):
    """detector given as a list of directions without distances (they
    default to infinity): whatever the library returns there -- a value, or
    NaN because 1/(k r) vanishes -- it returns in every unit of length"""
    import holopy as hp
    from holopy.scattering import calc_field, calc_intensity
    sspec, tspec = H.ST[case["st"]]
    th = np.array([0.3, 1.0, 2.0, 2.8])
    ph = np.array([0.1, 2.0, -1.0, 3.0])
    res = {}
    for s in (1.0, 1e-3, 1e3, 2.0 ** 10):
        scat = H.mk_scatterer(sspec, s)
        det = hp.detector_points(theta=th, phi=ph)
        kw = dict(medium_index=H.NMED, illum_wavelen=H.WL * s,
                  illum_polarization=_pol_for(case["st"]),
                  theory=H.mk_theory(tspec))
        out = {}
        for name, fn in (("field", calc_field), ("intensity", calc_intensity)):
            try:
                with warnings.catch_warnings():
                    warnings.simplefilter("ignore")
                    out[name] = np.asarray(fn(det, scat, **kw).values)
            except Exception as e:
                out[name] = ("exc", type(e).__name__)
            ck.trans += 1
        res[s] = out
    for s in list(res)[1:]:
        for name in res[1.0]:
            b, g = res[1.0][name], res[s][name]
            if isinstance(b, tuple) or isinstance(g, tuple):
                ck.true("same-acceptance:" + name, isinstance(b, tuple) and
                        isinstance(g, tuple) and b == g,
                        "directions-only detector, %s: %r in the original "
                        "unit, %r with lengths x %g" %
                        (name, b if isinstance(b, tuple) else "ok",
                         g if isinstance(g, tuple) else "ok", s))
                continue
            same_nan = b.shape == g.shape and \
                bool(np.array_equal(np.isnan(b), np.isnan(g)))
            fin = ~np.isnan(b) if same_nan else None
            sc = float(np.max(np.abs(b[fin]))) if same_nan and fin.any() \
                else 1.0
            e = float(np.max(np.abs(g[fin] - b[fin])) / (sc or 1.0)) \
                if same_nan and fin.any() else 0.0
            ck.metric("directions:" + name, e)
            ck.true("scale-directions:" + name, same_nan and e <= 1e-9,
                    "directions-only detector (%s): %s is %r in the "
                    "original unit and %r with all lengths x %g" %
                    (case["st"], name, b.ravel()[:2].tolist(),
                     g.ravel()[:2].tolist(), s))
    b = res[1.0]["field"]
    return digest("nan" if isinstance(b, tuple) or np.isnan(b).all()
                  else fp_values(b))


def _medium_compare(ck, st, nm, wl, ms_xsec):
    # (n, n_m, L) -> (n/n_m, 1, L/n_m)
    base = _quantities(st, 1.0, DETK[0], nmed=nm, wl=wl,
                       ms_xsec=ms_xsec)
    got = _quantities(st, 1.0, DETK[0], nmed=1.0, wl=wl / nm, nscale=nm,
                      ms_xsec=ms_xsec)
    fps = []
    for name in base:
        b, g = base[name], got[name]
        if isinstance(b, tuple) or isinstance(g, tuple):
            ck.true("same-acceptance:" + name,
                    isinstance(b, tuple) and isinstance(g, tuple),
                    "%s medium %r: %s accepted only in one form" %
                    (st, nm, name))
            continue
        ck.trans += 2
        if name == "xsec":
            absol = abs(b[2])
            e = max(abs(g[0] - b[0]) / abs(b[0]), abs(g[2] - b[2]) / absol,
                    abs(g[1] - b[1]) / absol, abs(g[3] - b[3]))
        else:
            sc = float(np.max(np.abs(b))) or 1.0
            e = float(np.max(np.abs(g - b))) / sc
        ck.metric("medium:" + name, e)
        ck.true("medium-renorm:" + name, e <= 1e-9,
                "%s: %s changes by %.2e when (n, n_m, L) -> (n/n_m, 1, "
                "L/n_m) with n_m=%r" % (st, name, e, nm))
        fps.append(fp_values(g))
    return fps


def run_case(case):
    ck = Checker()
    st = case["st"]
    if case["kind"] == "dirs":
        return ck.result(fp=_run_dirs(case, ck))
    if case["kind"] == "intunits":
        return ck.result(fp=_run_intunits(case, ck))
    if case["kind"] == "scan":
        s = case["s"]
        base, got = _scan(st, 1.0), _scan(st, s)
        m, e = math.frexp(s)
        fps = _compare(ck, "%s scan x%r" % (st, s), base, got, m == 0.5, s,
                       1e-9)
        d = [np.abs(base["step%d" % i] - base["step0"]).max()
             for i in range(1, len(SCAN) - 1)
             if not isinstance(base["step%d" % i], tuple)]
        ck.true("scan-steps-differ", bool(d) and min(d) > 1e-6,
                "the steps of the scan do not differ from one another")
        return ck.result(fp=digest(*fps))
    if case["kind"] == "scale":
        s = case["s"]
        base = _quantities(st, 1.0, case["det"], ms_xsec=case["ms_xsec"])
        got = _quantities(st, s, case["det"], ms_xsec=case["ms_xsec"])
        m, e = math.frexp(s)
        pow2 = (m == 0.5)
        # Multisphere truncates its translation series at qeps2 = 1e-8 by
        # default; for spheres in contact the truncation order can change
        # with the last bit of the scaled coordinates (a term of ~1e-7 kept
        # or dropped), so rescaling by a factor that is not a power of two
        # is exact only to the solver's own tolerance there [floor 5.9e-8]
        dtol = 1e-6 if st == "ms2-touch" else 1e-9
        fps = _compare(ck, "%s x%r on %s" % (st, s, case["det"]), base, got,
                       pow2, s, dtol)
        n_ok = sum(1 for v in base.values() if not isinstance(v, tuple))
        if case["det"] == "p3" and ("mielens" in st or "lens" in st):
            return ck.result(fp="refused", outcome="refused",
                             nontrivial=False)
        ck.true("something-computed", n_ok >= 3, "fewer than three "
                "quantities could be computed for %s: %r" %
                (st, {k: v for k, v in base.items()
                      if isinstance(v, tuple)}))
        return ck.result(fp=digest(*fps, s))
    if case["kind"] == "medialoop":
        # several media at one vacuum wavelength, then several wavelengths in
        # one medium, one after the other in one interpreter
        fps = []
        for nm, wl in case["loop"]:
            fps += _medium_compare(ck, st, nm, wl, False)
        return ck.result(fp=digest(*fps))
    fps = _medium_compare(ck, st, case["nm"], H.WL, case["ms_xsec"])
    return ck.result(fp=digest(*fps, case["nm"]))


"""C02 -- independent solvers agree on a single sphere; layered equivalences.

Exhaustive over an (m, x) alphabet x solver options x radial distances x
angles x polarizations.  Reference: textbook Lorenz-Mie series whose
coefficients are a 60-digit mpmath table (oracles/mie_ref.py).
"""
import itertools
import math

import numpy as np

from lib import Checker, digest, fp_values
from oracles import mie_ref

PROPERTY = "C02"
RULE = ("one case per (relative index, size parameter) of the alphabet and "
        "solver family; inside a case the complete product of solver options "
        "x radial distances x 7 polar x 6 azimuthal angles x polarizations is "
        "evaluated and compared with the textbook series; layered cases "
        "enumerate every index sequence of length 1-4 over a 3-letter "
        "alphabet.  Non-trivial: distinct fingerprint of the computed field")
ASSUMPTIONS = [
    "mpmath (60 digits) evaluates Riccati-Bessel functions correctly; the "
    "table was cross-checked against HoloPy (<=1e-13) on the unchanged tree",
    "scipy spherical Bessel functions are accurate for the near-field "
    "reference",
    "only alphabet values are covered"]
# measured floors on the unchanged tree (thorough alphabet) in brackets
TOLERANCES = {"mie-scatmat": 2e-5,          # [3.7e-7]
              "mie-field": 2e-5,            # [2.6e-6] backscatter, near field
              "mie-field-z": 1e-4,          # [1.6e-6]
              "ms-vs-mie-default": 2e-2,    # [see evidence] of the peak field
              "ms-vs-mie-tight": 3e-4,      # [8.8e-6]
              "ms-vs-mie-shell": 3e-5,      # [1.1e-6]
              "msm": 1e-9,                  # [2.5e-11]
              "layered-canon": 1e-8,        # [8.1e-11]
              "layered-vs-textbook": 3e-5}  # [7.4e-7]
TOL = TOLERANCES
TIMEOUT = 600

N_MED, WL = 1.33, 0.66
K = 2 * math.pi * N_MED / WL

M_ALPHA = {"quick": [1.2, 1.5, 0.75, 1.5 + 0.5j],
           "thorough": [1.2, 1.05, 1.5, 2.0, 0.75, 1.2 + 0.01j, 1.5 + 0.5j,
                        1.33 + 1e-6j]}
X_ALPHA = {"quick": [5.0, 1e-3, 0.5, 10.0, 50.0, 200.0],
           "thorough": [5.0, 1e-3, 1e-2, 0.1, 0.5, 1.0, 2.0, 10.0, 20.0, 50.0,
                        100.0, 200.0, 400.0]}
THETA = [0.0, 1e-6, math.pi / 4, math.pi / 2, 3 * math.pi / 4,
         math.pi - 1e-6, math.pi]
PHI = [0.0, math.pi / 6, math.pi / 2, math.pi, 5 * math.pi / 4,
       7 * math.pi / 4]
POLANG = [0.0, 30.0, 90.0, 135.0]
OPTS = [(True, True), (True, False), (False, True), (False, False)]

LAY_N = [1.45, 1.59, N_MED, 1.59 + 0.05j]     # index 2 = medium index
LAY_PATTERNS = [[0.2, 0.35, 0.5, 0.65], [0.05, 0.3, 0.32, 0.9]]


def _krs(x):
    ks = []
    # (16 pi, 1024 pi: whole numbers of half wavelengths, where j_0(kr) = 0)
    for v in (1.5 * x + 1, 3 * x + 10, 16 * math.pi, 1e3, 1024 * math.pi,
              1e4, 1e5):
        if v > x * 1.01 and all(abs(v - u) > 1e-9 for u in ks):
            ks.append(v)
    return ks


def _lay_seqs(tier):
    out = []
    maxlen = 4 if tier == "thorough" else 3
    for L in range(1, maxlen + 1):
        for seq in itertools.product(range(len(LAY_N)), repeat=L):
            out.append(list(seq))
    return out


def cases(tier, seed):
    out = []
    reqs = []
    for im, m in enumerate(M_ALPHA[tier]):
        for ix, x in enumerate(X_ALPHA[tier]):
            reqs.append(mie_ref.req_homog(m, x))
            out.append({"id": "mie:m=%r:x=%r" % (m, x), "kind": "mie",
                        "m": [m.real, m.imag] if isinstance(m, complex)
                        else [m, 0.0], "x": x})
            if x <= 15:
                out.append({"id": "ms:m=%r:x=%r" % (m, x), "kind": "ms",
                            "m": [complex(m).real, complex(m).imag], "x": x})
            if x <= 200:
                out.append({"id": "msm:m=%r:x=%r" % (m, x), "kind": "msm",
                            "m": [complex(m).real, complex(m).imag], "x": x})
    # one-sphere clusters beyond 32 partial waves (the compiled expansion
    # order of the multi-sphere solver): accepted by the front end (its size
    # guard is k r < 1000)
    for x in (30.0, 50.0):
        reqs.append(mie_ref.req_homog(1.2, x))
        out.append({"id": "ms-large:m=1.2:x=%r" % x, "kind": "ms",
                    "m": [1.2, 0.0], "x": x})
    # ... and the largest alphabet size below that limit, where a refusal
    # is not acceptable
    reqs.append(mie_ref.req_homog(1.2, 22.0))
    out.append({"id": "ms:m=1.2:x=22.0", "kind": "ms", "m": [1.2, 0.0],
                "x": 22.0})
    # size parameters x, or interior arguments m x, that are multiples of
    # pi (round radii at a commensurate wavelength): psi_0 = sin vanishes
    for m, x in ((1.2, 2 * math.pi), (1.5, 2 * math.pi), (1.25, 2.4 * math.pi),
                 (1.59 / 1.32, math.pi), (1.2, 4 * math.pi)):
        out.append({"id": "ms-pi:m=%r:x=%r" % (m, x), "kind": "ms",
                    "m": [m, 0.0], "x": x})
    # sizes on a narrow resonance of one partial wave of order n > x + 1
    # (committed table, tools/gen_resonances.py): a series that is ended by
    # a "the terms have become small" rule loses exactly that wave.  Quick:
    # the two narrowest and the widest per index; thorough: all of them
    from oracles import resonances
    for m, rows in sorted(resonances.table().items()):
        rows = [r for r in rows if r[0] <= 15.0]
        if tier == "quick":
            rows = rows[:2] + rows[-1:]
        for x, kind, n, w in rows:
            out.append({"id": "ms-res:m=%.4f:x=%r:%s%d" % (m, x, kind, n),
                        "kind": "ms", "m": [m, 0.0], "x": x})
    for seq in _lay_seqs(tier):
        for ip, pat in enumerate(LAY_PATTERNS):
            if tier == "quick" and ip == 1 and len(seq) > 2:
                continue
            out.append({"id": "layered:%s:p%d" % ("".join(map(str, seq)), ip),
                        "kind": "layered", "seq": seq, "pat": ip})
            ns, rs = _canon([LAY_N[i] for i in seq], pat[:len(seq)])
            if ns:
                reqs.append(mie_ref.req_layered(
                    [n / N_MED for n in ns], [K * r for r in rs]))
    out.append({"id": "layered-thickness", "kind": "layered_t"})
    out.append({"id": "theory-object-reuse", "kind": "reuse"})
    # spheres of growing and shrinking size one after the other on ONE
    # detector whose points share a polar angle / a distance (rings, a grid
    # centred on the particle, one point): what a kernel keeps from the
    # previous call is asked for again with another expansion order
    for th in LADDER_TH:
        for dk in LADDER_DET:
            out.append({"id": "size-ladder:%s:%s" % (th, dk),
                        "kind": "ladder", "th": th, "det": dk})
    # one deliberate vector beyond the Fortran Bessel routine's range
    # (DESIGN.md section 6 #13)
    reqs.append(mie_ref.req_homog(1.2, 5.0))
    out.append({"id": "mie-far:m=1.2:x=5.0:kr=1e5", "kind": "far",
                "m": [1.2, 0.0], "x": 5.0, "kr": 1e5})
    # ... and distances on either side of the points where that routine
    # changes its method (kr = 1e4) and used to give up (kr = 2e4)
    for kr in (9.999e3, 1.0001e4, 1.9999e4, 2.0001e4, 1e6):
        out.append({"id": "mie-far:m=1.2:x=5.0:kr=%r" % kr, "kind": "far",
                    "m": [1.2, 0.0], "x": 5.0, "kr": kr})
    reqs.append(mie_ref.req_homog(1.2, 1.0))
    out.append({"id": "mie-j1-zeros", "kind": "j1zero"})
    mie_ref.ensure(reqs)
    return out


def _canon(ns, rs):
    """reference model of layer canonicalisation: merge adjacent equal
    indices, drop outer layers that have the medium's index."""
    ns, rs = list(ns), list(rs)
    mn, mr = [], []
    for n, r in zip(ns, rs):
        if mn and mn[-1] == n:
            mr[-1] = r
        else:
            mn.append(n)
            mr.append(r)
    while mn and mn[-1] == N_MED:
        mn.pop()
        mr.pop()
    return mn, mr


def _points(kr_list):
    """detector points in the lab frame for all (kr, theta, phi); particle at
    CENTER; scattering frame z' = z0 - z."""
    pts = []
    for kr in kr_list:
        r = kr / K
        for th in THETA:
            for ph in PHI:
                pts.append((CENTER[0] + r * math.sin(th) * math.cos(ph),
                            CENTER[1] + r * math.sin(th) * math.sin(ph),
                            CENTER[2] - r * math.cos(th)))
    return np.array(pts)


CENTER = (0.3, -0.2, 7.0)


def _pol(deg):
    a = math.radians(deg)
    return (math.cos(a), math.sin(a))


def _field_err(f, ref):
    """per-point error relative to the point's own field magnitude (plus a
    floor of 1e-3 of the largest magnitude in the call, so that nodes of the
    angular pattern do not blow up the ratio)"""
    Ex, Ey, Ez = ref
    mag = np.sqrt(abs(Ex) ** 2 + abs(Ey) ** 2 + abs(Ez) ** 2)
    # (the largest magnitude of the point's own distance shell: a shell at
    # kr = 1e5 is 1e-4 of the nearest one)
    nsh = len(THETA) * len(PHI)
    if mag.size % nsh == 0:
        top = np.repeat(mag.reshape(-1, nsh).max(1), nsh)
    else:
        top = mag.max()
    scale = mag + 1e-3 * top
    exy = np.maximum(abs(f[:, 0] - Ex), abs(f[:, 1] - Ey)) / scale
    ez = np.minimum(abs(f[:, 2] - Ez), abs(f[:, 2] + Ez)) / scale
    return float(exy.max()), float(ez.max())


def _run_mie(case, ck):
    import holopy as hp
    from holopy.scattering import Sphere, Mie, calc_field, calc_scat_matrix
    m = complex(*case["m"])
    x = case["x"]
    a, b = mie_ref.coeffs(m, x)
    n_sph = m * N_MED
    if n_sph.imag == 0:
        n_sph = n_sph.real
    sph = Sphere(n=n_sph, r=x / K, center=CENTER)
    # (i) amplitude scattering matrix
    kr0 = max(3 * x + 10, 50.0)
    pts = _points([kr0])
    det = hp.detector_points(x=pts[:, 0], y=pts[:, 1], z=pts[:, 2])
    S = calc_scat_matrix(det, sph, N_MED, WL, theory=Mie())
    ck.trans += 1
    th = np.repeat(np.array(THETA), len(PHI))
    S1, S2 = mie_ref.S12(a, b, th)
    sc = np.maximum(abs(S1), abs(S2)) + 1e-3 * max(abs(S1).max(),
                                                   abs(S2).max())
    Sv = S.values
    e = max((abs(Sv[:, 0, 0] - S2) / sc).max(),
            (abs(Sv[:, 1, 1] - S1) / sc).max(),
            (abs(Sv[:, 0, 1]) / sc).max(), (abs(Sv[:, 1, 0]) / sc).max())
    ck.metric("mie-scatmat", e)
    ck.true("mie-scatmat", e <= TOL["mie-scatmat"],
            "calc_scat_matrix(Mie) differs from textbook S1/S2 by %.2e "
            "(m=%r x=%r)" % (e, m, x))
    # theta coordinate reported must be the scattering angle we asked for
    # (away from the poles where 1e-6 offsets are below resolution)
    fps = [fp_values(Sv)]
    # (ii) fields, every option pair x kr x polarization
    pts = _points(_krs(x))
    det = hp.detector_points(x=pts[:, 0], y=pts[:, 1], z=pts[:, 2])
    for rad, full in OPTS:
        for pa in POLANG:
            pol = _pol(pa)
            f = calc_field(det, sph, N_MED, WL, pol,
                           theory=Mie(rad, full)).values
            ck.trans += 1
            ref = mie_ref.holopy_field(a, b, K, CENTER, pts, pol, full, rad)
            exy, ez = _field_err(f, ref)
            ck.metric("mie-field", exy)
            ck.metric("mie-field-z", ez)
            ck.true("mie-field", exy <= TOL["mie-field"] and np.isfinite(f).all(),
                    "calc_field(Mie(radial=%s, full=%s)) x/y components "
                    "differ from textbook by %.2e (m=%r x=%r pol=%g deg)"
                    % (rad, full, exy, m, x, pa))
            ck.true("mie-field-z", ez <= TOL["mie-field-z"],
                    "z component differs from textbook by %.2e "
                    "(radial=%s full=%s m=%r x=%r pol=%g)" %
                    (ez, rad, full, m, x, pa))
            fps.append(fp_values(f))
    return digest(*fps)


J1_ZEROS = [4.493409457909064, 10.904121659428899, 17.220755271930768,
            7.725251836937707]


def _run_j1zero(case, ck):
    """detector points whose distance makes j_1(kr) vanish (to the last
    bit): the radial functions are normalised with j_0 or j_1 there"""
    import holopy as hp
    from holopy.scattering import Sphere, Mie, calc_field
    m, x = 1.2, 1.0
    a, b = mie_ref.coeffs(m, x)
    sph = Sphere(n=m * N_MED, r=x / K, center=CENTER)
    fps = []
    for kr0 in J1_ZEROS:
        for rel in (0.0, 1e-12, -1e-9):
            r = kr0 * (1 + rel) / K
            th = np.repeat(np.array(THETA), len(PHI))
            ph = np.tile(np.array(PHI), len(THETA))
            det = hp.detector_points(r=r, theta=th, phi=ph)
            pts = np.stack([CENTER[0] + r * np.sin(th) * np.cos(ph),
                            CENTER[1] + r * np.sin(th) * np.sin(ph),
                            CENTER[2] - r * np.cos(th)], 1)
            for pa in (0.0, 30.0):
                pol = _pol(pa)
                f = calc_field(det, sph, N_MED, WL, pol,
                               theory=Mie()).values
                ck.trans += 1
                ref = mie_ref.holopy_field(a, b, K, CENTER, pts, pol, True,
                                           True)
                exy, ez = _field_err(f, ref)
                ck.metric("mie-field-j1zero", max(exy, ez))
                ck.true("mie-field", max(exy, ez) <= TOL["mie-field"] and
                        np.isfinite(f).all(), "calc_field(Mie) at kr = %r "
                        "(zero of j_1 %r, relative offset %g) differs from "
                        "the textbook series by %.2e / %.2e (x, y / z)" %
                        (kr0 * (1 + rel), kr0, rel, exy, ez))
                fps.append(fp_values(f))
    return digest(*fps)


def _run_far(case, ck):
    import holopy as hp
    from holopy.scattering import Sphere, Mie, calc_field
    m = complex(*case["m"])
    x = case["x"]
    a, b = mie_ref.coeffs(m, x)
    sph = Sphere(n=m.real * N_MED, r=x / K, center=CENTER)
    pts = _points([case["kr"]])
    det = hp.detector_points(x=pts[:, 0], y=pts[:, 1], z=pts[:, 2])
    try:
        f = calc_field(det, sph, N_MED, WL, (1, 0), theory=Mie()).values
    except Exception:
        return "refused"          # an explicit Python error is acceptable
    ck.trans += 1
    ref = mie_ref.holopy_field(a, b, K, CENTER, pts, (1, 0), True, True)
    exy, ez = _field_err(f, ref)
    ck.metric("mie-field-far", exy)
    ck.true("mie-field-far", exy <= TOL["mie-field"],
            "default Mie at kr=%g differs from textbook by %.2e without any "
            "Python-level error" % (case["kr"], exy))
    return digest(fp_values(f))


def _run_ms(case, ck):
    import holopy as hp
    from holopy.scattering import (Sphere, Spheres, Mie, Multisphere,
                                   calc_field, calc_scat_matrix)
    m = complex(*case["m"])
    x = case["x"]
    n_sph = m * N_MED
    if n_sph.imag == 0:
        n_sph = n_sph.real
    sph = Sphere(n=n_sph, r=x / K, center=CENTER)
    clus = Spheres([sph])
    pts = _points(_krs(x))
    det = hp.detector_points(x=pts[:, 0], y=pts[:, 1], z=pts[:, 2])
    fps = []
    for label, kw, tol in (("default", {}, TOL["ms-vs-mie-default"]),
                           ("tight", dict(eps=1e-12, qeps1=1e-12,
                                          qeps2=1e-14),
                            TOL["ms-vs-mie-tight"])):
        for meth in (1, 0):
            for rad in (False, True):
                for pa in (0.0, 30.0, 90.0):
                    pol = _pol(pa)
                    th_ms = Multisphere(meth=meth, compute_escat_radial=rad,
                                        **kw)
                    try:
                        f = calc_field(det, clus, N_MED, WL, pol,
                                       theory=th_ms).values
                    except Exception as e:
                        if (case["id"].startswith("ms-large") and
                                type(e).__name__ == "InvalidScatterer" and
                                "compiled expansion order" in str(e)):
                            # beyond the 32 partial waves the solver is
                            # compiled for: refused, nothing to compare
                            ck.metric("ms-refused-beyond-compiled-order", x)
                            ck.trans += 1
                            fps.append("refused")
                            continue
                        ck.true("ms-accepts-one-sphere", False,
                                "Multisphere refused a one-sphere cluster "
                                "(m=%r x=%r): %s: %s" %
                                (m, x, type(e).__name__, e))
                        continue
                    g = calc_field(det, sph, N_MED, WL, pol,
                                   theory=Mie(rad, True)).values
                    ck.trans += 2
                    mag = np.sqrt((abs(g) ** 2).sum(1))
                    if label == "default":
                        # default truncation tolerances (qeps1=1e-5): the
                        # solver's accuracy is relative to the peak field
                        scale = mag.max()
                    else:
                        scale = (mag + 1e-2 * mag.max())[:, None]
                    e = float((abs(f - g) / scale).max())
                    if label == "tight":
                        # ... and every distance shell against its own
                        # largest field (a far shell is 1e-3 of the nearest)
                        nsh = len(THETA) * len(PHI)
                        for j, kr in enumerate(_krs(x)):
                            sl = slice(j * nsh, (j + 1) * nsh)
                            es = float(abs(f[sl] - g[sl]).max() /
                                       mag[sl].max())
                            ck.metric("ms-vs-mie-shell", es)
                            ck.true("ms-vs-mie-shell", es <=
                                    TOL["ms-vs-mie-shell"],
                                    "Multisphere(tight, meth=%d, radial=%s) "
                                    "one-sphere cluster differs from Mie by "
                                    "%.2e of the largest field at kr = %g "
                                    "(m=%r x=%r pol=%g)" %
                                    (meth, rad, es, kr, m, x, pa))
                    ck.metric("ms-vs-mie-" + label, e)
                    ck.true("ms-vs-mie-" + label, e <= tol,
                            "Multisphere(%s, meth=%d, radial=%s) one-sphere "
                            "cluster differs from Mie by %.2e (m=%r x=%r "
                            "pol=%g)" % (label, meth, rad, e, m, x, pa))
                    fps.append(fp_values(f))
    # scattering matrix
    kr0 = max(3 * x + 10, 50.0)
    pts = _points([kr0])
    det = hp.detector_points(x=pts[:, 0], y=pts[:, 1], z=pts[:, 2])
    try:
        S = calc_scat_matrix(det, clus, N_MED, WL,
                             theory=Multisphere(eps=1e-12, qeps1=1e-12,
                                                qeps2=1e-14)).values
        T = calc_scat_matrix(det, sph, N_MED, WL, theory=Mie()).values
        ck.trans += 2
        sc = abs(T).max(axis=(1, 2)) + 1e-2 * abs(T).max()
        # Multisphere's matrix carries the full radial dependence; compare at
        # large kr only when far enough: kr0 >> x^2 is not guaranteed, so use
        # the asymptotic statement only for x <= 1
        if x <= 1.0:
            e = float((abs(S - T).max(axis=(1, 2)) / sc).max())
            ck.metric("ms-scatmat", e)
            ck.true("ms-scatmat", e <= 2e-2,
                    "calc_scat_matrix(Multisphere) differs from Mie by %.2e"
                    % e)
    except Exception as e:
        if (case["id"].startswith("ms-large") and
                "compiled expansion order" in str(e)):
            return digest(*fps)
        ck.true("ms-scatmat-runs", False, "calc_scat_matrix(Multisphere) "
                "raised %s: %s" % (type(e).__name__, e))
    return digest(*fps)


def _run_msm(case, ck):
    from holopy.scattering.theory.mielensfunctions import MieScatteringMatrix
    m = complex(*case["m"])
    x = case["x"]
    a, b = mie_ref.coeffs(m, x)
    th = np.array(THETA + [0.3, 1.0, 2.0, 2.8])
    S1, S2 = mie_ref.S12(a, b, th)
    # the pure-Python series is written in van de Hulst's exp(+i w t)
    # convention: an absorbing sphere is n - ik there and the amplitudes are
    # the complex conjugates of Bohren & Huffman's
    mm = m.real if m.imag == 0 else np.conj(m)
    out = []
    tol = TOL["msm"]
    for which, ref in (("perpendicular", np.conj(S1)),
                       ("parallel", np.conj(S2))):
        try:
            got = MieScatteringMatrix(which, mm, x)(th)
        except Exception as e:
            ck.true("msm-runs", False, "MieScatteringMatrix(%s, %r, %r) "
                    "raised %s: %s" % (which, mm, x, type(e).__name__, e))
            continue
        ck.trans += 1
        sc = abs(ref) + 1e-3 * abs(ref).max()
        e = float((abs(got - ref) / sc).max())
        ck.metric("msm@x=%g" % x, e)
        ck.true("msm-" + which, e <= tol,
                "pure-Python Mie series (%s) differs from textbook by %.2e "
                "> %.1e (m=%r x=%r)" % (which, e, tol, m, x))
        out.append(fp_values(got))
    return digest(*out)


def _lay_points():
    return _points([40.0, 1e3])


def _run_layered(case, ck):
    import holopy as hp
    from holopy.scattering import Sphere, Mie, calc_field
    seq = case["seq"]
    pat = LAY_PATTERNS[case["pat"]][:len(seq)]
    ns = [LAY_N[i] for i in seq]
    pts = _lay_points()
    det = hp.detector_points(x=pts[:, 0], y=pts[:, 1], z=pts[:, 2])
    pol = _pol(30.0)
    cn, cr = _canon(ns, pat)
    try:
        f = calc_field(det, Sphere(n=list(ns), r=list(pat), center=CENTER),
                       N_MED, WL, pol, theory=Mie()).values
        ck.trans += 1
    except Exception as e:
        ck.true("layered-runs", False, "layered sphere n=%r r=%r raised %s: "
                "%s" % (ns, pat, type(e).__name__, e))
        return "exc"
    ck.true("layered-finite", np.isfinite(f).all(), "non-finite field for "
            "layered sphere n=%r r=%r" % (ns, pat))
    if not cn:
        # everything has the medium's index: nothing scatters
        e = float(abs(f).max())
        ck.metric("layered-invisible", e)
        ck.true("layered-canon", e <= 1e-9, "sphere made of the medium "
                "scatters: |E| = %.2e (n=%r r=%r)" % (e, ns, pat))
        return digest(fp_values(f))
    if len(cn) == 1:
        simple = Sphere(n=cn[0], r=cr[0], center=CENTER)
    else:
        simple = Sphere(n=list(cn), r=list(cr), center=CENTER)
    g = calc_field(det, simple, N_MED, WL, pol, theory=Mie()).values
    ck.trans += 1
    mag = np.sqrt((abs(g) ** 2).sum(1))
    scale = (mag + 1e-3 * mag.max())[:, None]
    e = float((abs(f - g) / scale).max())
    ck.metric("layered-canon", e)
    ck.true("layered-canon", e <= TOL["layered-canon"],
            "layered sphere n=%r r=%r differs from its canonical form n=%r "
            "r=%r by %.2e" % (ns, pat, cn, cr, e))
    # textbook layered series
    a, b = mie_ref.coeffs_layered([n / N_MED for n in cn],
                                  [K * r for r in cr])
    ref = mie_ref.holopy_field(a, b, K, CENTER, pts, pol, True, True)
    exy, ez = _field_err(f, ref)
    ck.metric("layered-vs-textbook", max(exy, ez))
    ck.true("layered-vs-textbook", max(exy, ez) <= TOL["layered-vs-textbook"],
            "layered sphere n=%r r=%r differs from the textbook layered "
            "series by %.2e" % (ns, pat, max(exy, ez)))
    return digest(fp_values(f))


def _run_layered_t(case, ck):
    import holopy as hp
    from holopy.scattering import Sphere, Mie, calc_field, calc_scat_matrix
    from holopy.scattering.scatterer import LayeredSphere
    pts = _lay_points()
    det = hp.detector_points(x=pts[:, 0], y=pts[:, 1], z=pts[:, 2])
    fps = []
    for ns in ([1.45], [1.45, 1.59], [1.59, 1.45, 1.7],
               [1.4, 1.5, 1.6 + 0.01j, 1.45]):
        for ts in ([0.2, 0.15, 0.15, 0.15], [0.05, 0.25, 0.02, 0.58]):
            t = ts[:len(ns)]
            r = list(np.cumsum(t))
            ls = LayeredSphere(n=list(ns), t=list(t), center=CENTER)
            ck.true("thickness-radii", np.array_equal(np.asarray(ls.r),
                                                      np.asarray(r)),
                    "LayeredSphere(t=%r).r = %r, cumulative sum is %r" %
                    (t, list(ls.r), r))
            sp = Sphere(n=list(ns), r=r, center=CENTER)
            for pa in (0.0, 30.0):
                f = calc_field(det, ls, N_MED, WL, _pol(pa),
                               theory=Mie()).values
                g = calc_field(det, sp, N_MED, WL, _pol(pa),
                               theory=Mie()).values
                ck.trans += 2
                ck.same_bits("thickness-equivalent", f, g,
                             "LayeredSphere(n=%r,t=%r) vs Sphere(r=cumsum)" %
                             (ns, t))
                fps.append(fp_values(f))
            S = calc_scat_matrix(det, ls, N_MED, WL, theory=Mie()).values
            T = calc_scat_matrix(det, sp, N_MED, WL, theory=Mie()).values
            ck.trans += 2
            ck.same_bits("thickness-equivalent", S, T, "scat matrix "
                         "LayeredSphere vs Sphere n=%r t=%r" % (ns, t))
    return digest(*fps)


def _run_reuse(case, ck):
    """one theory object serving a sequence of calls that differ in the
    wavelength, the medium or the sphere only: each result is the result of
    a fresh object (which the other cases compare with the textbook)"""
    import holopy as hp
    from holopy.scattering import (Sphere, Spheres, Mie, Multisphere,
                                   calc_field, calc_scat_matrix)
    pts = _points([30.0, 1e3])
    det = hp.detector_points(x=pts[:, 0], y=pts[:, 1], z=pts[:, 2])
    steps = [(0.66, 1.33, 1.59, 0.5), (0.405, 1.33, 1.59, 0.5),
             (0.66, 1.33, 1.59, 0.5), (0.66, 1.0, 1.59, 0.5),
             (0.52, 1.33, 1.59, 0.5), (0.52, 1.33, 1.5, 0.5),
             (0.52, 1.33, 1.5, 0.45)]
    fps = []
    for name, mk, wrap in (("Mie", lambda: Mie(), lambda s: s),
                           ("Multisphere", lambda: Multisphere(),
                            lambda s: Spheres([s]))):
        shared = mk()
        for j, (wl, nm, n, r) in enumerate(steps):
            sc = wrap(Sphere(n=n, r=r, center=CENTER))
            for fn, kw in ((calc_field, dict(illum_polarization=(1, 0))),
                           (calc_scat_matrix, {})):
                a = fn(det, sc, nm, wl, theory=shared, **kw).values
                b = fn(det, sc, nm, wl, theory=mk(), **kw).values
                ck.trans += 2
                ck.true("theory-object-reuse", a.shape == b.shape and
                        bool(np.array_equal(a, b)), "%s object reused: step "
                        "%d (wavelength %g, medium %g, n %g, r %g), %s "
                        "differs from a fresh object's by %.2e" %
                        (name, j, wl, nm, n, r, fn.__name__,
                         float(np.abs(a - b).max() / np.abs(b).max())
                         if a.shape == b.shape else -1))
                fps.append(fp_values(a))
    return digest(*fps)


LADDER_TH = ["mie", "mie-asym", "ms1-tight", "mielens"]
LADDER_DET = ["ring", "centred-grid", "one-point", "forward"]
LADDER_R = [0.1, 0.3, 0.5, 0.9, 1.4]


def _ladder_op(th, dk, quantity, r):
    import warnings
    import holopy as hp
    from holopy.scattering import (calc_field, calc_scat_matrix, Sphere,
                                   Spheres, Mie, Multisphere, MieLens)
    c = (1.0, 1.0, 8.0)
    if dk == "ring":
        det = hp.detector_points(theta=np.full(6, 0.7),
                                 phi=np.linspace(0.0, 5.0, 6), r=20.0)
    elif dk == "one-point":
        det = hp.detector_points(theta=np.array([0.7]), phi=np.array([1.0]),
                                 r=20.0)
    elif dk == "forward":
        det = hp.detector_points(theta=np.array([0.0, 0.0]),
                                 phi=np.array([0.0, 1.0]), r=20.0)
    else:
        det = hp.detector_grid((5, 5), 0.5)       # centred on (1, 1)
    sph = Sphere(n=1.59, r=r, center=c)
    if th == "ms1-tight":
        sc, theory = Spheres([sph]), Multisphere(eps=1e-10, qeps1=1e-9,
                                                 qeps2=1e-12)
    elif th == "mielens":
        sc, theory = sph, MieLens(0.8)
    else:
        sc, theory = sph, (Mie() if th == "mie" else Mie(False, False))
    with warnings.catch_warnings():
        warnings.simplefilter("ignore")
        if quantity == "field":
            v = calc_field(det, sc, N_MED, WL, (0.6, 0.8),
                           theory=theory).values
        else:
            v = calc_scat_matrix(det, sc, N_MED, WL, theory=theory).values
    v = np.asarray(v).ravel()
    return [float(x) for x in np.concatenate([v.real, v.imag])]


def _run_ladder(case, ck):
    from lib import pair_ladder
    th, dk = case["th"], case["det"]
    fps = []
    for quantity in ("field", "scatmat"):
        if th == "mielens" and (quantity == "scatmat" or
                                dk != "centred-grid"):
            continue
        fps.append(pair_ladder(
            ck, ["r=%r" % r for r in LADDER_R],
            lambda name, q=quantity: _ladder_op(th, dk, q, float(name[2:])),
            "size-ladder:" + quantity, tol=1e-9))
    return digest(*fps)


def run_case(case):
    ck = Checker()
    fp = {"mie": _run_mie, "ladder": _run_ladder, "far": _run_far, "j1zero": _run_j1zero, "ms": _run_ms, "msm": _run_msm,
          "reuse": _run_reuse,
          "layered": _run_layered, "layered_t": _run_layered_t}[
              case["kind"]](case, ck)
    return ck.result(fp=fp)


def coverage_extra(cases, results):
    kinds = {}
    for c in cases:
        kinds[c["kind"]] = kinds.get(c["kind"], 0) + 1
    return {"cases_by_kind": kinds, "theta": THETA, "phi": PHI,
            "polarization_deg": POLANG, "options": OPTS,
            "points_per_field_call": "len(kr-set)*%d" % (len(THETA) *
                                                          len(PHI))}

"""C17 -- propagation is a norm-bounded linear group action; fft/ifft inverse.

Bounded-exhaustive, executed on the real `holopy.core.process.fft/ifft` and
`holopy.propagate`:

* every image shape (nx, ny) in [2..9]^2 (quick: [2..6]^2) plus a list of
  large odd / even / mixed shapes up to 64x64;
* for every small shape the COMPLETE unit-impulse basis e_ij (real dtype) and
  i*e_ij (complex dtype) -- a linear map is determined by it --, one dense
  complex and one dense real image, pairs a*e_ij + b*e_kl; for the large
  shapes corner / edge / centre impulses and the dense images;
* pixel spacings on both sides of half the medium wavelength (lambda_m =
  0.4): 0.3 ("coarse": no evanescent frequency, not even on the diagonal of
  the frequency plane), 0.25 ("edge": between lambda_m/2 and lambda_m/sqrt 2),
  0.1 ("fine"), and (0.3, 0.45) with a shifted coordinate origin ("aniso");
* distances {1, -1, lambda_m/8, 10.5, -10.5, 1e3} and every spelling of
  zero, ordered pairs (d1, d2) over that alphabet, lists / tuples / arrays
  of distances, cfsp in {0, 1, 3}, gradient filter in {off, lambda_m}.

The default vector (coarse spacing, cfsp 0, filter off) carries the largest
pair sets on the complete basis; deviations in spacing / options carry
smaller pair sets (sizes are in the evidence).

Oracles are numpy (`fft2`/`fftshift`, `svd`) and the relations the property
states (identity at 0, group law, inverse at coarse sampling, linearity,
energy bound, list == stack of singles, coordinates / attrs kept, input
untouched).  Nothing is asserted about the frequency grid of the propagator
or about the evanescent mask.

Sub-checks: fft-accepts, fft-dims, fft-vs-numpy, ifft-accepts, ifft-dims,
ifft-inverse, ifft-coords, fft-input-unchanged (each also as *-noshift);
propagate-accepts, result-type, result-shape, input-unchanged,
coords-preserved, attrs-preserved, name-preserved, energy,
energy-operator-norm, d0-identity, group-law, inverse-coarse, linearity,
superposition, list-stack-size, list-z-coordinates, list-vs-single,
cfsp-consistent, gradient-filter-difference.
"""
import itertools

import numpy as np

from lib import Checker, digest, fp_xarray

PROPERTY = "C17"
RULE = ("one case = one (kind, image shape, pixel-spacing variant) block; "
        "kinds: fftinv (fft vs numpy, ifft(fft(a)) == a with coordinates, "
        "complete impulse basis), fftinv-noshift (same with shift=False, one "
        "block per dimension order), group (d=0 identity, P(d2)P(d1) == "
        "P(d1+d2) and P(-d)P(d) == 1 at coarse sampling on the complete "
        "impulse basis, operator norm <= 1 from the basis matrix with a "
        "direct witness call, superposition of the basis == dense image), "
        "linear (pairs a*e_ij + b*e_kl, i*e_ij, real/imaginary parts), list "
        "(list / tuple / ndarray distances == stack of single results, z "
        "labels), opts (cfsp, gradient filter); every propagate call is also "
        "checked for coordinates, attrs, name, input purity and (filter off) "
        "energy; all shapes x all alphabet values are enumerated, no "
        "sampling; a case is non-trivial when its fingerprint of observed "
        "values differs from other cases'")
ASSUMPTIONS = [
    "numpy.fft (fft2, fftshift) and numpy.linalg.svd are correct",
    "only the alphabets listed in coverage are explored (shapes up to 9x9 "
    "exhaustively with complete impulse bases, larger shapes with sparse "
    "impulses + dense images)",
    "the energy bound is asserted with the gradient filter off only: with "
    "the filter on the result is by definition the difference of two "
    "propagations (gain up to 2)",
    "P(-d)P(d) == identity (and pairs with d1+d2 == 0) is asserted only for "
    "spacings with (lam/2sx)^2 + (lam/2sy)^2 < 1, as the property states",
    "cfsp consistency is asserted with the filter off, the filter "
    "difference identity with cfsp = 0 (the documentation is silent on the "
    "combination)",
    "for a list of distances the slices are matched to distances by their z "
    "label; the order of the slices along z is recorded, not asserted",
    "ifft(fft(a)) coordinates are compared for images whose coordinates "
    "start at 0 (as load_image / detector_grid make them); one image with "
    "shifted axes is kept as a recorded known finding",
    "tolerances marked 'scaled' are multiplied by 1 + (sum of |distances| "
    "involved) / lambda_m: the rounding error of the phase 2 pi d / lambda",
]
# set >= 30x above the largest value observed over the thorough alphabet on a
# scratch tree carrying the three minimal repairs (see the report); "scaled"
# ones are per unit of (1 + sum|d|/lambda_m)
TOLERANCES = {
    "fft-vs-numpy": 1e-13,
    "ifft-inverse": 1e-13,
    "ifft-inverse-noshift": 1e-13,
    "ifft-coords": 1e-13,
    "coords-preserved": 1e-13,
    "energy": 1e-12,
    "energy-operator-norm": 1e-12,
    "group-law": 1e-13,            # scaled
    "inverse-coarse": 1e-13,       # scaled
    "linearity": 1e-13,            # scaled
    "superposition": 1e-13,        # scaled
    "list-vs-single": 1e-13,       # scaled
    "cfsp-consistent": 1e-13,      # scaled
    "gradient-filter-difference": 1e-13,   # scaled
    "chain-after-kwargs": 1e-13,   # scaled
}
TIMEOUT = 600

LAM_ILLUM = 0.532
N_MED = 1.33
LAM_M = LAM_ILLUM / N_MED           # 0.4

# name -> (spacing, coordinate origin)
SPACINGS = {
    "coarse": (0.3, (0.0, 0.0)),
    "fine": (0.1, (0.0, 0.0)),
    "edge": (0.25, (0.0, 0.0)),
    "aniso": ((0.3, 0.45), (1.5, -2.25)),
}
SP_TIER = {"quick": ["coarse", "fine", "aniso"],
           "thorough": ["coarse", "fine", "edge", "aniso"]}

D_ALL = [1.0, -1.0, LAM_M / 8, 10.5, -10.5, 1e3]
PAIRS = {
    "all": [(a, b) for a in D_ALL for b in D_ALL],
    "core": [(1.0, 1.0), (1.0, -1.0), (-1.0, LAM_M / 8),
             (LAM_M / 8, LAM_M / 8), (10.5, -10.5), (-10.5, 1.0),
             (1e3, -10.5), (10.5, 1e3)],
    "mini": [(1.0, -1.0), (LAM_M / 8, 10.5), (-10.5, 1e3)],
    "five": [(1.0, -1.0), (LAM_M / 8, 10.5), (-10.5, 1e3), (1.0, 1.0),
             (-1.0, LAM_M / 8)],
    "six": [(1.0, -1.0), (LAM_M / 8, 10.5), (-10.5, 1e3), (1.0, 1.0),
            (-1.0, LAM_M / 8), (10.5, -10.5)],
}
COEFS = [(1.0, 1.0), (2.0, -3.0), (1 + 2j, -0.5j), (1e6, 1e-6)]
LISTS = [[1, 2], [0, 1], [-1, 0, 1], [1.0], [0], [2, 1], [1, 0],
         [LAM_M / 8, 1e3, -10.5], [10.5, 0.0, -10.5, 1.0],
         # long stacks (more planes than any block size one might choose)
         [0.25 * (k + 1) for k in range(17)],
         [0.5 * (k - 16) for k in range(33) if k != 16],
         # nearly, not exactly, evenly spaced (differences equal to 1e-6)
         [10, 20, 30.00005], [-40, -30.00003, -20, -10]]
OPT_COMBOS = [(0, False), (1, False), (3, False),
              (0, LAM_M), (1, LAM_M), (3, LAM_M)]
BIG = {"quick": [(15, 16), (32, 31), (63, 64)],
       "thorough": [(15, 15), (16, 16), (15, 16), (16, 15), (31, 31),
                    (32, 32), (31, 32), (32, 31), (63, 63), (64, 64),
                    (63, 64), (64, 63), (2, 64), (63, 2)]}
LAYOUTS = ["zxy", "xyz", "xy"]
MAXV = 4          # violations recorded per check and case


def _small(tier):
    lo, hi = (2, 6) if tier == "quick" else (2, 9)
    return [(a, b) for a in range(lo, hi + 1) for b in range(lo, hi + 1)]


def _sid(shape):
    return "%dx%d" % tuple(shape)


def _is_coarse(spacing):
    sx, sy = (spacing, spacing) if np.isscalar(spacing) else spacing
    return (LAM_M / (2 * sx)) ** 2 + (LAM_M / (2 * sy)) ** 2 < 1


# --------------------------------------------------------------------------
# case list
# --------------------------------------------------------------------------
def cases(tier, seed):
    out = []
    q = tier == "quick"
    small = _small(tier)
    shapes = [(s, "full") for s in small] + [(s, "sparse") for s in BIG[tier]]
    for s, mode in shapes:
        n = s[0] * s[1] if mode == "full" else 60
        out.append({"id": "fftinv:shape=%s" % _sid(s), "kind": "fftinv",
                    "shape": list(s), "mode": mode, "tier": tier,
                    "_cost": 0.5 * n + 10})
    # an image whose axes do not start at 0 (a region cut out of a frame)
    out.append({"id": "propagate:frequency-grid", "kind": "freqgrid",
                "_cost": 5})
    out.append({"id": "fftinv:one-dimensional", "kind": "fft1d",
                "_cost": 1})
    out.append({"id": "fftinv:shifted-origin", "kind": "fftorigin",
                "_cost": 1})
    for lay in LAYOUTS:
        out.append({"id": "fftinv-noshift:layout=%s" % lay,
                    "kind": "noshift", "layout": lay, "tier": tier,
                    "_cost": 10 * len(shapes)})
    # ---- group: default vector (coarse) gets the large pair sets, the
    # spacing deviations smaller ones
    for s, mode in shapes:
        sps = SP_TIER[tier] if mode == "full" else SP_TIER[tier][:2]
        for i, sp in enumerate(sps):
            default = (i == 0)
            m = mode
            if default:
                bp = "five" if q else "six"
                pp = [["all", 1], ["core", 2]] if q else \
                    [["all", 2], ["core", 4]]
            else:
                bp = "mini"
                pp = [["core", 2]] if q else [["core", 4]]
                if sp in ("edge", "aniso"):
                    m = "probes"
            n = s[0] * s[1] if m == "full" else (11 if m == "sparse" else 0)
            nb = {"six": 15, "five": 13, "mini": 8}[bp]
            c = {"id": "group:shape=%s:sp=%s" % (_sid(s), sp),
                 "kind": "group", "shape": list(s), "mode": m, "sp": sp,
                 "tier": tier, "bpairs": bp, "ppairs": pp}
            c["_cost"] = n * (nb + 0.5) + sum(
                (61 if nm == "all" else 20) * k for nm, k in pp)
            out.append(c)
    # ---- linear
    for s, mode in shapes:
        for i, sp in enumerate(["coarse"] if q else ["coarse", "fine"]):
            m = mode if i == 0 else "sparse"
            n = s[0] * s[1] if m == "full" else 11
            ds = [1.0, -10.5] if (not q and m == "sparse") else [1.0]
            ncoef = 2 if q else (len(COEFS) if i == 0 else 2)
            out.append({"id": "linear:shape=%s:sp=%s" % (_sid(s), sp),
                        "kind": "linear", "shape": list(s), "mode": m,
                        "sp": sp, "tier": tier, "ds": ds, "ncoef": ncoef,
                        "_cost": n * (2 + 2 * ncoef) + n * 4 * (len(ds) - 1)})
    # ---- lists: default (coarse, cfsp 0, filter off) + one deviation
    if q:
        blocks = [["coarse", 0, False, 2, True], ["coarse", 3, LAM_M, 2, False],
                  ["fine", 0, False, 2, False]]
    else:
        blocks = [["coarse", 0, False, 3, True], ["coarse", 3, LAM_M, 3, False],
                  ["coarse", 3, False, 3, False], ["coarse", 0, LAM_M, 3, False],
                  ["fine", 0, False, 2, False], ["fine", 3, LAM_M, 2, False],
                  ["aniso", 0, False, 2, False]]
    for s, mode in shapes:
        out.append({"id": "list:shape=%s" % _sid(s), "kind": "list",
                    "shape": list(s), "mode": mode, "tier": tier,
                    "blocks": blocks,
                    "_cost": sum(17 * b[3] for b in blocks) + 18})
    # ---- options
    for s, mode in shapes:
        for i, sp in enumerate(["coarse"] if q else ["coarse", "fine"]):
            m = mode if i == 0 else "probes"
            n = s[0] * s[1] if m == "full" else (11 if m == "sparse" else 0)
            fullc = [0, 2, 3, 5]
            out.append({"id": "opts:shape=%s:sp=%s" % (_sid(s), sp),
                        "kind": "opts", "shape": list(s), "mode": m,
                        "sp": sp, "tier": tier, "full_combos": fullc,
                        "_cost": (len(fullc) + 1) * n + 120})
    # ---- lengths in SI units (added by the lead): metre-scale numbers, so
    # that nanometre distances are ~1e-9
    out.append({"id": "si-units", "kind": "siunits", "tier": tier,
                "_cost": 40})
    # ---- histories (added by the lead): propagations that differ only in
    # one optical / geometric quantity, issued in one interpreter; each must
    # equal the same call in a pristine interpreter (a transfer function
    # remembered under a key that omits one of these would show here)
    from lib import fork_call
    refs = {}
    for name in HOPS:
        st, val = fork_call(_hop, name)
        refs[name] = val if st == "ok" else "FAILED:%s:%r" % (st, val)
    L = 2 if q else 3
    import itertools as _it
    for n in range(1, L + 1):
        for seq in _it.product(list(HOPS), repeat=n):
            out.append({"id": "hist:" + ">".join(seq), "kind": "history",
                        "seq": list(seq), "tier": tier, "_cost": 5 * n,
                        "ref": {o: refs[o] for o in seq}})
    return _balance(out)


HOPS = {  # name -> (shape, spacing, medium index, wavelength, d, cfsp, gf)
    "base": ((6, 5), 0.3, 1.33, 0.532, 2.0, 0, False),
    "medium": ((6, 5), 0.3, 1.0, 0.532, 2.0, 0, False),
    "wavelength": ((6, 5), 0.3, 1.33, 0.405, 2.0, 0, False),
    "distance": ((6, 5), 0.3, 1.33, 0.532, 2.5, 0, False),
    "spacing": ((6, 5), 0.25, 1.33, 0.532, 2.0, 0, False),
    "shape": ((5, 6), 0.3, 1.33, 0.532, 2.0, 0, False),
    "cfsp": ((6, 5), 0.3, 1.33, 0.532, 2.0, 2, False),
    "list": ((6, 5), 0.3, 1.33, 0.532, [2.0, 0, -1.0], 0, False),
}


def _hop(name):
    import holopy as hp
    from holopy.core.metadata import data_grid
    shape, sp, nm, wl, d, cfsp, gf = HOPS[name]
    i, j = np.mgrid[0:shape[0], 0:shape[1]].astype(float)
    v = np.cos(0.7 * i + 0.2) + 1j * np.sin(0.4 * j * i + 0.1) + 0.05 * j
    im = data_grid(v, spacing=sp, medium_index=nm, illum_wavelen=wl)
    r = hp.propagate(im, d, cfsp=cfsp, gradient_filter=gf)
    r = r.transpose(*sorted(r.dims))
    return digest(np.ascontiguousarray(r.values),
                  [list(map(float, r[c].values)) for c in sorted(r.dims)])


def _run_siunits(case, ck):
    import holopy as hp
    from holopy.core.metadata import data_grid
    acc = []
    for shape in ((6, 5), (5, 8)):
        i, j = np.mgrid[0:shape[0], 0:shape[1]].astype(float)
        v = np.cos(0.7 * i + 0.2) + 1j * np.sin(0.4 * j * i + 0.1) + 0.05 * j
        um = data_grid(v, spacing=0.3, medium_index=1.33, illum_wavelen=0.532)
        si = data_grid(v, spacing=0.3e-6, medium_index=1.33,
                       illum_wavelen=0.532e-6)
        for ds in ([2.0, 0.005, -1.0], [0.004, 0.002], [0, 0.005, 1.0],
                   [-3.0, 0.004, 0.5, 12.0]):
            dsi = [d * 1e-6 for d in ds]
            stack = hp.propagate(si, dsi)
            ck.trans += 1
            if stack.sizes.get("z") != len(ds):
                _fail(ck, "list-vs-single", "SI units: asked for %d "
                      "distances %r, got %d slices (z=%r)" %
                      (len(ds), dsi, stack.sizes.get("z"),
                       stack.z.values.tolist()))
                continue
            for d_um, d_si in zip(ds, dsi):
                sl = stack.sel(z=d_si).transpose("x", "y").values
                one = hp.propagate(si, d_si)
                one = one.isel(z=0).transpose("x", "y").values \
                    if "z" in one.dims else one.transpose("x", "y").values
                ref = hp.propagate(um, d_um)
                ref = ref.isel(z=0).transpose("x", "y").values \
                    if "z" in ref.dims else ref.transpose("x", "y").values
                ck.trans += 2
                sc = np.abs(v).max()
                e1 = float(np.abs(sl - one).max() / sc)
                e2 = float(np.abs(one - ref).max() / sc)
                ck.metric("si-list-vs-single", e1)
                ck.metric("si-vs-micrometres", e2)
                if e1 > 1e-12:
                    _fail(ck, "list-vs-single", "SI units: slice d=%g of "
                          "the list %r differs from the single-distance "
                          "result by %.3g" % (d_si, dsi, e1))
                if e2 > 1e-9:
                    _fail(ck, "unit-agnostic", "propagating by %g m (SI "
                          "image) differs from %g um (micrometre image) by "
                          "%.3g" % (d_si, d_um, e2))
                acc.append(np.round(sl.ravel()[:12], 9))
    return digest(*acc), {}


def _run_history(case, ck):
    outs = []
    for i, name in enumerate(case["seq"]):
        ref = case["ref"][name]
        if str(ref).startswith("FAILED"):
            _fail(ck, "pristine-reference", "%s failed in a pristine "
                  "interpreter: %s" % (name, ref))
            return "ref-failed", {}
        got = _hop(name)
        ck.trans += 1
        if got != ref:
            _fail(ck, "history-independent", "step %d (%s) of %s gives a "
                  "different result than the same call in a pristine "
                  "interpreter" % (i + 1, name, ">".join(case["seq"])))
        outs.append(got)
    return digest(*outs), {}


def _balance(cs, width=16):
    """order the cases so that static sharding (case i -> worker i mod 16)
    gives every worker about the same estimated work: descending cost, rows
    of 16 in alternating direction.  Purely a function of the case list."""
    cs = sorted(cs, key=lambda c: (-c["_cost"], c["id"]))
    out = []
    for r, i in enumerate(range(0, len(cs), width)):
        row = cs[i:i + width]
        if r % 2:
            row = row[::-1]
        out.extend(row)
    return out


# --------------------------------------------------------------------------
# helpers
# --------------------------------------------------------------------------
class _Abort(Exception):
    def __init__(self, outcome):
        Exception.__init__(self, outcome)
        self.outcome = outcome


def _fail(ck, check, msg, **kw):
    cnt = ck.__dict__.setdefault("_cnt", {})
    cnt[check] = cnt.get(check, 0) + 1
    if cnt[check] <= MAXV:
        d = {"check": check, "msg": msg}
        d.update(kw)
        ck.viol.append(d)


def _finish_counts(ck):
    for check, n in sorted(ck.__dict__.get("_cnt", {}).items()):
        if n > MAXV:
            ck.viol.append({"check": check,
                            "msg": "(%d further inputs of this case fail "
                                   "the same sub-check)" % (n - MAXV)})


def _short(a, n=6):
    a = np.asarray(a).ravel()
    s = ", ".join("%r" % complex(v) if np.iscomplexobj(a) else "%r" % float(v)
                  for v in a[:n])
    return "[%s%s]" % (s, ", ...(%d)" % a.size if a.size > n else "")


def _holopy_error(e):
    return (type(e).__module__ or "").startswith("holopy")


def _dense_c(nx, ny):
    j, k = np.meshgrid(np.arange(nx), np.arange(ny), indexing="ij")
    return (np.cos(1.3 * j + 0.7 * k * k + 0.2) + 0.25) + \
        1j * (np.sin(0.9 * j * j - 1.1 * k + 0.3) - 0.5)


def _dense_r(nx, ny):
    j, k = np.meshgrid(np.arange(nx), np.arange(ny), indexing="ij")
    return 1.0 + 0.5 * np.cos(2.1 * j + 0.4 * k * k) + 0.1 * j - 0.05 * k


def _attr_items(attrs):
    import xarray as xr
    out = {}
    for k, v in attrs.items():
        if v is None:
            continue
        if isinstance(v, xr.DataArray):
            out[str(k)] = "xr:" + fp_xarray(v)
        elif isinstance(v, np.ndarray):
            out[str(k)] = "np:" + digest(v)
        else:
            out[str(k)] = repr(v)
    return out


def _dkey(d):
    if d is False or d is None:
        return "off"
    return repr(float(d))


def _zeros():
    return [0, 0.0, -0.0, np.float64(0.0)]


class Ctx:
    """images of one shape / spacing variant + cached, checked propagate
    calls."""

    def __init__(self, ck, shape, spname):
        self.ck = ck
        self.shape = (int(shape[0]), int(shape[1]))
        self.spname = spname
        self.spacing, self.origin = SPACINGS[spname]
        self.coarse = _is_coarse(self.spacing)
        self._vals = {}
        self._img = {}
        self.fp0 = {}
        self.raw = {}
        self.done = set()
        self.acc = []
        self.info = {"skipped_zero_sum_not_coarse": 0, "refused": 0,
                     "list_order_differs": 0, "list_calls": 0,
                     "propagate_calls": 0, "basis_matrices": 0}

    # ---- images ----------------------------------------------------------
    def basis(self, mode):
        nx, ny = self.shape
        if mode == "full":
            return ["e(%d,%d)" % (i, j) for i in range(nx) for j in range(ny)]
        if mode == "probes":
            return []
        ii = sorted({0, nx // 2, nx - 1})
        jj = sorted({0, ny // 2, ny - 1})
        out = ["e(%d,%d)" % (i, j) for i in ii for j in jj]
        extra = "e(%d,%d)" % (min(1, nx - 1), max(ny - 2, 0))
        if extra not in out:
            out.append(extra)
        return out

    def probes(self, n=4):
        nx, ny = self.shape
        out = []
        for nm in ["dense_c", "dense_r", "e(0,0)",
                   "e(%d,%d)" % (nx // 2, ny // 2)]:
            if nm not in out:
                out.append(nm)
        return out[:n]

    def define(self, name, vals):
        self._vals[name] = np.array(vals)

    def values(self, name):
        if name in self._vals:
            return self._vals[name]
        nx, ny = self.shape
        if name.startswith("e(") or name.startswith("ie("):
            imag = name.startswith("ie(")
            i, j = (int(t) for t in name[name.index("(") + 1:-1].split(","))
            v = np.zeros((nx, ny), dtype=complex if imag else float)
            v[i, j] = 1j if imag else 1.0
        elif name == "dense_c":
            v = _dense_c(nx, ny)
        elif name == "dense_r":
            v = _dense_r(nx, ny)
        elif name == "dense_c.re":
            v = np.ascontiguousarray(_dense_c(nx, ny).real)
        elif name == "dense_c.im":
            v = np.ascontiguousarray(_dense_c(nx, ny).imag)
        else:
            raise KeyError(name)
        self._vals[name] = v
        return v

    def mk(self, vals, with_metadata=True):
        from holopy.core.metadata import data_grid
        kw = dict(medium_index=N_MED, illum_wavelen=LAM_ILLUM) \
            if with_metadata else {}
        a = data_grid(np.array(vals), spacing=self.spacing,
                      illum_polarization=(1, 0), noise_sd=0.05, name="c17",
                      **kw)
        a.attrs["c17_tag"] = "keep-me"
        if tuple(self.origin) != (0.0, 0.0):
            a = a.assign_coords(x=a.x.values + self.origin[0],
                                y=a.y.values + self.origin[1])
        return a

    def image(self, name):
        if name not in self._img:
            self._img[name] = self.mk(self.values(name))
            self.fp0[name] = fp_xarray(self._img[name])
        return self._img[name]

    def label(self, name):
        return "image %s %s sp=%s" % (_sid(self.shape), name, self.spname)

    # ---- checked call ----------------------------------------------------
    def call(self, a, d, cfsp=0, gf=False, label="", fp_before=None,
             meta_kwargs=False):
        import xarray as xr
        from holopy import propagate
        ck = self.ck
        desc = "propagate(%s, d=%r, cfsp=%r, gradient_filter=%r%s)" % (
            label, d, cfsp, gf,
            ", medium_index=, illum_wavelen=" if meta_kwargs else "")
        kw = dict(medium_index=N_MED, illum_wavelen=LAM_ILLUM) \
            if meta_kwargs else {}
        if fp_before is None:
            fp_before = fp_xarray(a)
        ck.trans += 1
        self.info["propagate_calls"] += 1
        try:
            r = propagate(a, d, cfsp=cfsp, gradient_filter=gf, **kw)
        except Exception as e:
            if _holopy_error(e):
                self.info["refused"] += 1
                raise _Abort("refused")
            _fail(ck, "propagate-accepts", "%s raised %s: %s" %
                  (desc, type(e).__name__, e))
            raise _Abort("library-exception")
        if not isinstance(r, xr.DataArray) or \
                not {"x", "y"} <= set(r.dims) or \
                not set(r.dims) <= {"x", "y", "z"}:
            _fail(ck, "result-type", "%s returned %s with dims %r" %
                  (desc, type(r).__name__, getattr(r, "dims", None)))
            raise _Abort("bad-result")
        if fp_xarray(a) != fp_before:
            _fail(ck, "input-unchanged", "%s modified its input" % desc)
        # pixel coordinates
        for ax in ("x", "y"):
            ca, cr = np.asarray(a[ax].values, float), \
                np.asarray(r[ax].values, float)
            if ca.shape != cr.shape:
                _fail(ck, "coords-preserved", "%s: %s has %d points, input "
                      "%d" % (desc, ax, cr.size, ca.size))
                raise _Abort("bad-result")
            sc = max(np.abs(ca).max(), np.abs(np.diff(ca)).min())
            e = float(np.abs(ca - cr).max() / sc)
            ck.metric("coords-preserved", e)
            if not e <= TOLERANCES["coords-preserved"]:
                _fail(ck, "coords-preserved", "%s: %s coordinates moved by "
                      "%.3e (relative)" % (desc, ax, e),
                      obs=_short(cr), exp=_short(ca))
        # metadata
        ia, ir = _attr_items(a.attrs), _attr_items(r.attrs)
        for k in kw:            # metadata given in the call may be recorded
            if k not in ia:
                ir.pop(k, None)
        if ia != ir:
            diff = sorted(k for k in set(ia) | set(ir)
                          if ia.get(k) != ir.get(k))
            _fail(ck, "attrs-preserved", "%s: attrs differ in %r" %
                  (desc, diff))
        if r.name != a.name:
            _fail(ck, "name-preserved", "%s: name %r became %r" %
                  (desc, a.name, r.name))
        # energy
        if not gf:
            e_in = float((np.abs(np.asarray(a.values)) ** 2).sum())
            pl = self.planes(r)
            for k in range(pl.shape[0]):
                e_out = float((np.abs(pl[k]) ** 2).sum())
                ex = e_out / e_in - 1 if e_in > 0 else e_out
                ck.metric("energy", max(ex, 0.0))
                if not ex <= TOLERANCES["energy"]:
                    _fail(ck, "energy", "%s: total energy grew from %r to "
                          "%r (slice %d)" % (desc, e_in, e_out, k))
        return r

    @staticmethod
    def planes(r):
        """values as (nz, nx, ny)"""
        if "z" in r.dims:
            return np.asarray(r.transpose("z", "x", "y").values)
        return np.asarray(r.transpose("x", "y").values)[None]

    def plane(self, r, desc=""):
        p = self.planes(r)
        if p.shape != (1,) + self.shape:
            _fail(self.ck, "result-shape", "%s: result has shape %r for a "
                  "%s image and one distance" % (desc, p.shape,
                                                 _sid(self.shape)))
            raise _Abort("bad-result")
        return p[0]

    def P(self, name, d, cfsp=0, gf=False):
        key = (name, _dkey(d), cfsp, _dkey(gf))
        if key not in self.raw:
            a = self.image(name)
            self.raw[key] = self.call(a, d, cfsp, gf, label=self.label(name),
                                      fp_before=self.fp0[name])
        return self.raw[key]

    def Pv(self, name, d, cfsp=0, gf=False):
        return self.plane(self.P(name, d, cfsp, gf),
                          "propagate(%s, %r)" % (self.label(name), d))

    # ---- comparison ------------------------------------------------------
    def cmp(self, check, got, exp, scale, phase, what):
        got, exp = np.asarray(got), np.asarray(exp)
        if got.shape != exp.shape:
            raw = float("inf")
        else:
            raw = float(np.abs(got - exp).max()) / (scale if scale else 1.0)
            if raw != raw:
                raw = float("inf")
        e = raw / (1.0 + phase)
        self.ck.metric(check, e)
        if not e <= TOLERANCES[check]:
            _fail(self.ck, check, "%s: max discrepancy %.3e of the input "
                  "scale (%.3e per unit of 1+sum|d|/lambda, tolerance %.1e)"
                  % (what, raw, e, TOLERANCES[check]),
                  obs=_short(got), exp=_short(exp))
            return False
        return True

    def matrix(self, basis, d, cfsp=0, gf=False):
        self.info["basis_matrices"] += 1
        return np.stack([self.Pv(nm, d, cfsp, gf).ravel() for nm in basis],
                        axis=1)

    def opnorm(self, M, d, cfsp=0):
        """largest singular value of the basis matrix <= 1, plus a direct
        call on the worst image (the universal energy check decides it)."""
        if not np.all(np.isfinite(M)):
            _fail(self.ck, "energy-operator-norm",
                  "%s sp=%s d=%r cfsp=%r: propagated unit impulses contain "
                  "non-finite values" % (_sid(self.shape), self.spname, d,
                                         cfsp))
            return
        u, s, vh = np.linalg.svd(M)
        smax = float(s[0])
        self.ck.metric("energy-operator-norm", max(smax - 1.0, 0.0))
        v = vh[0].conj().reshape(self.shape)
        name = "sv(d=%r,cfsp=%r)" % (d, cfsp)
        self.define(name, v)
        got = self.Pv(name, d, cfsp, False)
        if not smax - 1.0 <= TOLERANCES["energy-operator-norm"]:
            _fail(self.ck, "energy-operator-norm",
                  "%s sp=%s d=%r cfsp=%r: largest singular value of the "
                  "propagation matrix is %r; its singular image has energy "
                  "1 -> %r" % (_sid(self.shape), self.spname, d, cfsp, smax,
                               float((np.abs(got) ** 2).sum())))
        # the image predicted by linearity
        self.cmp("superposition", got.ravel(), M @ v.ravel(), 1.0,
                 abs(d) / LAM_M, "%s sp=%s d=%r: P(singular image) vs basis "
                 "matrix" % (_sid(self.shape), self.spname, d))


# --------------------------------------------------------------------------
# fft / ifft
# --------------------------------------------------------------------------
def _layout(a, lay):
    import xarray as xr
    if lay == "zxy":
        return a
    if lay == "xyz":
        return a.transpose("x", "y", "z")
    if lay == "xy":
        return a.isel(z=0, drop=True)
    if lay == "stack":
        return xr.concat([a, 2 * a.assign_coords(z=[1.0]),
                          3j * a.assign_coords(z=[2.5])], dim="z")
    raise KeyError(lay)


def _roundtrip(ck, v, shift, tag, acc, spacing):
    import xarray as xr
    from holopy.core.process import fft, ifft
    sfx = "" if shift else "-noshift"
    desc = "%s shift=%r" % (tag, shift)
    fp0 = fp_xarray(v)
    ax = [v.dims.index("x"), v.dims.index("y")]
    vv = np.asarray(v.values)
    ref = np.fft.fft2(vv, axes=ax)
    if shift:
        ref = np.fft.fftshift(ref, axes=ax)
    ck.trans += 1
    try:
        f = fft(v, shift=shift)
    except Exception as e:
        _fail(ck, "fft-accepts" + sfx, "fft(%s) raised %s: %s" %
              (desc, type(e).__name__, e))
        return
    exp_dims = tuple({"x": "m", "y": "n"}.get(k, k) for k in v.dims)
    if not isinstance(f, xr.DataArray) or tuple(f.dims) != exp_dims or \
            f.shape != v.shape:
        _fail(ck, "fft-dims" + sfx, "fft(%s) has dims %r shape %r, expected "
              "%r %r" % (desc, getattr(f, "dims", None),
                         getattr(f, "shape", None), exp_dims, v.shape))
        return
    sc = float(np.abs(ref).max()) or 1.0
    e = float(np.abs(np.asarray(f.values) - ref).max()) / sc
    ck.metric("fft-vs-numpy", e)
    if not e <= TOLERANCES["fft-vs-numpy"]:
        _fail(ck, "fft-vs-numpy" + sfx, "fft(%s) differs from numpy "
              "fft2%s by %.3e (relative)" %
              (desc, "+fftshift" if shift else "", e),
              obs=_short(f.values), exp=_short(ref))
    fpf = fp_xarray(f)
    ck.trans += 1
    try:
        b = ifft(f, shift=shift)
    except Exception as e:
        _fail(ck, "ifft-accepts" + sfx, "ifft(fft(%s)) raised %s: %s" %
              (desc, type(e).__name__, e))
        return
    if not isinstance(b, xr.DataArray) or tuple(b.dims) != tuple(v.dims) \
            or b.shape != v.shape:
        _fail(ck, "ifft-dims" + sfx, "ifft(fft(%s)) has dims %r shape %r" %
              (desc, getattr(b, "dims", None), getattr(b, "shape", None)))
        return
    sc = float(np.abs(vv).max()) or 1.0
    e = float(np.abs(np.asarray(b.values) - vv).max()) / sc
    name = "ifft-inverse" + sfx
    ck.metric(name, e)
    if not e <= TOLERANCES[name]:
        _fail(ck, name, "ifft(fft(a)) != a for %s: max error %.3e of max|a|"
              % (desc, e), obs=_short(b.values), exp=_short(vv))
    # coordinates
    for k in v.coords:
        if k not in b.coords:
            _fail(ck, "ifft-coords" + sfx, "ifft(fft(%s)) lost coordinate %r"
                  % (desc, k))
            continue
        ca, cb = np.asarray(v[k].values), np.asarray(b[k].values)
        if ca.shape != cb.shape:
            _fail(ck, "ifft-coords" + sfx, "coordinate %r changed length "
                  "for %s" % (k, desc))
            continue
        if k in ("x", "y"):
            s_ = max(float(np.abs(ca).max()),
                     float(np.abs(np.diff(ca)).min()))
            e = float(np.abs(ca.astype(float) - cb.astype(float)).max()) / s_
            ck.metric("ifft-coords", e)
            if not e <= TOLERANCES["ifft-coords"]:
                _fail(ck, "ifft-coords" + sfx, "ifft(fft(a)).%s differs "
                      "from a.%s by %.3e (relative) for %s" % (k, k, e, desc),
                      obs=_short(cb), exp=_short(ca))
        elif not np.array_equal(ca, cb):
            _fail(ck, "ifft-coords" + sfx, "coordinate %r changed for %s" %
                  (k, desc), obs=_short(cb), exp=_short(ca))
    if fp_xarray(v) != fp0:
        _fail(ck, "fft-input-unchanged" + sfx, "fft/ifft modified the image "
              "%s" % desc)
    if fp_xarray(f) != fpf:
        _fail(ck, "fft-input-unchanged" + sfx, "ifft modified its input for "
              "%s" % desc)
    acc.append(np.round(np.asarray(f.values).ravel()[:32], 9))
    acc.append(np.round(np.asarray(b.values).ravel()[:32], 9))


def _run_fftinv(case, ck):
    tier = case["tier"]
    acc = []
    n_img = 0
    for si, sp in enumerate(SP_TIER[tier]):
        cx = Ctx(ck, case["shape"], sp)
        cx.origin = (0.0, 0.0)
        nx, ny = cx.shape
        reduced = ["dense_c", "dense_r"] + cx.basis("sparse")[:3] + \
            ["ie(%d,%d)" % (nx - 1, ny - 1)]
        for lay in LAYOUTS + ["stack"]:
            if si == 0 and lay == "zxy":
                b = cx.basis(case["mode"])
                names = b + ["i" + nm for nm in b] + ["dense_c", "dense_r"]
            else:
                names = reduced
            for nm in names:
                v = _layout(cx.image(nm), lay)
                _roundtrip(ck, v, True, "%s layout=%s" % (cx.label(nm), lay),
                           acc, cx.spacing)
                n_img += 1
                if nm == "dense_c":
                    # the same image in other units of amplitude
                    for ex in (-60, 60):
                        w = v.copy(data=np.asarray(v.values) * 2.0 ** ex)
                        _roundtrip(ck, w, True, "2^%d * %s layout=%s" %
                                   (ex, cx.label(nm), lay), acc, cx.spacing)
                        n_img += 1
    return digest(*acc), {"fft_images": n_img}


def _run_freqgrid(case, ck):
    """anchors for the frequencies the transfer function is evaluated at
    (the group / linearity / energy statements hold for ANY unitary
    convolution and cannot see them): the labels fft attaches to its bins
    are those of the DFT; a uniform image is a plane wave along the axis
    and only acquires the phase of that wave; the field of a real image
    propagated backwards is the conjugate of the one propagated forwards"""
    import holopy as hp
    from holopy.core.process import fft
    from holopy.core.metadata import data_grid
    acc = []
    rng_img = lambda nx, ny: np.cos(0.37 * np.arange(nx * ny) ** 1.3).reshape(
        nx, ny) + 1.5
    for nx, ny in ((8, 8), (7, 7), (2, 2), (6, 9), (16, 15), (32, 32)):
        for sp in (0.3, (0.3, 0.45)):
            sx, sy = (sp, sp) if np.isscalar(sp) else sp
            im = data_grid(rng_img(nx, ny), spacing=sp, medium_index=N_MED,
                           illum_wavelen=LAM_ILLUM, illum_polarization=(1, 0))
            what = "%dx%d image, spacing %r" % (nx, ny, sp)
            for shift in (True, False):
                f = fft(im, shift=shift)
                ck.trans += 1
                for dim, n, s_ in (("m", nx, sx), ("n", ny, sy)):
                    ref = np.fft.fftfreq(n, s_)
                    if shift:
                        ref = np.fft.fftshift(ref)
                    got = np.asarray(f[dim].values, dtype=float)
                    e = float(np.abs(got - ref).max() * s_)
                    if not e <= 1e-12:
                        _fail(ck, "fft-frequencies", "fft(%s, shift=%r): bins "
                              "along %s are labelled %s, the DFT frequencies "
                              "are %s" % (what, shift, dim,
                                          _short(got), _short(ref)))
            for d in (5.0, -2.5):
                # uniform image
                u = im.copy(data=np.full(im.shape, 2.0))
                p = np.asarray(hp.propagate(u, d).values).ravel()
                ck.trans += 1
                k = 2 * np.pi * N_MED / LAM_ILLUM
                ph = np.angle(p / 2.0)
                e = float(min(np.abs(np.angle(np.exp(1j * (ph - k * d)))).max(),
                              np.abs(np.angle(np.exp(1j * (ph + k * d)))).max())
                          + np.abs(np.abs(p) - 2.0).max())
                if not e <= 1e-9:
                    _fail(ck, "plane-wave", "propagate(uniform %s, %g): a "
                          "uniform image must come back uniform with the phase "
                          "+-k d = %.4f of a plane wave along the axis; got "
                          "phases %s, moduli %s" %
                          (what, d, np.angle(np.exp(1j * k * d)),
                           _short(np.round(ph[:4], 4)),
                           _short(np.round(np.abs(p[:4]), 6))))
                # twin identity for a real image
                a = np.asarray(hp.propagate(im, d).values)
                b = np.asarray(hp.propagate(im, -d).values)
                ck.trans += 2
                e = float(np.abs(b - np.conj(a)).max() / np.abs(a).max())
                if not e <= 1e-12:
                    _fail(ck, "twin-image", "%s (real): propagate(-%g) differs "
                          "from conj(propagate(%g)) by %.2e" % (what, d, d, e))
                acc.append(np.round(a.ravel()[:16], 9))
    return digest(*acc), {"freqgrid_images": 12}


def _run_fft1d(case, ck):
    """one-dimensional arrays (a line cut through an image), which fft and
    ifft document to accept: the inverse of the forward transform"""
    from holopy.core.process import fft, ifft
    acc = []
    for n in (1, 2, 3, 4, 5, 8, 9, 16, 31):
        a = np.cos(0.7 * np.arange(n)) + 1j * np.sin(0.3 * np.arange(n) ** 2)
        for shift in (True, False):
            try:
                f = fft(a, shift=shift)
                b = ifft(f, shift=shift)
                ck.trans += 2
            except Exception as e:
                _fail(ck, "fft-accepts", "fft / ifft of a 1-d array of "
                      "length %d (shift=%r) raised %s: %s" %
                      (n, shift, type(e).__name__, e))
                continue
            ref = np.fft.fft(a)
            if shift:
                ref = np.fft.fftshift(ref)
            e = float(np.abs(np.asarray(f) - ref).max())
            if not e <= 1e-12:
                _fail(ck, "fft-vs-numpy", "fft of a 1-d array of length %d "
                      "(shift=%r) differs from numpy's by %.2e" %
                      (n, shift, e))
            e = float(np.abs(np.asarray(b) - a).max())
            if not (np.shape(b) == a.shape and e <= 1e-12):
                _fail(ck, "ifft-inverse", "ifft(fft(a)) != a for a 1-d "
                      "array of length %d (shift=%r): max error %.2e" %
                      (n, shift, e))
            acc.append(np.round(ref, 9))
    return digest(*acc), {"fft_images": 18}


def _run_fftorigin(case, ck):
    acc = []
    cx = Ctx(ck, (4, 5), "aniso")          # origin (1.5, -2.25)
    v = _layout(cx.image("dense_c"), "zxy")
    _roundtrip(ck, v, True, "%s axes starting at (1.5, -2.25)" %
               cx.label("dense_c"), acc, cx.spacing)
    return digest(*acc), {"fft_images": 1}


def _run_noshift(case, ck):
    tier = case["tier"]
    lay = case["layout"]
    acc = []
    n_img = 0
    for s in _small(tier) + BIG[tier]:
        for sp in SP_TIER[tier][:2]:
            cx = Ctx(ck, s, sp)
            nx, ny = cx.shape
            for nm in ["dense_c", "dense_r", "e(0,0)",
                       "e(%d,%d)" % (nx // 2, ny // 2),
                       "ie(%d,%d)" % (nx - 1, ny - 1)]:
                v = _layout(cx.image(nm), lay)
                _roundtrip(ck, v, False, "%s layout=%s" % (cx.label(nm), lay),
                           acc, cx.spacing)
                n_img += 1
    return digest(*acc), {"fft_images": n_img}


# --------------------------------------------------------------------------
# propagate
# --------------------------------------------------------------------------
def _compose(cx, name, d1, d2, cfsp=0):
    """P(d2) applied to the real result of P(d1) vs P(d1+d2) (or the input
    itself when d1+d2 == 0 and the sampling is coarse)."""
    s = d1 + d2
    key = (name, _dkey(d1), _dkey(d2), cfsp)
    if key in cx.done:
        return
    cx.done.add(key)
    if s == 0 and not cx.coarse:
        cx.info["skipped_zero_sum_not_coarse"] += 1
        return
    r1 = cx.P(name, d1, cfsp)
    lab = "propagate(%s, %r)" % (cx.label(name), d1)
    r2 = cx.call(r1, d2, cfsp, False, label=lab)
    got = cx.plane(r2, lab)
    vals = cx.values(name)
    scale = float(np.abs(vals).max())
    phase = (abs(d1) + abs(d2) + abs(s)) / LAM_M
    if s == 0:
        cx.cmp("inverse-coarse", got, vals, scale, phase,
               "%s cfsp=%r: P(%r) after P(%r) vs the input" %
               (cx.label(name), cfsp, d2, d1))
    else:
        cx.cmp("group-law", got, cx.Pv(name, s, cfsp), scale, phase,
               "%s cfsp=%r: P(%r) after P(%r) vs P(%r)" %
               (cx.label(name), cfsp, d2, d1, s))


def _run_group(case, ck):
    cx = Ctx(ck, case["shape"], case["sp"])
    basis = cx.basis(case["mode"])
    probes = cx.probes(max(k for _, k in case["ppairs"]))
    # --- distance zero, every spelling -----------------------------------
    for nm in basis + [p for p in probes if p not in basis]:
        a = cx.image(nm)
        for z in _zeros():
            r = cx.call(a, z, label=cx.label(nm), fp_before=cx.fp0[nm])
            if fp_xarray(r) != cx.fp0[nm]:
                _fail(ck, "d0-identity", "propagate(%s, %r) is not the input "
                      "(values, coordinates or attrs differ)" %
                      (cx.label(nm), z), obs=_short(r.values),
                      exp=_short(a.values))
    # --- group law on the complete basis ---------------------------------
    bp = PAIRS[case["bpairs"]]
    for d1, d2 in bp:
        for nm in basis:
            _compose(cx, nm, d1, d2)
    for pname, k in case["ppairs"]:
        for d1, d2 in PAIRS[pname]:
            for nm in probes[:k]:
                _compose(cx, nm, d1, d2)
    # --- basis matrices: operator norm, superposition --------------------
    if case["mode"] == "full":
        ds = []
        for d1, d2 in bp:
            for d in (d1, d1 + d2):
                if d != 0 and d not in ds and \
                        all((nm, _dkey(d), 0, "off") in cx.raw
                            for nm in basis):
                    ds.append(d)
        for d in ds:
            M = cx.matrix(basis, d)
            cx.opnorm(M, d)
            for nm in ("dense_c", "dense_r"):
                x = cx.values(nm)
                cx.cmp("superposition", cx.Pv(nm, d).ravel(), M @ x.ravel(),
                       float(np.abs(x).max()), abs(d) / LAM_M,
                       "%s d=%r: P(image) vs sum_k image_k P(e_k)" %
                       (cx.label(nm), d))
            cx.acc.append(np.round(M.ravel()[:64], 9))
    for nm in probes:
        cx.acc.append(np.round(cx.Pv(nm, 1.0).ravel()[:32], 9))
    return digest(*cx.acc), cx.info


def _run_linear(case, ck):
    cx = Ctx(ck, case["shape"], case["sp"])
    basis = cx.basis(case["mode"])
    N = len(basis)
    if N <= 12:
        pairs = list(itertools.combinations(range(N), 2))
    else:
        pairs = []
        for k in range(N):
            for q in ((k + 1) % N, (k + N // 2) % N):
                if q != k and (k, q) not in pairs:
                    pairs.append((k, q))
    for di, d in enumerate(case["ds"]):
        coefs = COEFS[:case["ncoef"]] if di == 0 else COEFS[1:2]
        ph = abs(d) / LAM_M
        for al, be in coefs:
            for p, q in pairs:
                x = al * cx.values(basis[p]) + be * cx.values(basis[q])
                lab = "image %s %r*%s+%r*%s sp=%s" % (
                    _sid(cx.shape), al, basis[p], be, basis[q], cx.spname)
                r = cx.call(cx.mk(x), d, label=lab)
                exp = al * cx.Pv(basis[p], d) + be * cx.Pv(basis[q], d)
                cx.cmp("linearity", cx.plane(r, lab), exp,
                       abs(al) + abs(be), ph,
                       "P(a*x+b*y) vs a*P(x)+b*P(y), d=%r, %s" % (d, lab))
        for nm in basis:
            cx.cmp("linearity", cx.Pv("i" + nm, d), 1j * cx.Pv(nm, d), 1.0,
                   ph, "P(i*%s) vs i*P(%s), d=%r, %s" %
                   (nm, nm, d, cx.label(nm)))
        # homogeneity over many decades of amplitude (powers of two: the
        # scaled input is exact)
        for ex in (-60, 60):
            c = 2.0 ** ex
            x = c * cx.values("dense_c")
            lab = "image %s 2^%d*dense_c sp=%s" % (_sid(cx.shape), ex,
                                                   cx.spname)
            r = cx.call(cx.mk(x), d, label=lab)
            cx.cmp("linearity", cx.plane(r, lab), c * cx.Pv("dense_c", d),
                   c * float(np.abs(cx.values("dense_c")).max()), ph,
                   "P(c*x) vs c*P(x), c=2^%d, d=%r, %s" % (ex, d, lab))
        x = cx.values("dense_c")
        cx.cmp("linearity", cx.Pv("dense_c", d),
               cx.Pv("dense_c.re", d) + 1j * cx.Pv("dense_c.im", d),
               float(np.abs(x).max()), ph,
               "P(complex image) vs P(real part)+i*P(imaginary part), d=%r, "
               "%s" % (d, cx.label("dense_c")))
        if case["mode"] == "full":
            M = cx.matrix(basis, d)
            for nm in ("dense_c", "dense_r"):
                x = cx.values(nm)
                cx.cmp("superposition", cx.Pv(nm, d).ravel(), M @ x.ravel(),
                       float(np.abs(x).max()), ph,
                       "%s d=%r: P(image) vs sum_k image_k P(e_k)" %
                       (cx.label(nm), d))
        cx.acc.append(np.round(cx.Pv("dense_c", d).ravel()[:64], 9))
    return digest(*cx.acc), cx.info


def _run_list(case, ck):
    acc = []
    info = {}
    ctxs = {}
    for sp, cfsp, gf, nprobe, forms_on in case["blocks"]:
        if sp not in ctxs:
            ctxs[sp] = Ctx(ck, case["shape"], sp)
        cx = ctxs[sp]
        probes = cx.probes(nprobe)
        for li, L in enumerate(LISTS):
            forms = [("list", list(L))]
            if li in (0, 1, 2, 5) and forms_on:
                forms += [("tuple", tuple(L)), ("ndarray", np.array(L))]
            for nm in probes:
                for fname, arg in forms:
                    _one_list(cx, nm, L, fname, arg, cfsp, gf)
    for sp in sorted(ctxs):
        cx = ctxs[sp]
        for nm in cx.probes(2):
            acc.append(np.round(cx.planes(cx.P(nm, 1.0)).ravel()[:32], 9))
        for k, v in cx.info.items():
            info[k] = info.get(k, 0) + v
    return digest(*acc), info


def _as_form(fname, L):
    return {"list": list, "tuple": tuple, "ndarray": np.array}[fname](L)


def _one_list(cx, nm, L, fname, arg, cfsp, gf):
    ck = cx.ck
    a = cx.image(nm)
    lab = "%s [distances as %s]" % (cx.label(nm), fname)
    desc = "propagate(%s, %r, cfsp=%r, gradient_filter=%r)" % (
        lab, L, cfsp, gf)
    r = cx.call(a, arg, cfsp, gf, label=lab, fp_before=cx.fp0[nm])
    cx.info["list_calls"] += 1
    if type(arg) is not type(_as_form(fname, L)) or \
            list(arg) != list(L):
        _fail(ck, "input-unchanged", "%s modified the distances it was "
              "given: now %r" % (desc, arg))
    if "z" not in r.dims or r.sizes["z"] != len(L):
        _fail(ck, "list-stack-size", "%s: result has dims %r sizes %r, "
              "expected %d slices along z" %
              (desc, r.dims, dict(r.sizes), len(L)))
        return
    zl = [float(v) for v in np.asarray(r["z"].values)]
    if sorted(zl) != sorted(float(v) for v in L):
        _fail(ck, "list-z-coordinates", "%s: z coordinates %r are not the "
              "distances" % (desc, zl))
        return
    if zl != [float(v) for v in L]:
        cx.info["list_order_differs"] += 1
    pl = cx.planes(r)
    if pl.shape[1:] != cx.shape:
        _fail(ck, "result-shape", "%s: slices have shape %r" %
              (desc, pl.shape[1:]))
        return
    vals = cx.values(nm)
    scale = float(np.abs(vals).max())
    for d in L:
        k = zl.index(float(d))
        if d == 0:
            exp = vals
        else:
            exp = cx.Pv(nm, float(d), cfsp, gf)
        ph = (abs(d) + (abs(gf) if gf else 0.0)) / LAM_M
        cx.cmp("list-vs-single", pl[k], exp, scale, ph,
               "%s: slice z=%r vs the single-distance result" % (desc, d))


def _run_opts(case, ck):
    cx = Ctx(ck, case["shape"], case["sp"])
    basis = cx.basis(case["mode"])
    probes = cx.probes(4)
    names = basis + [p for p in probes if p not in basis]
    full = case["mode"] == "full"
    d0 = 1.0
    dprobe = [-10.5, 1e3] if (case["tier"] == "thorough" and
                              case["sp"] == "coarse") else [-10.5]
    work = [(nm, d0) for nm in names] + \
        [(nm, d) for d in dprobe for nm in probes]
    pwork = [(nm, d0) for nm in probes] + \
        [(nm, d) for d in dprobe for nm in probes]
    for ci, (cfsp, gf) in enumerate(OPT_COMBOS):
        cfull = full and ci in case["full_combos"]
        for nm, d in (work if (cfull or not full) else pwork):
            cx.P(nm, d, cfsp, gf)
        if cfull:
            M = cx.matrix(basis, d0, cfsp, gf)
            if not gf:
                cx.opnorm(M, d0, cfsp)
            for nm in ("dense_c", "dense_r"):
                x = cx.values(nm)
                cx.cmp("superposition", cx.Pv(nm, d0, cfsp, gf).ravel(),
                       M @ x.ravel(), float(np.abs(x).max()),
                       (abs(d0) + (gf or 0.0)) / LAM_M,
                       "%s d=%r cfsp=%r gradient_filter=%r: P(image) vs "
                       "sum_k image_k P(e_k)" % (cx.label(nm), d0, cfsp, gf))
            cx.acc.append(np.round(M.ravel()[:64], 9))
    # distance zero returns the input whatever the options
    for cfsp, gf in OPT_COMBOS[1:]:
        for nm in probes:
            a = cx.image(nm)
            for z in _zeros():
                r = cx.call(a, z, cfsp, gf, label=cx.label(nm),
                            fp_before=cx.fp0[nm])
                if fp_xarray(r) != cx.fp0[nm]:
                    _fail(ck, "d0-identity", "propagate(%s, %r, cfsp=%r, "
                          "gradient_filter=%r) is not the input" %
                          (cx.label(nm), z, cfsp, gf), obs=_short(r.values),
                          exp=_short(a.values))
    for nm, d in work:
        sc = float(np.abs(cx.values(nm)).max())
        # cascaded propagation is still propagation by d
        for cfsp in (1, 3):
            if (nm, _dkey(d), cfsp, "off") not in cx.raw:
                continue
            cx.cmp("cfsp-consistent", cx.Pv(nm, d, cfsp, False),
                   cx.Pv(nm, d, 0, False), sc, abs(d) / LAM_M,
                   "%s d=%r: cfsp=%r vs cfsp=0" % (cx.label(nm), d, cfsp))
        # gradient filter = P(d) - P(d + filter)
        exp = cx.Pv(nm, d, 0, False) - cx.Pv(nm, d + LAM_M, 0, False)
        cx.cmp("gradient-filter-difference", cx.Pv(nm, d, 0, LAM_M), exp, sc,
               (2 * abs(d) + LAM_M) / LAM_M,
               "%s d=%r: gradient_filter=%r vs P(d)-P(d+filter)" %
               (cx.label(nm), d, LAM_M))
    # metadata passed in the call instead of stored in the image
    for nm in probes:
        bare = cx.mk(cx.values(nm), with_metadata=False)
        for d in [d0] + dprobe:
            r = cx.call(bare, d, label=cx.label(nm) + " without "
                        "medium_index/illum_wavelen attrs", meta_kwargs=True)
            cx.acc.append(np.round(cx.plane(r).ravel()[:16], 9))
            # the result can be propagated further without repeating the
            # optics: it equals the two-step result of the image that
            # carries its optics itself
            from holopy import propagate
            try:
                r2 = propagate(r, d0)
            except Exception as e:
                _fail(ck, "chain-after-kwargs", "propagate(propagate(image "
                      "without optics, %r, medium_index=, illum_wavelen=), "
                      "%r) raised %s: %s" % (d, d0, type(e).__name__, e))
                continue
            ck.trans += 1
            ref2 = propagate(cx.P(nm, d), d0)
            ck.trans += 1
            cx.cmp("chain-after-kwargs", cx.plane(r2), cx.plane(ref2),
                   float(np.abs(cx.values(nm)).max()),
                   (abs(d) + abs(d0)) / LAM_M,
                   "%s: second propagation of a result whose optics were "
                   "given in the first call" % cx.label(nm))
    # group law with cascaded propagation
    for cfsp in (1, 3):
        for d1, d2 in PAIRS["mini"]:
            for nm in probes:
                _compose(cx, nm, d1, d2, cfsp)
    for nm in probes:
        cx.acc.append(np.round(cx.Pv(nm, d0, 3, LAM_M).ravel()[:32], 9))
    return digest(*cx.acc), cx.info


_KINDS = {"history": _run_history, "siunits": _run_siunits,
          "fftinv": _run_fftinv, "noshift": _run_noshift, "group": _run_group,
          "fftorigin": _run_fftorigin, "fft1d": _run_fft1d,
          "freqgrid": _run_freqgrid,
          "linear": _run_linear, "list": _run_list, "opts": _run_opts}


def run_case(case):
    ck = Checker()
    outcome = "ok"
    fp, info = None, {}
    try:
        fp, info = _KINDS[case["kind"]](case, ck)
    except _Abort as e:
        outcome = e.outcome
        fp = "aborted:" + e.outcome
    _finish_counts(ck)
    res = ck.result(fp=fp, outcome=outcome)
    res["info"] = info
    return res


def coverage_extra(cases, results):
    tier = cases[0]["tier"]
    tot = {}
    for r in results:
        for k, v in (r.get("info") or {}).items():
            tot[k] = tot.get(k, 0) + int(v)
    kinds = {}
    for c in cases:
        kinds[c["kind"]] = kinds.get(c["kind"], 0) + 1
    return {
        "shapes_exhaustive": [_sid(s) for s in _small(tier)],
        "shapes_large": [_sid(s) for s in BIG[tier]],
        "medium_wavelength": LAM_M,
        "spacings": {k: {"spacing": SPACINGS[k][0], "origin": SPACINGS[k][1],
                         "coarse_no_evanescent": bool(_is_coarse(
                             SPACINGS[k][0]))} for k in SP_TIER[tier]},
        "distances": D_ALL, "zero_spellings": ["0", "0.0", "-0.0",
                                               "np.float64(0)"],
        "distance_pairs": {k: len(v) for k, v in PAIRS.items()},
        "distance_lists": LISTS,
        "cfsp_x_gradient_filter": OPT_COMBOS,
        "linear_coefficients": [repr(c) for c in COEFS],
        "cases_by_kind": kinds,
        "totals": tot,
        "side_conditions": ["pairs with d1+d2 == 0 are compared with the "
                            "input only at coarse sampling (count in "
                            "totals.skipped_zero_sum_not_coarse)"],
    }

"""C07 -- pixel value depends only on position: grids, points, crops, subsets
agree; subset selection; input purity.

Inputs: product grid shape x spacing x origin x theory; for every grid the
same locations as explicit points, EVERY axis-aligned sub-rectangle, every
subset size 1..N under the real generator with seeds 0..4, and (2x3 grid)
every ordered selection numpy.random.choice could return (scripted seam).
Histories: all sequences of length <= 3 over 8 operations sharing ONE
detector object and ONE scatterer object.
"""
import itertools
import math
import warnings

import numpy as np

import hpcases as H
from lib import (Checker, bits_equal, digest, fork_call, fp_values,
                 fp_xarray)

PROPERTY = "C07"
RULE = ("inputs: product of 7 grid shapes x 2 spacings x 2 origins x "
        "theories; inside each case all sub-rectangles, all subset sizes x "
        "5 seeds; a dedicated family enumerates every ordered k-selection "
        "of a 2x3 grid through a scripted numpy.random.choice; histories: "
        "all sequences of length <= 3 over an 8-operation alphabet on "
        "shared objects vs pristine-process references.  Non-trivial = "
        "distinct fingerprint")
ASSUMPTIONS = ["fork() yields a pristine interpreter for the references",
               "numpy.random.choice is the only source of randomness in "
               "make_subset_data (if the scripted seam records no call the "
               "check says so and relies on the seeded runs)"]
TOLERANCES = {"position-only": "bit-identical (Mie, Multisphere, Tmatrix)",
              "mielens-off": 1e-11, "mielens-check": 1e-7,
              "history": "bit-identical"}
TIMEOUT = 600

SHAPES = [(3, 3), (1, 5), (5, 1), (2, 3), (4, 5), (7, 2), (1, 1)]
SPACINGS = [0.1, (0.1, 0.25)]
ORIGINS = [None, (0.3, -0.2)]
THEORIES = {
    "mie": ("mie", None),
    "ms2": ("ms2", None),
    "tm-spheroid": ("tm-spheroid", None),
    "mielens-off": ("mielens", {"interpolate_integrals": False}),
    "mielens-check": ("mielens", None),
    # the numerical lens wrapper: only in the families that name it
    "lens-mie": ("lens-mie", None),
}
TH_TIER = {"quick": ["mie", "ms2", "mielens-off", "mielens-check",
                     "tm-spheroid"],
           "thorough": [t for t in THEORIES if t != "lens-mie"]}
SHAPE_TIER = {"quick": [(3, 3), (1, 5), (4, 5), (7, 2), (1, 1)],
              "thorough": SHAPES}
# "holo-shifted" / "holo-moved" differ from "holo" only by a detector of the
# same shape with a slightly shifted origin / a slightly moved scatterer, so
# that anything remembered under a too-coarse key (shape, object identity)
# shows up as a history dependence
OPS = ["holo", "holo-shifted", "holo-moved", "field", "intensity", "subset",
       "update", "holo-subset", "subimage", "scatmat", "field-veryfar"]
# "field-veryfar": a point 3 mm from the sphere, beyond the range of the
# Bessel routine behind the default Mie options (its own value is a recorded
# finding of C02 and is not compared); what follows it must not notice


def cases(tier, seed):
    out = [{"id": "cluster-ladder:Multisphere", "kind": "clusterladder",
            "sizes": ["small", "big"] if tier == "quick" else
            ["small", "medium", "big"]},
           {"id": "detector-construction-histories", "kind": "detbuild",
            "depth": 2 if tier == "quick" else 3}]
    for th in TH_TIER[tier]:
        for shp in SHAPE_TIER[tier]:
            for isp, sp in enumerate(SPACINGS):
                for io, org in enumerate(ORIGINS):
                    if tier == "quick" and th != "mie" and (isp + io) >= 1 \
                            and tuple(shp) != (3, 3):
                        continue
                    if tier == "quick" and th.startswith("mielens") and \
                            (tuple(shp) in ((4, 5), (7, 2)) or isp + io):
                        continue
                    for part in ("crops", "subsets"):
                        out.append({"id": "grid:%s:%dx%d:sp%d:o%d:%s" %
                                    (th, shp[0], shp[1], isp, io, part),
                                    "kind": "grid", "th": th,
                                    "shape": list(shp), "sp": isp, "org": io,
                                    "part": part})
    # explicit point lists with several heights: the value at a point must
    # not depend on the other points or on their order
    for th in TH_TIER[tier]:
        if th.startswith("mielens"):
            continue          # MieLens needs all points at one height
        out.append({"id": "points-mixed-z:%s" % th, "kind": "mixedz",
                    "th": th})
    # the numerical lens wrapper accepts points at several heights
    out.append({"id": "points-mixed-z:lens-mie", "kind": "mixedz",
                "th": "lens-mie"})
    # the same locations written in other coordinate forms: integer-valued
    # coordinates (integer pixel spacing, integer point lists) and spherical
    # detector points
    for th in TH_TIER[tier]:
        out.append({"id": "coord-forms:%s" % th, "kind": "coordforms",
                    "th": th})
    # sparse subsets of a large image (distinctness is a birthday problem
    # there) -- pure selection, no scattering
    for blk in range(5):
        out.append({"id": "subset-large:seeds%d-%d" % (5 * blk, 5 * blk + 4),
                    "kind": "biglarge", "seeds": list(range(5 * blk,
                                                            5 * blk + 5))})
    # the numerical lens wrapper with particular numbers of locations per
    # call (1, 2, a block boundary +- 1)
    out.append({"id": "lens-point-counts", "kind": "lenscounts"})
    out.append({"id": "subset-forms", "kind": "subsetforms"})
    out.append({"id": "large-detector", "kind": "large"})
    out.append({"id": "mielens-crops", "kind": "mlcrops"})
    # a detector so large / far that part of it is beyond kr = 1000: crops
    # and point lists that hold only distant pixels
    out.append({"id": "grid-far:mie", "kind": "gridfar"})
    # scripted environment: every ordered selection of a 2x3 image
    N = 6
    for k in range(1, N + 1):
        sels = list(itertools.permutations(range(N), k))
        nblk = max(1, len(sels) // 180)
        for b in range(nblk):
            out.append({"id": "scripted:k=%d:block%d/%d" % (k, b, nblk),
                        "kind": "scripted", "k": k, "block": b,
                        "nblk": nblk})
    L = 3
    ops = OPS
    # pristine-interpreter reference of every operation, computed once by
    # forking from the (pristine) driver
    refs = {}
    for name in ops:
        st, val = fork_call(_op_digest, name)
        refs[name] = val if st == "ok" else "FAILED:%s:%r" % (st, val)
    for n in range(1, L + 1):
        for seq in itertools.product(range(len(ops)), repeat=n):
            if n == 3 and any(ops[i] == "field-veryfar" for i in seq):
                continue
            out.append({"id": "hist:" + ">".join(ops[i] for i in seq),
                        "kind": "history", "seq": [ops[i] for i in seq],
                        "ref": {ops[i]: refs[ops[i]] for i in seq}})
    return out


def _op_digest(name):
    return digest(_op(name))


def _theory(th):
    key, acc = THEORIES[th]
    sspec, tspec = H.ST[key]
    if acc is not None:
        tspec = (tspec[0], tspec[1], {"calculator_accuracy_kwargs": acc})
    return H.mk_scatterer(sspec), H.mk_theory(tspec)


OPT = dict(medium_index=H.NMED, illum_wavelen=H.WL, illum_polarization=(1, 0))


def _holo(det, scat, theory):
    from holopy.scattering import calc_holo
    with warnings.catch_warnings():
        warnings.simplefilter("ignore")
        return calc_holo(det, scat, theory=theory, **OPT)


def _same(ck, check, th, a, b, what):
    """position-only equality: bit-identical, except MieLens 'check' whose
    interpolate-or-not decision depends on how many points are asked for"""
    a = np.asarray(a)
    b = np.asarray(b)
    if th == "lens-mie":
        # numpy's pairwise summation over the pupil nodes depends on the
        # number of points evaluated together in the last bits
        e = float(np.abs(a - b).max()) if a.shape == b.shape else \
            float("inf")
        ck.metric(th, e)
        return ck.true(check, e <= 1e-12, "%s: values differ by %.2e" %
                       (what, e))
    if th.startswith("mielens"):
        # vectorised numpy reductions inside MieLens depend on the number of
        # points in the last bits [floor 1.4e-14]; 'check' additionally
        # decides per call whether to interpolate
        e = float(np.abs(a - b).max()) if a.shape == b.shape else \
            float("inf")
        ck.metric(th, e)
        tol = 1e-7 if th == "mielens-check" else 1e-11
        return ck.true(check, e <= tol, "%s: values differ by %.2e" %
                       (what, e))
    return ck.same_bits(check, a, b, what)


def _run_grid(case, ck):
    import holopy as hp
    from holopy.core.metadata import make_subset_data, flat
    from holopy.core.process import subimage
    th = case["th"]
    shp = tuple(case["shape"])
    sp = SPACINGS[case["sp"]]
    org = ORIGINS[case["org"]]
    det = H.det_grid(shp, sp, origin=org, name="cam")
    scat, theory = _theory(th)
    fp0 = fp_xarray(det)
    G = _holo(det, scat, theory)
    ck.trans += 1
    Gxy = G.transpose("x", "y", "z").values[:, :, 0]
    X, Y = np.meshgrid(det.x.values, det.y.values, indexing="ij")
    # same locations as explicit points
    detp = hp.detector_points(x=X.ravel(), y=Y.ravel(), z=0.0)
    P = _holo(detp, scat, _theory(th)[1])
    ck.trans += 1
    _same(ck, "grid-vs-points", th, P.values, Gxy.ravel(),
          "%s %r: grid vs explicit points" % (th, shp))
    # every axis-aligned sub-rectangle
    nx, ny = shp
    nrect = 0
    for x0 in (range(nx) if case["part"] == "crops" else []):
        for x1 in range(x0 + 1, nx + 1):
            for y0 in range(ny):
                for y1 in range(y0 + 1, ny + 1):
                    if (x0, x1, y0, y1) == (0, nx, 0, ny):
                        continue
                    sub = det.isel(x=slice(x0, x1), y=slice(y0, y1))
                    S = _holo(sub, scat, _theory(th)[1])
                    ck.trans += 1
                    nrect += 1
                    Sv = S.transpose("x", "y", "z").values[:, :, 0]
                    _same(ck, "crop", th, Sv, Gxy[x0:x1, y0:y1],
                          "%s %r: sub-rectangle x[%d:%d] y[%d:%d]" %
                          (th, shp, x0, x1, y0, y1))
                    ck.true("crop-coords", np.array_equal(
                        S.x.values, det.x.values[x0:x1]) and np.array_equal(
                        S.y.values, det.y.values[y0:y1]),
                        "cropped result does not lie on the cropped "
                        "detector's coordinates")
    # crops through subimage (even sizes, centre in pixels)
    if nx >= 3 and ny >= 3 and case["part"] == "crops":
        for cx, cy in ((1, 1), (nx - 2, ny - 2)):
            try:
                sub = subimage(det, (cx, cy), 2)
            except Exception:
                continue
            if sub.size == 0:
                continue
            S = _holo(sub, scat, _theory(th)[1])
            ck.trans += 1
            x0 = int(np.where(det.x.values == sub.x.values[0])[0][0])
            y0 = int(np.where(det.y.values == sub.y.values[0])[0][0])
            Sv = S.transpose("x", "y", "z").values[:, :, 0]
            _same(ck, "crop-subimage", th, Sv,
                  Gxy[x0:x0 + Sv.shape[0], y0:y0 + Sv.shape[1]],
                  "%s %r: subimage centre (%d,%d)" % (th, shp, cx, cy))
    # random pixel subsets: every size, seeds 0..4
    N = nx * ny
    Gflat = flat(G)
    for k in (range(1, N + 1) if case["part"] == "subsets" else []):
        for sd in range(5):
            if N > 12 and k not in (1, 2, N // 2, N - 1, N) and sd > 0:
                continue
            sub, sel = make_subset_data(det, pixels=k, return_selection=True,
                                        seed=sd)
            sub2, sel2 = make_subset_data(det, pixels=k,
                                          return_selection=True, seed=sd)
            ck.trans += 2
            ck.true("subset-distinct", len(set(sel.tolist())) == k and
                    len(sel) == k, "%d-pixel subset (seed %d) repeats "
                    "pixels: %r" % (k, sd, sel.tolist()))
            ck.true("subset-reproducible", np.array_equal(sel, sel2) and
                    fp_xarray(sub) == fp_xarray(sub2),
                    "same seed %d gave different subsets" % sd)
            ck.true("subset-in-range", sel.min() >= 0 and sel.max() < N,
                    "selection out of range")
            # coordinates / metadata of the selected pixels
            fx, fy = X.ravel()[sel], Y.ravel()[sel]
            ck.true("subset-coords", np.array_equal(sub.x.values, fx) and
                    np.array_equal(sub.y.values, fy) and
                    np.array_equal(sub.z.values, np.zeros(k)),
                    "subset coordinates are not those of the selected "
                    "pixels (k=%d seed=%d)" % (k, sd))
            od = sub.attrs.get("original_dims")
            ck.true("subset-original-dims", isinstance(od, dict) and
                    set(od) == set(det.dims) and
                    all(np.array_equal(od[d], det[d].values)
                        for d in det.dims),
                    "original_dims does not record the source axes")
            ck.true("subset-name", sub.name == det.name,
                    "subset lost the name")
            # commutation with the forward calculation
            Hs = _holo(sub, scat, _theory(th)[1])
            Gs = make_subset_data(G, pixels=k, seed=sd)
            ck.trans += 2
            _same(ck, "subset-commutes", th, Hs.values, Gs.values,
                  "%s %r: calc_holo(subset) vs subset(calc_holo), k=%d "
                  "seed=%d" % (th, shp, k, sd))
            _same(ck, "subset-values", th, Hs.values, Gxy.ravel()[sel],
                  "%s %r: subset pixel values vs grid values, k=%d seed=%d"
                  % (th, shp, k, sd))
            ck.true("subset-result-coords",
                    np.array_equal(Hs.x.values, fx) and
                    np.array_equal(Hs.y.values, fy),
                    "hologram on the subset is not on the subset's "
                    "coordinates")
    ck.true("input-untouched", fp_xarray(det) == fp0,
            "the detector was modified by the calculations")
    return digest(fp_values(Gxy), nrect)


MIXED = np.array([[0.0, 0.0, 0.0], [0.3, -0.2, 0.5], [-0.4, 0.25, -0.3],
                  [0.3, -0.2, 0.0], [0.0, 0.0, 1.0], [0.9, 0.7, -1.2],
                  # exactly below the particle (H.C0): polar angle 0
                  [H.C0[0], H.C0[1], 0.0], [H.C0[0], H.C0[1], 1.5]])


def _run_mixedz(case, ck):
    import holopy as hp
    th = case["th"]
    scat, theory = _theory(th)

    def det(P):
        return hp.detector_points(x=P[:, 0], y=P[:, 1], z=P[:, 2])
    base = _holo(det(MIXED), scat, theory).values
    ck.trans += 1
    fps = [fp_values(base)]
    # equivalent call forms of detector_points
    forms = {
        "coords-dict": lambda P: hp.detector_points(
            {"x": P[:, 0], "y": P[:, 1], "z": P[:, 2]}),
        "dict+keyword": lambda P: hp.detector_points(
            {"x": P[:, 0], "y": P[:, 1]}, z=P[:, 2]),
        "lists": lambda P: hp.detector_points(
            x=list(P[:, 0]), y=list(P[:, 1]), z=list(P[:, 2])),
    }
    for fname, mk in forms.items():
        try:
            h = _holo(mk(MIXED), scat, _theory(th)[1]).values
        except Exception as e:
            if H.is_refusal(e) or type(e).__name__ == "CoordSysError":
                continue
            raise
        ck.trans += 1
        _same(ck, "points-call-form", th, h, base, "%s: detector_points "
              "given as %s vs keyword arrays" % (th, fname))
    from holopy.scattering import calc_field
    fbase = calc_field(det(MIXED), scat, theory=_theory(th)[1], **OPT).values
    for order in ([7, 6, 5, 4, 3, 2, 1, 0], [2, 0, 6, 4, 1, 7, 5, 3],
                  [3, 6, 1, 0, 7, 5, 2, 4]):
        h = _holo(det(MIXED[order]), scat, _theory(th)[1]).values
        ck.trans += 1
        _same(ck, "points-order", th, h, base[order], "%s: the same points "
              "listed in order %r" % (th, order))
        # all three components of the scattered field as well
        f = calc_field(det(MIXED[order]), scat, theory=_theory(th)[1],
                       **OPT).values
        ck.trans += 1
        _same(ck, "points-order-field", th, f, fbase[order], "%s: field at "
              "the same points listed in order %r" % (th, order))
    for i in range(len(MIXED)):
        h = _holo(det(MIXED[i:i + 1]), scat, _theory(th)[1]).values
        ck.trans += 1
        _same(ck, "point-alone", th, h, base[i:i + 1], "%s: point %r "
              "evaluated alone vs inside a list with other heights" %
              (th, MIXED[i].tolist()))
    # a plane of the list as a grid of its own
    g = H.det_grid((2, 2), 0.3)
    G = _holo(g, scat, _theory(th)[1])
    X, Y = np.meshgrid(g.x.values, g.y.values, indexing="ij")
    for z in (0.0, 0.5):
        P = np.stack([X.ravel(), Y.ravel(), np.full(4, z)], 1)
        mixed = np.concatenate([P, MIXED[[2, 5]]])
        h = _holo(det(mixed), scat, _theory(th)[1]).values[:4]
        alone = _holo(det(P), scat, _theory(th)[1]).values
        ck.trans += 2
        _same(ck, "plane-in-mixed-list", th, h, alone, "%s: points of the "
              "plane z=%r inside a list that also holds other heights" %
              (th, z))
        if z == 0.0:
            _same(ck, "plane-vs-grid", th, alone, G.transpose(
                "x", "y", "z").values[:, :, 0].ravel(), "%s: z=0 points vs "
                "grid" % th)
    return digest(*fps)


_LADDER_DET = {}


def _cluster_op(name):
    """clusters of different expansion order on detectors that are shared
    between the calls: a point list on a ring around the clusters' common
    centre, a grid centred on it, and the grid's corner pixel as a point"""
    import warnings
    import holopy as hp
    from holopy.scattering import calc_holo, Sphere, Spheres, Multisphere
    if not _LADDER_DET:
        _LADDER_DET["ring"] = hp.detector_points(
            x=2.0 + 3.0 * np.cos(np.arange(5) * 1.1),
            y=2.0 + 3.0 * np.sin(np.arange(5) * 1.1), z=0.0)
        _LADDER_DET["grid"] = hp.detector_grid((5, 5), 1.0)
        _LADDER_DET["corner"] = hp.detector_points(
            x=np.array([0.0, 4.0]), y=np.array([0.0, 4.0]), z=0.0)
    size, dk = name.split("@")
    r = {"small": 0.15, "medium": 0.4, "big": 0.8}[size]
    sc = Spheres([Sphere(n=1.59, r=r, center=(2.0 - 1.1 * r, 2.0, 6.0)),
                  Sphere(n=1.59, r=r, center=(2.0 + 1.1 * r, 2.0, 6.0))])
    with warnings.catch_warnings():
        warnings.simplefilter("ignore")
        v = calc_holo(_LADDER_DET[dk], sc, H.NMED, H.WL, (1, 0),
                      theory=Multisphere()).values
    return [float(x) for x in np.asarray(v).ravel()]


def _run_clusterladder(case, ck):
    from lib import pair_ladder
    names = ["%s@%s" % (s_, d) for d in ("ring", "grid", "corner")
             for s_ in case.get("sizes", ["small", "big"])]
    fp = pair_ladder(ck, names, _cluster_op, "value-depends-on-history",
                     tol=1e-9)
    # the corner pixels of the grid and the same locations as points
    g = np.array(_cluster_op("big@grid")).reshape(5, 5)
    p = np.array(_cluster_op("big@corner"))
    e = float(max(abs(g[0, 0] - p[0]), abs(g[4, 4] - p[1])))
    ck.true("grid-equals-points:after-history", e <= 1e-9,
            "corner pixels of the grid differ from the same locations as "
            "points by %.2e" % e)
    return fp


DETOPS = ["pts(d)", "pts(d,z=5)", "pts(d,z=array)", "pts(d,name)",
          "pts(sph)", "pts(sph,r=3)", "pts(sph,r=array)",
          "grid(shape,spacing)", "grid(extra_dims)"]


def _run_detbuild(case, ck):
    """detectors built one after another from the SAME argument objects (a
    coordinate dictionary, a spacing list, an extra_dims dictionary): every
    sequence of <= 3 constructions; each detector is the one a fresh copy of
    the arguments gives, and the arguments are left as they were"""
    import copy
    import itertools
    import holopy as hp
    from lib import fp_xarray

    def args():
        return {"d": {"x": np.array([0.1, 0.5, -0.3]),
                      "y": np.array([0.2, -0.4, 0.0])},
                "sph": {"theta": np.array([0.3, 1.2, 2.0]),
                        "phi": np.array([0.0, 2.5, 4.0])},
                "zs": np.array([1.0, 2.0, 3.0]),
                "rs": np.array([10.0, 20.0, 30.0]),
                "shape": [3, 4], "spacing": [0.1, 0.2],
                "extra": {"illumination": ["red", "green"]}}

    def build(op, A):
        if op == "pts(d)":
            return hp.detector_points(A["d"])
        if op == "pts(d,z=5)":
            return hp.detector_points(A["d"], z=5)
        if op == "pts(d,z=array)":
            return hp.detector_points(A["d"], z=A["zs"])
        if op == "pts(d,name)":
            return hp.detector_points(coords=A["d"], name="mine")
        if op == "pts(sph)":
            return hp.detector_points(A["sph"])
        if op == "pts(sph,r=3)":
            return hp.detector_points(A["sph"], r=3.0)
        if op == "pts(sph,r=array)":
            return hp.detector_points(A["sph"], r=A["rs"])
        if op == "grid(shape,spacing)":
            return hp.detector_grid(A["shape"], A["spacing"])
        if op == "grid(extra_dims)":
            return hp.detector_grid(A["shape"], A["spacing"],
                                    extra_dims=A["extra"])
        raise KeyError(op)

    def state(A):
        return repr(sorted((k, sorted((kk, np.asarray(vv).tolist())
                                      for kk, vv in v.items())
                            if isinstance(v, dict)
                            else np.asarray(v).tolist())
                           for k, v in A.items()))
    fresh = {op: fp_xarray(build(op, args())) for op in DETOPS}
    acc = []
    depth = case.get("depth", 2)
    for seq in itertools.chain.from_iterable(
            itertools.product(DETOPS, repeat=L) for L in range(1, depth + 1)):
        A = args()
        before = state(A)
        for k, op in enumerate(seq):
            try:
                got = fp_xarray(build(op, A))
            except Exception as e:              # noqa
                got = "raised %s: %s" % (type(e).__name__, e)
            ck.trans += 1
            ck.true("detector-from-shared-arguments", got == fresh[op],
                    "%s as step %d of %s (all built from the same argument "
                    "objects) is not the detector that fresh arguments give"
                    "%s" % (op, k + 1, ">".join(seq),
                            ": " + got if got.startswith("raised") else ""))
            ck.true("input-untouched:detector-arguments", state(A) == before,
                    "%s (step %d of %s) changed the caller's argument "
                    "objects: %s -> %s" % (op, k + 1, ">".join(seq),
                                           before, state(A)))
        acc.append(seq[-1])
    return digest(*acc, *sorted(fresh.values()))


def _run_coordforms(case, ck):
    import holopy as hp
    from holopy.scattering import calc_field
    th = case["th"]
    scat, theory = _theory(th)
    fps = []
    # ---- integer-valued coordinates ---------------------------------------
    for sp_i, sp_f in ((1, 1.0), ((2, 1), (2.0, 1.0))):
        gi = hp.detector_grid((3, 4), sp_i)
        gf = hp.detector_grid((3, 4), sp_f)
        a = _holo(gi, scat, _theory(th)[1]).values
        b = _holo(gf, scat, _theory(th)[1]).values
        ck.trans += 2
        _same(ck, "integer-coordinates", th, a, b, "%s: grid with integer "
              "pixel spacing %r vs the same spacing written as float" %
              (th, sp_i))
        fps.append(fp_values(a))
    xi = np.array([0, 1, 2, -1, 0])
    yi = np.array([1, 0, 2, 1, -2])
    for zi, zf in ((0, 0.0), (np.array([0, 0, 0, 0, 0]), np.zeros(5))):
        try:
            a = _holo(hp.detector_points(x=xi, y=yi, z=zi), scat,
                      _theory(th)[1]).values
            b = _holo(hp.detector_points(x=xi.astype(float),
                                         y=yi.astype(float), z=zf), scat,
                      _theory(th)[1]).values
        except Exception as e:
            if H.is_refusal(e):
                continue
            raise
        ck.trans += 2
        _same(ck, "integer-coordinates", th, a, b, "%s: point list with "
              "integer coordinates vs the same points as floats" % th)
    # ---- the same positions stored in other numeric types ------------------
    xu = np.array([0, 1, 2, 3, 0])
    yu = np.array([1, 0, 2, 1, 3])
    zu = np.zeros(5)
    ref = None
    scat_f = scat
    from holopy.scattering import Sphere
    if type(scat) is Sphere:
        # a centre written with integers (pixel units), beside which
        # unsigned coordinates would have to go negative
        scat = Sphere(n=scat.n, r=scat.r, center=(2, 1, 5))
    for dt in ("float64", "uint8", "uint16", "uint64", "int8", "int16",
               "float32", "float16"):
        try:
            a = _holo(hp.detector_points(x=xu.astype(dt), y=yu.astype(dt),
                                         z=zu), scat, _theory(th)[1]).values
        except Exception as e:
            if H.is_refusal(e):
                break
            raise
        ck.trans += 1
        if ref is None:
            ref = a
            continue
        _same(ck, "coordinate-dtype", th, a, ref, "%s: point list whose x, y "
              "are stored as %s vs the same positions as float64" % (th, dt))
    g64 = hp.detector_grid((3, 4), 1.0)
    for dt in ("uint16", "float32"):
        g = g64.assign_coords(x=g64.x.values.astype(dt),
                              y=g64.y.values.astype(dt))
        try:
            a = _holo(g, scat, _theory(th)[1]).values
            b = _holo(g64, scat, _theory(th)[1]).values
        except Exception as e:
            if H.is_refusal(e):
                break
            raise
        ck.trans += 2
        _same(ck, "coordinate-dtype", th, a, b, "%s: grid whose axes are "
              "stored as %s vs float64" % (th, dt))
    scat = scat_f
    # ---- spherical detector points vs the same locations in Cartesian ----
    c = np.asarray(scat.center, float) if scat.center is not None else None
    if c is not None and not th.startswith("mielens"):
        R = 5.0
        TH = [0.0, 1e-3, 0.7, math.pi / 2, 2.5, math.pi]
        PH = [0.0, 1.0, math.pi, 5.0]
        tt, pp = [v.ravel() for v in np.meshgrid(TH, PH, indexing="ij")]
        ds = hp.detector_points(r=R, theta=tt, phi=pp)
        # z points against the direction of propagation
        dc = hp.detector_points(x=c[0] + R * np.sin(tt) * np.cos(pp),
                                y=c[1] + R * np.sin(tt) * np.sin(pp),
                                z=c[2] - R * np.cos(tt))
        for name, fn in (("holo", lambda d: _holo(d, scat,
                                                  _theory(th)[1]).values),
                         ("field", lambda d: calc_field(
                             d, scat, theory=_theory(th)[1], **OPT).values)):
            try:
                a, b = fn(ds), fn(dc)
            except Exception as e:
                if H.is_refusal(e):
                    continue
                raise
            ck.trans += 2
            e = float(np.abs(a - b).max() / np.abs(b).max())
            ck.metric("spherical-vs-cartesian", e)
            # the T-matrix amplitudes are converged to ~1e-7 only [2.0e-7]
            stol = 1e-5 if th.startswith("tm-") else 1e-9
            ck.true("spherical-points", e <= stol, "%s: %s at spherical "
                    "detector points differs from the same locations given "
                    "in Cartesian coordinates by %.2e (worst point theta=%r "
                    "phi=%r)" % (th, name, e,
                                 float(tt[int(np.argmax(np.abs(
                                     a - b).reshape(len(tt), -1).max(1)))]),
                                 float(pp[int(np.argmax(np.abs(
                                     a - b).reshape(len(tt), -1).max(1)))])))
            fps.append(fp_values(a))
    return digest(*fps)


def _run_biglarge(case, ck):
    from holopy.core.metadata import make_subset_data
    det = H.det_grid((120, 90), 0.1, name="cam")
    acc = []
    for k in (1, 2, 20, 50, 90, 107, 108, 109, 500):
        for sd in case["seeds"]:
            sub, sel = make_subset_data(det, pixels=k, return_selection=True,
                                        seed=sd)
            sub2, sel2 = make_subset_data(det, pixels=k,
                                          return_selection=True, seed=sd)
            ck.trans += 2
            ck.true("subset-distinct", len(set(sel.tolist())) == k,
                    "%d-pixel subset of a 120x90 image (seed %d) repeats "
                    "pixels" % (k, sd))
            ck.true("subset-reproducible", np.array_equal(sel, sel2),
                    "seed %d not reproducible for k=%d" % (sd, k))
            pairs = set(zip(sub.x.values.tolist(), sub.y.values.tolist()))
            ck.true("subset-distinct", len(pairs) == k, "subset locations "
                    "repeat (k=%d seed=%d)" % (k, sd))
            acc.append(np.sort(sel)[:8])
    return digest(*acc)


def _run_lenscounts(case, ck):
    import holopy as hp
    from holopy.scattering import Sphere
    from holopy.scattering.theory import Lens, Mie
    sph = Sphere(n=1.59, r=0.5, center=(1.0, 0.9, 5.0))
    n = 514
    xs = 0.004 * np.arange(n)
    ys = 0.5 + 0.003 * np.arange(n)

    def run(idx):
        with warnings.catch_warnings():
            warnings.simplefilter("ignore")
            th = Lens(0.8, Mie(False, False), 24, 24)
            P = hp.detector_points(x=xs[idx], y=ys[idx], z=0.0)
            ck.trans += 1
            return _holo(P, sph, th).values
    full = run(np.arange(n))
    acc = [fp_values(full)]
    for cnt in (1, 2, 3, 255, 256, 257, 258, 512, 513):
        for start in (0, n - cnt):
            idx = np.arange(start, start + cnt)
            h = run(idx)
            e = float(np.abs(h - full[idx]).max())
            ck.metric("lens-point-counts", e)
            ck.true("point-count-independent", h.shape == (cnt,) and
                    e <= 1e-11, "Lens: the values at %d locations "
                    "(starting at #%d) differ by %.2e from the same "
                    "locations inside a %d-point call" % (cnt, start, e, n))
    # locations near the axis evaluated alone and together with locations
    # far from it (10-15 length units off-axis)
    near = np.array([[1.0, 0.9], [1.4, 1.1], [0.2, 2.0]])
    farp = np.array([[13.0, 2.0], [-9.0, -10.0], [1.0, 15.9]])

    def run_pts(P):
        with warnings.catch_warnings():
            warnings.simplefilter("ignore")
            ck.trans += 1
            return _holo(hp.detector_points(x=P[:, 0], y=P[:, 1], z=0.0),
                         sph, Lens(0.8, Mie(False, False), 24, 24)).values
    alone = run_pts(near)
    mixed = run_pts(np.vstack([farp[:1], near, farp[1:]]))
    e = float(np.abs(mixed[1:4] - alone).max())
    ck.metric("lens-point-counts", e)
    ck.true("point-count-independent", e <= 1e-11, "Lens: the values at "
            "locations near the axis differ by %.2e when locations far from "
            "the axis are evaluated in the same call" % e)
    far_alone = run_pts(farp)
    e = float(np.abs(mixed[[0, 4, 5]] - far_alone).max())
    ck.true("point-count-independent", e <= 1e-11, "Lens: the values at "
            "locations far from the axis differ by %.2e when evaluated "
            "together with near ones" % e)
    # 1 x N and N x 1 grids
    for shape in ((1, 1), (1, 257), (257, 1)):
        g = H.det_grid(shape, 0.01)
        with warnings.catch_warnings():
            warnings.simplefilter("ignore")
            G = _holo(g, sph, Lens(0.8, Mie(False, False), 24, 24))
            X, Y = np.meshgrid(g.x.values, g.y.values, indexing="ij")
            P = hp.detector_points(x=X.ravel()[::-1].copy(),
                                   y=Y.ravel()[::-1].copy(), z=0.0)
            h = _holo(P, sph, Lens(0.8, Mie(False, False), 24, 24)).values
        ck.trans += 2
        gv = G.transpose("x", "y", "z").values.ravel()
        e = float(np.abs(h[::-1] - gv).max())
        ck.true("grid-vs-points", e <= 1e-11, "Lens on a %r grid vs the "
                "same locations as a reversed point list: %.2e" % (shape, e))
    return digest(*acc)


def _run_gridfar(case, ck):
    import holopy as hp
    from holopy.scattering import Sphere, Mie
    sph = Sphere(n=1.59, r=0.5, center=(28.0, 28.0, 75.0))
    det = H.det_grid((8, 8), 8.0, name="cam")
    G = _holo(det, sph, Mie())
    ck.trans += 1
    Gxy = G.transpose("x", "y", "z").values[:, :, 0]
    X, Y = np.meshgrid(det.x.values, det.y.values, indexing="ij")
    nrect = 0
    for x0 in range(8):
        for x1 in range(x0 + 1, 9):
            for y0 in (0, 3, 6):
                for y1 in (y0 + 1, 8):
                    if y1 <= y0 or (x0, x1, y0, y1) == (0, 8, 0, 8):
                        continue
                    sub = det.isel(x=slice(x0, x1), y=slice(y0, y1))
                    S = _holo(sub, sph, Mie())
                    ck.trans += 1
                    nrect += 1
                    Sv = S.transpose("x", "y", "z").values[:, :, 0]
                    ck.same_bits("crop", Sv, Gxy[x0:x1, y0:y1], "far grid: "
                                 "sub-rectangle x[%d:%d] y[%d:%d]" %
                                 (x0, x1, y0, y1))
    for sel in ([0, 7, 56, 63], [0], [63, 27], list(range(0, 64, 9))):
        P = hp.detector_points(x=X.ravel()[sel], y=Y.ravel()[sel], z=0.0)
        h = _holo(P, sph, Mie()).values
        ck.trans += 1
        ck.same_bits("grid-vs-points", h, Gxy.ravel()[sel], "far grid: "
                     "points %r alone" % (sel,))
    return digest(fp_values(Gxy), nrect)


class _Scripted:
    """scripted answer for numpy.random.choice (environment seam)"""

    def __init__(self, answer):
        self.answer = answer
        self.calls = []

    def __call__(self, a, size=None, replace=True, p=None):
        self.calls.append((a, size, replace))
        return np.array(self.answer)


def _run_scripted(case, ck):
    from holopy.core.metadata import make_subset_data
    k = case["k"]
    det = H.det_grid((2, 3), 0.1, name="cam")
    scat, theory = _theory("mie")
    G = _holo(det, scat, theory)
    Gxy = G.transpose("x", "y", "z").values[:, :, 0].ravel()
    X, Y = np.meshgrid(det.x.values, det.y.values, indexing="ij")
    sels = list(itertools.permutations(range(6), k))
    sels = sels[case["block"]::case["nblk"]]
    orig = np.random.choice
    seam_hits = 0
    acc = []
    try:
        for sel in sels:
            sc = _Scripted(list(sel))
            np.random.choice = sc
            sub = make_subset_data(det, pixels=k)
            np.random.choice = orig
            ck.trans += 1
            if not sc.calls:
                continue            # seam not used: nothing scripted
            seam_hits += 1
            a, size, replace = sc.calls[0]
            ck.true("choice-without-replacement", replace is False and
                    a == 6 and size == k, "make_subset_data asked the "
                    "generator for choice(%r, %r, replace=%r)" %
                    (a, size, replace))
            ck.true("subset-coords", np.array_equal(
                sub.x.values, X.ravel()[list(sel)]) and np.array_equal(
                sub.y.values, Y.ravel()[list(sel)]),
                "selection %r: subset coordinates wrong" % (sel,))
            Hs = _holo(sub, scat, theory)
            ck.trans += 1
            ck.same_bits("subset-values", Hs.values, Gxy[list(sel)],
                         "selection %r: hologram on the subset vs grid "
                         "pixels" % (sel,))
            acc.append(Hs.values)
    finally:
        np.random.choice = orig
    ck.metric("scripted-seam-hits", seam_hits)
    return digest(*acc, seam_hits)


# --------------------------------------------------------------------------
_S = {}


def _shared():
    if not _S:
        _S["det"] = H.det_grid((4, 4), 0.1, name="cam")
        _S["det2"] = H.det_grid((4, 4), 0.1, origin=(0.013, -0.007),
                                name="cam")
        _S["scat"], _S["th"] = _theory("mie")
        _S["scat2"] = H.mk_scatterer(H.ST["mie"][0], shift=(0.011, 0.0, 0.02))
    return _S


def _op(name):
    from holopy.core.metadata import make_subset_data, update_metadata
    from holopy.core.process import subimage
    from holopy.scattering import (calc_holo, calc_field, calc_intensity,
                                   calc_scat_matrix)
    S = _shared()
    det, sc, th = S["det"], S["scat"], S["th"]
    if name == "holo":
        r = calc_holo(det, sc, theory=th, **OPT)
    elif name == "holo-shifted":
        r = calc_holo(S["det2"], sc, theory=th, **OPT)
    elif name == "holo-moved":
        r = calc_holo(det, S["scat2"], theory=th, **OPT)
    elif name == "field":
        r = calc_field(det, sc, theory=th, **OPT)
    elif name == "intensity":
        r = calc_intensity(det, sc, theory=th, **OPT)
    elif name == "subset":
        r = make_subset_data(det, pixels=5, seed=3)
        return fp_xarray(r).encode()
    elif name == "update":
        r = update_metadata(det, medium_index=1.5, illum_wavelen=0.4,
                            illum_polarization=(0, 2), noise_sd=0.1)
        return fp_xarray(r).encode()
    elif name == "holo-subset":
        r = calc_holo(make_subset_data(det, pixels=7, seed=1), sc,
                      theory=th, **OPT)
    elif name == "subimage":
        r = calc_holo(subimage(det, (2, 2), 2), sc, theory=th, **OPT)
    elif name == "scatmat":
        r = calc_scat_matrix(det, sc, H.NMED, H.WL, theory=th)
    elif name == "field-veryfar":
        import holopy as hp
        far = hp.detector_points(x=np.array([3000.0, 3000.1]),
                                 y=np.array([10.0, -20.0]), z=0.0)
        try:
            calc_field(far, sc, theory=th, **OPT)
        except Exception:
            pass
        return b"not-compared"
    else:
        raise KeyError(name)
    return np.ascontiguousarray(r.values).tobytes() + \
        repr(sorted(map(str, r.coords))).encode()


def _run_history(case, ck):
    seq = case["seq"]
    S = _shared()
    before = (fp_xarray(S["det"]), repr(S["scat"]), fp_xarray(S["det2"]),
              repr(S["scat2"]))
    ref = case["ref"]
    for name in seq:
        if str(ref[name]).startswith("FAILED"):
            ck.true("pristine-reference", False, "operation %s failed in a "
                    "pristine interpreter: %s" % (name, ref[name]))
            return "ref-failed"
    outs = []
    for i, name in enumerate(seq):
        got = _op(name)
        ck.trans += 1
        ck.true("history-independent", digest(got) == ref[name],
                "step %d (%s) of %s differs from the same call on fresh "
                "objects in a pristine interpreter" %
                (i + 1, name, ">".join(seq)))
        ck.true("input-untouched",
                (fp_xarray(S["det"]), repr(S["scat"]), fp_xarray(S["det2"]),
                 repr(S["scat2"])) == before,
                "the shared detector or scatterer was modified by step %d "
                "(%s)" % (i + 1, name))
        outs.append(digest(got))
    return digest(*outs)


def _run_large(case, ck):
    """a detector of more than 2**14 pixels: scattering matrix, field and
    hologram at a pixel are those of the same location in a crop, in a short
    list of points and in a sparse subset"""
    import holopy as hp
    from holopy.scattering import calc_scat_matrix, calc_field, calc_holo
    from holopy.core.metadata import make_subset_data
    scat, _ = _theory("mie")
    big = hp.detector_grid((131, 130), 0.05)
    crop = big.isel(x=slice(0, 100), y=slice(0, 90))
    ix = np.array([0, 7, 50, 99, 130, 64, 12])
    iy = np.array([0, 88, 33, 2, 129, 64, 101])
    pts = hp.detector_points(x=big.x.values[ix], y=big.y.values[iy], z=0.0)
    fps = []
    for fname, fn in (("calc_scat_matrix", calc_scat_matrix),
                      ("calc_field", calc_field), ("calc_holo", calc_holo)):
        kw = dict(OPT)
        if fname == "calc_scat_matrix":
            kw.pop("illum_polarization")
        with warnings.catch_warnings():
            warnings.simplefilter("ignore")
            B = fn(big, scat, theory=_theory("mie")[1], **kw)
            C = fn(crop, scat, theory=_theory("mie")[1], **kw)
            P = fn(pts, scat, theory=_theory("mie")[1], **kw)
        ck.trans += 3

        def at(R, i, j):
            if "flat" in R.dims:
                R = R.unstack("flat")
            if "z" in R.dims:
                R = R.isel(z=0)
            return np.asarray(R.isel(x=i, y=j).values).ravel()
        worst = 0.0
        for k, (i, j) in enumerate(zip(ix, iy)):
            b = at(B, int(i), int(j))
            p = np.asarray(P.isel(point=k).values).ravel()
            scale = float(np.abs(b).max()) or 1.0
            worst = max(worst, float(np.abs(b - p).max() / scale))
            if i < 100 and j < 90:
                c = at(C, int(i), int(j))
                worst = max(worst, float(np.abs(b - c).max() / scale))
        ck.metric("large-detector:" + fname, worst)
        ck.true("large-detector", worst == 0.0, "%s on a 131x130 detector "
                "differs at the same locations from a crop / a list of 7 "
                "points by %.3g (relative)" % (fname, worst))
        fps.append(fp_values(np.asarray(P.values)))
    return digest(*fps)


def _run_mlcrops(case, ck):
    """the analytic lens theory with its default options on a 100 x 100
    image: every 16 x 16 crop, and the same pixels as a list of points, give
    the values of the full image (the piecewise approximants of the pupil
    integrals are laid out per call)"""
    import holopy as hp
    from holopy.scattering import Sphere, calc_holo, calc_field
    from holopy.scattering.theory import MieLens
    big = hp.detector_grid((100, 100), 0.1)
    sph = Sphere(n=1.59, r=0.5, center=(5.0, 5.0, 8.0))
    kw = dict(OPT)
    with warnings.catch_warnings():
        warnings.simplefilter("ignore")
        B = calc_holo(big, sph, theory=MieLens(lens_angle=1.0), **kw)
    ck.trans += 1
    Bv = B.isel(z=0).transpose("x", "y").values if "z" in B.dims else \
        B.transpose("x", "y").values
    worst = 0.0
    for i0, j0 in ((0, 0), (84, 84), (10, 60), (42, 42), (70, 5), (30, 84),
                   (55, 20), (84, 40)):
        crop = big.isel(x=slice(i0, i0 + 16), y=slice(j0, j0 + 16))
        with warnings.catch_warnings():
            warnings.simplefilter("ignore")
            Cc = calc_holo(crop, sph, theory=MieLens(lens_angle=1.0), **kw)
        ck.trans += 1
        Cv = Cc.isel(z=0).transpose("x", "y").values if "z" in Cc.dims \
            else Cc.transpose("x", "y").values
        e = float(np.abs(Cv - Bv[i0:i0 + 16, j0:j0 + 16]).max())
        worst = max(worst, e)
        ck.true("crop-of-large-image", e <= 1e-10, "MieLens hologram of the "
                "16x16 crop at pixel (%d, %d) of a 100x100 image differs "
                "from those pixels of the full image by %.2e" % (i0, j0, e))
    ck.metric("mielens-crops", worst)
    return digest(fp_values(Bv[::7, ::7]))


def _run_subsetforms(case, ck):
    """subsets of a volume (several z planes), of a subset, and of a list of
    points: distinct locations drawn from ALL of them, values and
    coordinates kept, selecting commutes with the calculation"""
    import xarray as xr
    import holopy as hp
    from holopy.core.metadata import make_subset_data, flat
    scat, theory = _theory("mie")
    fps = []
    a = hp.detector_grid((4, 5), 0.3)
    vol = xr.concat([a, a.assign_coords(z=a.z + 0.5),
                     a.assign_coords(z=a.z + 1.0)], dim="z")
    pts = hp.detector_points(x=np.arange(12) * 0.3, y=np.arange(12) * 0.2 - 1,
                             z=0.0)
    first = make_subset_data(hp.detector_grid((6, 7), 0.3), pixels=30, seed=5)
    for name, det, n in (("volume of 3 planes", vol, 60),
                         ("subset of a subset", first, 30),
                         ("list of points", pts, 12)):
        full = _holo(det, scat, _theory("mie")[1])
        ck.trans += 1
        if name == "volume of 3 planes":
            # every plane of the volume is the hologram of that plane alone
            for zz in [float(v) for v in vol.z.values]:
                one = _holo(a.assign_coords(z=a.z * 0 + zz), scat,
                            _theory("mie")[1])
                ck.trans += 1
                g = full.sel(z=zz).transpose("x", "y").values
                h = one.isel(z=0).transpose("x", "y").values \
                    if "z" in one.dims else one.transpose("x", "y").values
                ck.true("volume-plane", g.shape == h.shape and
                        bool(np.array_equal(g, h)), "plane z = %g of a "
                        "3-plane volume differs from the hologram of that "
                        "plane alone by %.3g" % (zz, float(np.abs(
                            g - h).max()) if g.shape == h.shape else -1))
        ff = flat(full) if "flat" not in full.dims and \
            "point" not in full.dims else full
        dim = "point" if "point" in ff.dims else "flat"
        seen = set()
        for k, seed in ((n, 1), (n // 2, 2), (n // 2, 3), (5, 4), (5, 5),
                        (1, 6)):
            try:
                sub = make_subset_data(full, pixels=k, seed=seed)
                again = make_subset_data(full, pixels=k, seed=seed)
                ck.trans += 2
            except Exception as e:
                ck.true("subset-accepts", False, "make_subset_data(%s, "
                        "pixels=%d) raised %s: %s" %
                        (name, k, type(e).__name__, str(e)[:80]))
                continue
            sdim = "point" if "point" in sub.dims else "flat"
            locs = list(zip(sub.x.values.tolist(), sub.y.values.tolist(),
                            np.broadcast_to(sub.z.values, sub.x.shape)
                            .tolist()))
            ck.true("subset-distinct", len(set(locs)) == k == sub.sizes[sdim],
                    "make_subset_data(%s, pixels=%d): %d locations, %d "
                    "distinct" % (name, k, sub.sizes[sdim], len(set(locs))))
            ck.true("subset-reproducible", bool(np.array_equal(
                sub.values, again.values)), "%s: the same seed gives another "
                "subset" % name)
            allv = {(x, y, float(z)): v for x, y, z, v in zip(
                ff.x.values.tolist(), ff.y.values.tolist(),
                np.broadcast_to(ff.z.values, ff.x.shape).tolist(),
                np.asarray(ff.values).ravel().tolist())}
            bad = [l for l, v in zip(locs, np.asarray(sub.values).ravel())
                   if allv.get((l[0], l[1], float(l[2]))) != v]
            ck.true("subset-values", not bad, "%s, pixels=%d: %d selected "
                    "values are not the values at their locations" %
                    (name, k, len(bad)))
            seen |= set(locs)
            if name == "subset of a subset":
                # the image axes remembered by the first subset are still
                # the ones remembered by a subset of it
                s2 = make_subset_data(first, pixels=k, seed=seed)
                od1 = first.attrs.get("original_dims") or {}
                od2 = s2.attrs.get("original_dims") or {}
                ck.true("subset-original-dims", set(od2) == set(od1) and
                        "x" in od2 and all(np.array_equal(
                            np.asarray(od1[d]), np.asarray(od2[d]))
                            for d in od1),
                        "a subset of a subset remembers the axes %r, the "
                        "first subset remembered %r" %
                        (sorted(od2), sorted(od1)))
        ck.true("subset-covers", len(seen) == n, "%s: subsets (one of them "
                "of all %d locations) only ever reached %d of them" %
                (name, n, len(seen)))
        fps.append(fp_values(np.asarray(full.values)))
    return digest(*fps)


def run_case(case):
    ck = Checker()
    fp = {"grid": _run_grid, "scripted": _run_scripted,
          "subsetforms": _run_subsetforms, "large": _run_large, "mlcrops": _run_mlcrops,
          "mixedz": _run_mixedz, "biglarge": _run_biglarge,
          "gridfar": _run_gridfar, "lenscounts": _run_lenscounts,
          "coordforms": _run_coordforms, "detbuild": _run_detbuild,
          "clusterladder": _run_clusterladder,
          "history": _run_history}[case["kind"]](case, ck)
    return ck.result(fp=fp)


def coverage_extra(cases, results):
    hits = sum(r.get("metrics", {}).get("scripted-seam-hits", 0)
               for c, r in zip(cases, results) if c["kind"] == "scripted")
    return {"scripted_selections_executed": int(hits),
            "histories": sum(1 for c in cases if c["kind"] == "history"),
            "grids": sum(1 for c in cases if c["kind"] == "grid")}

"""C06 -- superposition, polarization linearity, multi-channel = stacked
single-channel.

(A) every non-empty subset (size <= 4) of a 6-sphere alphabet and nested
    composite trees x theory x detector kind: field(collection) = sum of the
    members' fields;
(B) polarization alphabet x theory x scatterer: field linear in (a, b);
(C) multi-channel: deviation-bounded product over the kind of every
    per-channel input (dict / labelled array / scalar), every permutation of
    the label order of every dictionary, channel count and detector kind:
    each channel must equal the single-channel call.
"""
import itertools
import math
import warnings

import numpy as np

import hpcases as H
from lib import Checker, deviations, digest, fp_values, pick, vec_id

PROPERTY = "C06"
RULE = ("(A) all subsets of size <= 4 (3 quick) of 6 spheres + 6 nested "
        "trees, x 3 theories x 2 detector kinds; (B) 7 polarization vectors "
        "x 4 theories x 3 scatterers; (C) vectors with <= D deviations over "
        "{channels, wavelength kind, polarization kind, index kind, radius "
        "kind, scaling kind, noise kind, detector kind, label order of each "
        "dictionary (all permutations)}.  Non-trivial = distinct result "
        "fingerprint")
ASSUMPTIONS = ["alphabet values only"]
TOLERANCES = {"superposition": 1e-13, "linearity": 1e-12,
              "linearity-multisphere": 1e-6, "channels": "8 ulp of the "
              "largest pixel"}
TIMEOUT = 600

SPH = [  # n, r, center  (all far enough apart not to overlap)
    (1.59, 0.5, (0.2, 0.1, 5.0)),
    (1.45, 0.3, (1.6, 0.9, 6.0)),
    ([1.45, 1.59], [0.2, 0.4], (-1.2, 0.8, 4.5)),
    (1.7, 0.25, (0.3, -1.4, 7.0)),
    ([1.59, 1.4, 1.5], [0.1, 0.2, 0.35], (-0.9, -1.1, 5.5)),
    (1.59 + 0.02j, 0.4, (1.9, -0.8, 8.0)),
    ([1.59, H.NMED], [0.2, 0.3], (-2.2, 0.3, 6.5)),   # shell = medium index
]
TREES = ["[0,[1,2]]", "[[0],[1],[2]]", "[[0,1],[2,[3]]]", "[[[0]]]",
         "[0,1,[2,[3,[4]]]]", "[[5,4],[3,2],[1,0]]"]
THEORIES = {"Mie": ("Mie", (), {}), "MieLens": ("MieLens", (0.8,), {}),
            "Lens": ("Lens", (0.8, ("Mie", (False, False), {}), 48, 48), {})}
POLS = [(1, 0), (0, 1), (1, 1), (3, 4), (-2, 0.5), (0, -7), (1e-3, 1),
        (1, 1, 0), (3, -2, 0), (0.70711, 0.70711), (-1, 0), (1, -2)]
LIN_TH = {"Mie": ("Mie", (), {}),
          "Multisphere": ("Multisphere", (), {"eps": 1e-12, "qeps1": 1e-12,
                                              "qeps2": 1e-14}),
          "MieLens": ("MieLens", (0.8,), {}),
          "Lens": ("Lens", (0.8, ("Mie", (False, False), {}), 48, 48), {})}
LIN_SC = ["mie", "layered", "mie2"]

LABELS = {2: ["red", "green"], 3: ["red", "green", "blue"]}
WLS = {"red": 0.66, "green": 0.52, "blue": 0.447}
NIDX = {"red": 1.58 + 0.01j, "green": 1.60, "blue": 1.62 + 0.03j}
RAD = {"red": 0.5, "green": 0.45, "blue": 0.55}
ALPHA = {"red": 0.8, "green": 0.9, "blue": 1.1}
PCH = {"red": (1, 0), "green": (0, 1), "blue": (0.6, 0.8)}
NOISE = {"red": 0.05, "green": 0.08, "blue": 0.02}

CH_AXES = {
    "nch": [2, 3],
    # "list": plain numbers in the order of the detector's channels
    "wl": ["dict", "xarray", "list"],
    "pol": ["vector", "dict", "xarray", "xarray-raw", "xarray-yxz",
            "xarray-yx"],
    "n": ["scalar", "dict", "xarray"],
    "r": ["scalar", "dict"],
    "alpha": ["scalar", "dict"],
    "noise": ["none", "scalar", "dict"],
    "det": ["grid", "image"],
    "shape": [[3, 4], [1, 4], [4, 1], [1, 1]],
    "ord_wl": list(range(6)), "ord_pol": list(range(6)),
    "ord_n": list(range(6)), "ord_r": list(range(6)),
    "ord_alpha": list(range(6)),
}


def cases(tier, seed):
    out = []
    maxk = 3 if tier == "quick" else len(SPH)
    for k in range(1, maxk + 1):
        for sub in itertools.combinations(range(len(SPH)), k):
            out.append({"id": "sup:" + "".join(map(str, sub)), "kind": "sup",
                        "members": list(sub)})
    if tier == "quick":
        for sub in ([0, 1, 3, 5], [0, 1, 2, 3, 4], [0, 1, 2, 3, 4, 5],
                    [1, 3, 5, 6], [0, 1, 2, 3, 4, 5, 6]):
            out.append({"id": "sup:" + "".join(map(str, sub)), "kind": "sup",
                        "members": list(sub)})
    # generic nested Scatterers trees: HoloPy cannot run calc_* on them at
    # all (no .center); kept as cases whose refusal is recorded, so that
    # they start being checked if that is ever supported
    for i, t in enumerate(TREES):
        out.append({"id": "tree#%d" % i, "kind": "tree", "tree": t})
    for th in LIN_TH:
        for sc in LIN_SC:
            if th in ("Multisphere", "MieLens") and sc == "layered":
                continue        # homogeneous spheres only
            out.append({"id": "lin:%s:%s" % (th, sc), "kind": "lin",
                        "th": th, "sc": sc})
    out.append({"id": "lin:typed-polarization", "kind": "lintyped"})
    for what in ("n", "r", "n+r"):
        for wth in ("alone", "in-collection"):
            out.append({"id": "chlayered:%s:%s" % (what, wth),
                        "kind": "chlayered", "what": what, "with": wth})
    # a close pair of spheres (interacting: the default theory is
    # Multisphere) with channel-dependent index or radius
    for what in ("n-dict", "n-xarray", "r-dict", "n-dict+r-dict"):
        for th in ("auto", "Multisphere"):
            out.append({"id": "chcluster:%s:%s" % (what, th),
                        "kind": "chcluster", "what": what, "th": th})
    # channels through every theory for spheres, with wavelengths that are
    # all different, all equal or equal in pairs (channels that differ in
    # polarization only share every wavelength-keyed intermediate)
    for th in CHTH:
        for wlp in ("distinct", "equal", "aba", "scalar"):
            for polo in (0, 1, 2):
                out.append({"id": "chtheory:%s:wl=%s:pol-order=%d" %
                            (th, wlp, polo), "kind": "chtheory", "th": th,
                            "wlp": wlp, "polo": polo})
    D = 2 if tier == "quick" else 3
    for vec in deviations({k: list(range(len(v))) for k, v in
                           CH_AXES.items()}, D):
        v = pick(CH_AXES, vec)
        # an order axis only matters when its parameter is a dict; with two
        # channels only two orders exist
        skip = False
        for par in ("wl", "pol", "n", "r", "alpha"):
            o = v["ord_" + par]
            if o and (v[par] not in ("dict", "xarray") or
                      o >= math.factorial(v["nch"])):
                skip = True
        if skip:
            continue
        out.append({"id": "ch:" + vec_id(vec), "kind": "ch", "vec": vec})
    # every combination of the forms of wavelength, polarization and index,
    # each labelled form in the detector's channel order and in another one
    # (a mistake that needs two forms at once is beyond the deviation bound)
    last = {2: 1, 3: 4}
    for nch in ((2,) if tier == "quick" else (2, 3)):
        forms = lambda kinds: [(k, o) for k in kinds for o in
                               ((0, last[nch]) if k in ("dict", "xarray")
                                else (0,))]
        for (wk, wo), (pk, po), (nk, no) in itertools.product(
                forms(["dict", "xarray", "list"]),
                forms(["vector", "dict", "xarray"]),
                forms(["scalar", "dict", "xarray"])):
            v = {"nch": nch, "wl": wk, "pol": pk, "n": nk, "r": "scalar",
                 "alpha": "scalar", "noise": "none", "det": "grid",
                 "shape": [3, 4], "ord_wl": wo, "ord_pol": po, "ord_n": no,
                 "ord_r": 0, "ord_alpha": 0}
            out.append({"id": "chmix:nch=%d:wl=%s%d:pol=%s%d:n=%s%d" %
                        (nch, wk, wo, pk, po, nk, no), "kind": "ch", "v": v})
    return out


def _sphere(i):
    from holopy.scattering import Sphere
    n, r, c = SPH[i]
    return Sphere(n=list(n) if isinstance(n, list) else n,
                  r=list(r) if isinstance(r, list) else r, center=c)


def _dets():
    return {"grid": H.det_grid((4, 3), (0.1, 0.12)),
            "points": H.det_points([[0.0, 0.0, 0.0], [0.5, -0.3, 0.0],
                                    [-0.7, 0.4, 0.0], [1.5, 1.2, 0.0]])}


def _field(det, scat, theory, pol=(0.6, 0.8)):
    from holopy.scattering import calc_field
    with warnings.catch_warnings():
        warnings.simplefilter("ignore")
        return calc_field(det, scat, H.NMED, H.WL, pol, theory=theory)


def _check_sup(ck, members, collection, label):
    fps = []
    layered = any(isinstance(SPH[i][0], list) for i in members)
    for thn, tspec in THEORIES.items():
        if thn == "MieLens" and layered:
            continue        # MieLens is for homogeneous spheres only
        for dk, det in _dets().items():
            th = H.mk_theory(tspec)
            tot = _field(det, collection, th)
            parts = [_field(det, _sphere(i), H.mk_theory(tspec)).values
                     for i in members]
            ck.trans += 1 + len(parts)
            ref = np.sum(parts, axis=0)
            scale = float(np.sum([np.abs(p).max() for p in parts]))
            e = float(np.abs(tot.values - ref).max() / scale)
            ck.metric("superposition", e)
            ck.true("superposition", tot.values.shape == ref.shape and
                    e <= 1e-13, "%s: field of the collection differs from "
                    "the sum of its members' fields by %.2e (%s, %s)" %
                    (label, e, thn, dk))
            fps.append(fp_values(tot.values))
    return digest(*fps)


def _run_sup(case, ck):
    from holopy.scattering import Spheres
    with warnings.catch_warnings():
        warnings.simplefilter("ignore")
        coll = Spheres([_sphere(i) for i in case["members"]])
    return _check_sup(ck, case["members"], coll, "Spheres%r" %
                      case["members"])


def _build_tree(t):
    from holopy.scattering import Scatterers
    if isinstance(t, int):
        return _sphere(t), [t]
    subs, mem = [], []
    for x in t:
        s, m = _build_tree(x)
        subs.append(s)
        mem += m
    return Scatterers(subs), mem


def _run_tree(case, ck):
    tree = eval(case["tree"])          # literal list of ints
    coll, members = _build_tree(tree)
    try:
        return _check_sup(ck, members, coll, "Scatterers tree %s" %
                          case["tree"])
    except AttributeError as e:
        if "center" in str(e):
            return "unsupported"
        raise


def _run_lin(case, ck):
    th, sc = case["th"], case["sc"]
    scat = H.mk_scatterer(H.ST[sc][0])
    if th in ("MieLens", "Lens") and sc == "mie2":
        pass
    tol = 1e-6 if th == "Multisphere" else 1e-12
    fps = []
    for dk, det in _dets().items():
        if th in ("MieLens", "Lens") and dk == "points":
            pass
        Fx = _field(det, scat, H.mk_theory(LIN_TH[th]), (1, 0)).values
        Fy = _field(det, scat, H.mk_theory(LIN_TH[th]), (0, 1)).values
        ck.trans += 2
        scale = max(np.abs(Fx).max(), np.abs(Fy).max())
        for pv in POLS:
            a, b = pv[0], pv[1]
            F = _field(det, scat, H.mk_theory(LIN_TH[th]), pv).values
            ck.trans += 1
            ref = (a * Fx + b * Fy) / math.hypot(a, b)
            e = float(np.abs(F - ref).max() / scale)
            ck.metric("linearity" + ("-multisphere" if th == "Multisphere"
                                     else ""), e)
            ck.true("linearity", e <= tol, "%s/%s on %s: field for "
                    "polarization (%r, %r) differs from (a*F_x + b*F_y)/|"
                    "(a,b)| by %.2e" % (th, sc, dk, a, b, e))
            fps.append(fp_values(F))
    return digest(*fps)


def _run_lintyped(case, ck):
    """polarization linearity when the vector is a typed array (the squares
    of its components need not fit its own type, and its own precision is
    not the precision of the result)"""
    import xarray as xr
    scat = H.mk_scatterer(H.ST["mie"][0])
    det = _dets()["points"]
    th = lambda: H.mk_theory(LIN_TH["Mie"])
    Fx = _field(det, scat, th(), (1, 0)).values
    Fy = _field(det, scat, th(), (0, 1)).values
    scale = max(np.abs(Fx).max(), np.abs(Fy).max())
    forms = []
    for dt, vals in (("float16", [3, 4, 0]), ("float16", [300, 400, 0]),
                     ("float16", [0.6, 0.8, 0]), ("float32", [0.6, 0.8, 0]),
                     ("float32", [0.6, -0.8]), ("float16", [3, 4]),
                     ("int8", [100, 100, 0]), ("uint8", [200, 100, 0]),
                     ("int16", [300, -400]), ("int64", [3, 4, 0])):
        arr = np.array(vals, dtype=dt)
        forms.append(("np.array(%r, %s)" % (vals, dt), arr))
        if len(vals) == 3:
            forms.append(("labelled " + forms[-1][0], xr.DataArray(
                arr.copy(), dims="vector", coords={"vector": ["x", "y", "z"]})))
    fps = []
    for name, pv in forms:
        a, b = float(np.asarray(pv)[0]), float(np.asarray(pv)[1])
        before = np.asarray(pv).copy()
        try:
            F = _field(det, scat, th(), pv).values
        except Exception as e:
            ck.true("linearity-typed", False, "polarization %s raised %s: %s"
                    % (name, type(e).__name__, e))
            continue
        ck.trans += 1
        ref = (a * Fx + b * Fy) / math.hypot(a, b)
        e = float(np.abs(F - ref).max() / scale)
        ck.metric("linearity-typed", e)
        ck.true("linearity-typed", e <= 1e-12, "Mie: field for polarization "
                "%s differs from (a*F_x + b*F_y)/|(a,b)| by %.2e" % (name, e))
        ck.true("input-unchanged", np.array_equal(np.asarray(pv), before) and
                np.asarray(pv).dtype == before.dtype,
                "polarization %s was modified by the call" % name)
        fps.append(fp_values(F))
    return digest(*fps)


def _perm(labels, k):
    return list(list(itertools.permutations(labels))[k])


def _mk_param(kind, table, labels, order, vec=False):
    import xarray as xr
    from holopy.core.metadata import to_vector
    if kind == "scalar":
        return table[labels[0]]
    if kind == "vector":
        return table[labels[0]]
    if kind == "dict":
        return {lab: table[lab] for lab in _perm(labels, order)}
    if kind == "list":
        return [table[lab] for lab in labels]
    if kind == "xarray-raw":
        # a labelled array whose rows are NOT unit vectors
        raw = {"red": (2.0, 0.0, 0.0), "green": (0.0, 3.0, 0.0),
               "blue": (0.3, 0.4, 0.0)}
        return xr.DataArray([raw[lab] for lab in labels],
                            dims=["illumination", "vector"],
                            coords={"illumination": labels,
                                    "vector": ["x", "y", "z"]})
    if kind == "xarray-yx":
        # two labelled components, listed as y, x
        full = xr.concat([to_vector(table[lab]) for lab in labels],
                         xr.DataArray(labels, dims="illumination",
                                      name="illumination"))
        return full.sel(vector=["y", "x"])
    if kind == "xarray-yxz":
        # the same unit vectors with the components listed as y, x, z
        full = xr.concat([to_vector(table[lab]) for lab in labels],
                         xr.DataArray(labels, dims="illumination",
                                      name="illumination"))
        return full.sel(vector=["y", "x", "z"])
    if kind == "xarray":
        # (a labelled array may list the channels in any order)
        labs = _perm(labels, order)
        if vec:
            return xr.concat([to_vector(table[lab]) for lab in labs],
                             xr.DataArray(labs, dims="illumination",
                                          name="illumination"))
        return xr.DataArray([table[lab] for lab in labs],
                            dims="illumination",
                            coords={"illumination": labs})
    raise ValueError(kind)


CHTH = ["Mie", "MieLens", "AberratedMieLens", "Lens(Mie)", "Multisphere",
        "Mie-collection", "MieLens-collection"]
CHPOL = [{"red": (0.6, 0.8), "green": (0, 1), "blue": (1, 0)},
         {"red": (0, 1), "green": (0.6, -0.8), "blue": (0.6, 0.8)},
         {"red": (1, 0), "green": (0.28, 0.96), "blue": (0, 1)}]
CHTOL = {"Mie": 1e-13, "Mie-collection": 1e-13, "Multisphere": 1e-12}


def _run_chtheory(case, ck):
    from holopy.scattering import (Sphere, Spheres, Mie, MieLens,
                                   AberratedMieLens, Multisphere, calc_holo,
                                   calc_field)
    from holopy.scattering.theory import Lens
    th, wlp = case["th"], case["wlp"]
    labels = LABELS[3]
    wls = {"distinct": WLS, "equal": dict.fromkeys(labels, 0.66),
           "aba": {"red": 0.66, "green": 0.52, "blue": 0.66},
           "scalar": dict.fromkeys(labels, 0.66)}[wlp]
    wl = 0.66 if wlp == "scalar" else dict(wls)
    pols = CHPOL[case["polo"]]

    def theory():
        return {"Mie": Mie, "Mie-collection": Mie, "Multisphere": Multisphere,
                "MieLens": lambda: MieLens(0.8),
                "MieLens-collection": lambda: MieLens(0.8),
                "AberratedMieLens": lambda: AberratedMieLens(
                    [0.1, -0.05, 0.02], 0.8),
                "Lens(Mie)": lambda: Lens(0.8, Mie(False, False),
                                          quad_npts_theta=40,
                                          quad_npts_phi=40)}[th]()
    s0 = Sphere(n=1.59, r=0.5, center=(0.17, 0.21, 5.0))
    if th.endswith("-collection") or th == "Multisphere":
        scat = Spheres([s0, Sphere(n=1.45, r=0.3, center=(1.4, 1.0, 5.6))])
    else:
        scat = s0
    shape, spacing = (3, 4), 0.1
    det = H.det_grid(shape, spacing, extra_dims={"illumination": labels})
    det1 = H.det_grid(shape, spacing)
    tol = CHTOL.get(th, 1e-11)
    fps = []
    with warnings.catch_warnings():
        warnings.simplefilter("ignore")
        try:
            holo = calc_holo(det, scat, H.NMED, wl, dict(pols),
                             theory=theory(), scaling=0.8)
            field = calc_field(det, scat, H.NMED, wl, dict(pols),
                               theory=theory())
        except Exception as e:          # noqa
            ck.true("multichannel-accepted", False, "multi-channel "
                    "calculation with %s raised %s: %s" %
                    (th, type(e).__name__, e))
            return "exc:" + type(e).__name__
        ck.trans += 2
        for lab in labels:
            h1 = calc_holo(det1, scat, H.NMED, wls[lab], pols[lab],
                           theory=theory(), scaling=0.8)
            f1 = calc_field(det1, scat, H.NMED, wls[lab], pols[lab],
                            theory=theory())
            ck.trans += 2
            for nm, multi, single in (("hologram", holo, h1),
                                      ("field", field, f1)):
                got = multi.sel(illumination=lab).transpose(
                    *single.dims).values
                e = float(np.abs(got - single.values).max() /
                          np.abs(single.values).max())
                ck.metric("channels-by-theory:" + th, e)
                ck.true("channel-equals-single:by-theory", e <= tol,
                        "%s, wavelengths %s, polarizations %r: channel %r of "
                        "the multi-channel %s differs from the single-"
                        "channel calculation by %.3g" %
                        (th, wlp, pols, lab, nm, e))
                fps.append(fp_values(got))
    return digest(*fps)


def _run_ch(case, ck):
    import xarray as xr
    from holopy.core.metadata import update_metadata
    from holopy.scattering import Sphere, Mie, calc_holo, calc_field
    v = case.get("v") or pick(CH_AXES, case["vec"])
    labels = LABELS[v["nch"]]
    wl = _mk_param(v["wl"], WLS, labels, v["ord_wl"])
    pol = _mk_param(v["pol"], PCH, labels, v["ord_pol"], vec=True)
    n = _mk_param(v["n"], NIDX, labels, v["ord_n"])
    r = _mk_param(v["r"], RAD, labels, v["ord_r"])
    alpha = _mk_param(v["alpha"], ALPHA, labels, v["ord_alpha"])
    center = (0.17, 0.21, 5.0)
    scat = Sphere(n=n, r=r, center=center)
    shape, spacing = tuple(v["shape"]), 0.1
    try:
        det = H.det_grid(shape, spacing,
                         extra_dims={"illumination": labels})
    except Exception as e:
        ck.true("multichannel-accepted", False, "a %dx%d detector with an "
                "illumination axis cannot be built: %s: %s" %
                (shape + (type(e).__name__, e)))
        return "exc:" + type(e).__name__
    if v["det"] == "image":
        det = det + 1.0        # an "image": same grid with data values
        det.name = "img"
    if v["noise"] != "none":
        det = update_metadata(det, noise_sd=_mk_param(
            v["noise"], NOISE, labels, 0))
    try:
        with warnings.catch_warnings():
            warnings.simplefilter("ignore")
            holo = calc_holo(det, scat, H.NMED, wl, pol, theory=Mie(),
                             scaling=alpha)
            field = calc_field(det, scat, H.NMED, wl, pol, theory=Mie())
        ck.trans += 2
    except Exception as e:
        ck.true("multichannel-accepted", False, "multi-channel calculation "
                "raised %s: %s (%s)" % (type(e).__name__, e, v))
        return "exc:" + type(e).__name__
    # (the order of the channels along the axis is not part of the
    # statement: channels are addressed by label)
    ck.true("channel-axis", "illumination" in holo.dims and
            sorted(holo.illumination.values) == sorted(labels),
            "illumination axis of the result is %r, detector has %r" %
            (list(holo.coords.get("illumination", xr.DataArray([])).values),
             labels))
    det1 = H.det_grid(shape, spacing)
    fps = []
    for lab in labels:
        n1 = NIDX[lab] if v["n"] != "scalar" else NIDX[labels[0]]
        r1 = RAD[lab] if v["r"] != "scalar" else RAD[labels[0]]
        a1 = ALPHA[lab] if v["alpha"] != "scalar" else ALPHA[labels[0]]
        p1 = PCH[lab] if v["pol"] != "vector" else PCH[labels[0]]
        s1 = Sphere(n=n1, r=r1, center=center)
        h1 = calc_holo(det1, s1, H.NMED, WLS[lab], p1, theory=Mie(),
                       scaling=a1)
        f1 = calc_field(det1, s1, H.NMED, WLS[lab], p1, theory=Mie())
        ck.trans += 2
        got = holo.sel(illumination=lab).transpose(*h1.dims).values
        big = float(np.abs(h1.values).max())
        e = float(np.abs(got - h1.values).max() / np.spacing(big))
        ck.metric("channels-ulp", e)
        ck.true("channel-equals-single", e <= 8,
                "channel %r of the multi-channel hologram differs from the "
                "single-channel calculation by %.3g ulp (%s)" % (lab, e, v))
        gotf = field.sel(illumination=lab).transpose(*f1.dims).values
        bigf = float(np.abs(f1.values).max())
        e = float(np.abs(gotf - f1.values).max() / np.spacing(bigf))
        ck.metric("channels-field-ulp", e)
        ck.true("channel-field-equals-single", e <= 8,
                "channel %r of the multi-channel field differs from the "
                "single-channel calculation by %.3g ulp (%s)" % (lab, e, v))
        fps.append(fp_values(got))
    return digest(*fps)


def _run_chlayered(case, ck):
    """a layered sphere whose per-channel index / radii are labelled arrays
    (illumination x layer), alone and next to a uniform sphere"""
    import xarray as xr
    from holopy.scattering import (Sphere, Spheres, Mie, calc_holo,
                                   calc_field)
    labels = ["red", "green", "blue"]
    nlay = {"red": [1.45, 1.59], "green": [1.46, 1.6], "blue": [1.47, 1.62]}
    rlay = {"red": [0.3, 0.5], "green": [0.3, 0.5], "blue": [0.28, 0.52]}
    order = ["green", "blue", "red"]            # not the detector's order

    def arr(tab):
        return xr.DataArray([tab[l] for l in order],
                            dims=["illumination", "layer"],
                            coords={"illumination": order})
    what = case["what"]
    nv = arr(nlay) if "n" in what else nlay["red"]
    rv = arr(rlay) if "r" in what else rlay["red"]
    c1, c2 = (0.17, 0.21, 5.0), (3.1, -2.6, 6.4)

    def mk(n, r):
        lay = Sphere(n=n, r=r, center=c1)
        if case["with"] == "alone":
            return lay
        with warnings.catch_warnings():
            warnings.simplefilter("ignore")
            return Spheres([lay, Sphere(n=1.45, r=0.3, center=c2)])
    wl = {lab: WLS[lab] for lab in labels}
    det = H.det_grid((3, 4), 0.1, extra_dims={"illumination": labels})
    det1 = H.det_grid((3, 4), 0.1)
    fps = []
    for fn in (calc_holo, calc_field):
        try:
            with warnings.catch_warnings():
                warnings.simplefilter("ignore")
                multi = fn(det, mk(nv, rv), H.NMED, wl, (1, 0), theory=Mie())
            ck.trans += 1
        except Exception as e:
            ck.true("multichannel-accepted", False, "%s of a layered sphere "
                    "with labelled per-channel %s raised %s: %s" %
                    (fn.__name__, what, type(e).__name__, e))
            return "exc:" + type(e).__name__
        for lab in labels:
            n1 = nlay[lab] if "n" in what else nlay["red"]
            r1 = rlay[lab] if "r" in what else rlay["red"]
            with warnings.catch_warnings():
                warnings.simplefilter("ignore")
                one = fn(det1, mk(n1, r1), H.NMED, WLS[lab], (1, 0),
                         theory=Mie())
            ck.trans += 1
            got = multi.sel(illumination=lab).transpose(*one.dims).values
            e = float(np.abs(got - one.values).max() /
                      np.spacing(float(np.abs(one.values).max())))
            ck.metric("channels-layered-ulp", e)
            ck.true("channel-equals-single", e <= 8, "layered sphere with "
                    "labelled per-channel %s (%s): channel %r of %s differs "
                    "from the single-channel calculation by %.3g ulp" %
                    (what, case["with"], lab, fn.__name__, e))
            fps.append(fp_values(got))
    return digest(*fps)


def _run_chcluster(case, ck):
    from holopy.scattering import (Sphere, Spheres, Multisphere, calc_holo,
                                   calc_field)
    labels = ["red", "green"]
    what, thname = case["what"], case["th"]
    c1, c2 = (0.17, 0.21, 5.0), (1.1, 0.6, 5.4)

    def mk(nv, rv):
        with warnings.catch_warnings():
            warnings.simplefilter("ignore")
            return Spheres([Sphere(n=nv, r=rv, center=c1),
                            Sphere(n=1.45, r=0.3, center=c2)])
    nv = _mk_param("dict" if "n-dict" in what else
                   ("xarray" if "n-xarray" in what else "scalar"),
                   NIDX, labels, 1)
    rv = _mk_param("dict" if "r-dict" in what else "scalar", RAD, labels, 1)
    wl = {lab: WLS[lab] for lab in labels}
    det = H.det_grid((3, 4), 0.1, extra_dims={"illumination": labels})
    det1 = H.det_grid((3, 4), 0.1)

    def theory():
        return "auto" if thname == "auto" else Multisphere()
    fps = []
    for fn in (calc_holo, calc_field):
        try:
            with warnings.catch_warnings():
                warnings.simplefilter("ignore")
                multi = fn(det, mk(nv, rv), H.NMED, wl, (1, 0),
                           theory=theory())
            ck.trans += 1
        except Exception as e:
            ck.true("multichannel-accepted", False, "%s of a two-sphere "
                    "cluster with per-channel %s (theory %s) raised %s: %s" %
                    (fn.__name__, what, thname, type(e).__name__, e))
            return "exc:" + type(e).__name__
        for lab in labels:
            n1 = NIDX[lab] if "n-" in what else NIDX[labels[0]]
            r1 = RAD[lab] if "r-dict" in what else RAD[labels[0]]
            with warnings.catch_warnings():
                warnings.simplefilter("ignore")
                one = fn(det1, mk(n1, r1), H.NMED, WLS[lab], (1, 0),
                         theory=theory())
            ck.trans += 1
            got = multi.sel(illumination=lab).transpose(*one.dims).values
            e = float(np.abs(got - one.values).max() /
                      np.abs(one.values).max())
            ck.metric("chcluster", e)
            ck.true("channel-equals-single", e <= 1e-9, "%s: channel %r of "
                    "a two-sphere cluster with per-channel %s (theory %s) "
                    "differs from the single-channel calculation by %.2e" %
                    (fn.__name__, lab, what, thname, e))
            fps.append(fp_values(got))
    return digest(*fps)


def run_case(case):
    ck = Checker()
    fp = {"sup": _run_sup, "tree": _run_tree, "lin": _run_lin, "lintyped": _run_lintyped, "chlayered": _run_chlayered,
          "ch": _run_ch, "chcluster": _run_chcluster,
          "chtheory": _run_chtheory}[case["kind"]](case, ck)
    if fp == "unsupported":
        return ck.result(fp=fp, outcome="refused", nontrivial=False)
    return ck.result(fp=fp)

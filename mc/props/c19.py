"""C19 -- coordinate conversions and Euler rotations are mutually consistent.

Bounded-exhaustive: every point of a signed lattice (both signs of zero on
the axes), every ordered pair / 3-step composition of coordinate systems,
every Euler triple of an angle alphabet, every subset of a 6-member sphere
alphabet as a composite.  Oracles are written with math/numpy only.
"""
import itertools
import math

import numpy as np

from lib import Checker, digest, euler_zyz, rel_err

PROPERTY = "C19"
RULE = ("cases = blocks of a complete Cartesian lattice (coordinate alphabet^3"
        " incl. +-0), complete Euler-angle alphabet^3, and every non-empty "
        "subset of a 6-sphere alphabet x rotation x translation x call form; "
        "a case is non-trivial when its observed value fingerprint differs "
        "from other cases'")
ASSUMPTIONS = ["numpy/math trigonometric functions are correct to a few ulp",
               "only values of the stated alphabets are explored"]
TOLERANCES = {"roundtrip": 1e-12, "compose": 1e-12, "radius": 1e-13,
              "rot_vs_elementary": 1e-13, "orthogonal": 1e-14,
              "rigid": 1e-11}
TIMEOUT = 600

SYSTEMS = ["cartesian", "spherical", "cylindrical"]
COORD = {"quick": [0.0, -0.0, 1e-9, -1e-9, 0.5, -0.5, 3.0, -3.0, 1e9],
         "thorough": [0.0, -0.0, 1e-9, -1e-9, 0.5, -0.5, 1.0, -1.0, 3.0, -3.0,
                      1e9, -1e9, 1e-300, 7e150]}
ANG = {"quick": [0.0, math.pi / 6, -math.pi / 6, math.pi / 2, math.pi, 7.3],
       "thorough": [0.0, math.pi / 6, -math.pi / 6, math.pi / 2, math.pi,
                    3 * math.pi / 2, 2 * math.pi, 7.3, -4.1, 1e-9]}
MEMBERS = [  # (n, r, center)
    (1.59, 0.5, (0.0, 0.0, 0.0)),
    (1.45, 0.3, (1.0, -2.0, 3.0)),
    (1.59 + 0.1j, 0.7, (-4.0, 0.5, 0.25)),
    ([1.45, 1.59], [0.2, 0.4], (2.0, 2.0, -2.0)),
    (1.7, 0.1, (0.0, 5.0, 0.0)),
    (1.33, 1.0, (10.0, 10.0, 10.0)),
]
ROT = {"quick": [(0.3, 0.4, 0.5), (0.0, 0.0, 0.0), (math.pi / 2, 0, 0),
                 (0, math.pi, 0), (7.3, -4.1, 1.0)],
       "thorough": [(0.3, 0.4, 0.5), (0.0, 0.0, 0.0), (math.pi / 2, 0, 0),
                    (0, math.pi / 2, 0), (0, 0, math.pi / 2),
                    (0, math.pi, 0), (7.3, -4.1, 1.0),
                    (-math.pi / 6, 2 * math.pi, 3 * math.pi / 2)]}
TRANS = [(1.0, -2.0, 3.0), (0.0, 0.0, 0.0), (1e6, 0.0, 0.0)]


def cases(tier, seed):
    out = []
    A = COORD[tier]
    # points: one case per x value (block of |A|^2 points)
    for ix, x in enumerate(A):
        out.append({"id": "points:x#%d" % ix, "kind": "points", "ix": ix,
                    "tier": tier})
    G = ANG[tier]
    for ia, a in enumerate(G):
        out.append({"id": "angles:alpha#%d" % ia, "kind": "angles", "ia": ia,
                    "tier": tier})
    nm = len(MEMBERS)
    maxk = 6
    for k in range(1, maxk + 1):
        for sub in itertools.combinations(range(nm), k):
            if tier == "quick" and k in (3, 4, 5) and sub[0] != 0:
                continue
            out.append({"id": "composite:%s" % "".join(map(str, sub)),
                        "kind": "composite", "members": list(sub),
                        "tier": tier})
    out.append({"id": "rigidcluster", "kind": "rigid", "tier": tier})
    out.append({"id": "rigidcluster:pose-histories", "kind": "rigidhist",
                "tier": tier})
    for members in ([0, 1], [0, 1, 2, 4], [1, 2, 3, 4, 5], [3]):
        out.append({"id": "composite:motion-histories:%s" %
                    "".join(map(str, members)), "kind": "motionhist",
                    "members": members, "tier": tier})
    out.append({"id": "composite:nested", "kind": "nested", "tier": tier})
    out.append({"id": "points:single-point-forms", "kind": "single"})
    out.append({"id": "points:numeric-types-and-mixes", "kind": "numtypes"})
    out.append({"id": "angles:array-valued-degrees", "kind": "arrangles"})
    out.append({"id": "composite:csg", "kind": "csg", "tier": tier})
    out.append({"id": "points:mixed-magnitudes", "kind": "mixedmag",
                "tier": tier})
    return out


# --------------------------------------------------------------------------
def _ref_az(y, x):
    a = math.atan2(y, x)
    if a < 0:
        a += 2 * math.pi
    return a


def _angdiff(a, b):
    d = np.abs(np.asarray(a) - np.asarray(b)) % (2 * math.pi)
    return np.minimum(d, 2 * math.pi - d)


def _run_points(case, ck):
    from holopy.core.math import find_transformation_function as ftf
    A = COORD[case["tier"]]
    x0 = A[case["ix"]]
    pts = np.array([(x0, y, z) for y in A for z in A]).T    # (3, N)
    N = pts.shape[1]
    norm = np.sqrt((pts ** 2).sum(0))
    big = np.where(norm == 0, 1.0, norm)
    T = {(a, b): ftf(a, b) for a in SYSTEMS for b in SYSTEMS}
    rep = {"cartesian": pts}
    with np.errstate(all="ignore"):
        for b in ("spherical", "cylindrical"):
            rep[b] = T[("cartesian", b)](pts.copy())
            ck.trans += 1
    sph, cyl = rep["spherical"], rep["cylindrical"]
    ck.true("shape", sph.shape == (3, N) and cyl.shape == (3, N),
            "conversion changed the array shape: %r %r" %
            (sph.shape, cyl.shape))
    # --- reference values, point by point (independent, math module) ------
    finite = np.isfinite(norm) & (norm < 1e150)
    r_ref = np.array([math.hypot(*p) for p in pts.T])
    rho_ref = np.array([math.hypot(p[0], p[1]) for p in pts.T])
    az_ref = np.array([_ref_az(p[1], p[0]) for p in pts.T])
    th_ref = np.array([math.atan2(math.hypot(p[0], p[1]), p[2])
                       for p in pts.T])
    m = finite & (norm > 1e-150)
    e = np.max(np.abs(sph[0][m] - r_ref[m]) / big[m]) if m.any() else 0
    ck.metric("radius", e)
    ck.true("radius", e <= 1e-13,
            "spherical r differs from |p| by %.2e (relative)" % e)
    e = np.max(np.abs(cyl[0][m] - rho_ref[m]) / big[m]) if m.any() else 0
    ck.metric("radius", e)
    ck.true("radius", e <= 1e-13, "cylindrical rho differs: %.2e" % e)
    ck.true("z-kept", np.array_equal(cyl[2], pts[2]),
            "cylindrical z differs from Cartesian z")
    for name, az in (("spherical", sph[2]), ("cylindrical", cyl[1])):
        ok = np.all((az >= 0) & (az <= 2 * math.pi))
        ck.true("azimuth-range", ok, "%s azimuth outside [0, 2pi]: %r" %
                (name, az[~((az >= 0) & (az <= 2 * math.pi))][:4]))
        d = _angdiff(az[m], az_ref[m])
        ck.metric("azimuth", d.max() if d.size else 0)
        ck.true("azimuth-value", (d <= 1e-14).all(),
                "%s azimuth differs from atan2 reference by %.2e" %
                (name, d.max() if d.size else 0))
        top = az == 2 * math.pi
        # the upper end only where the exact azimuth is within rounding of 0
        bad = top & ~((az_ref < 1e-15) | (2 * math.pi - az_ref < 1e-15))
        ck.true("azimuth-2pi", not bad.any(),
                "azimuth 2*pi returned where exact value is not ~0")
    th = sph[1]
    ck.true("polar-range", np.all((th >= 0) & (th <= math.pi)),
            "polar angle outside [0, pi]")
    d = np.abs(th[m] - th_ref[m])
    ck.metric("polar", d.max() if d.size else 0)
    ck.true("polar-value", (d <= 1e-14).all(),
            "polar angle differs from reference by %.2e" %
            (d.max() if d.size else 0))
    # --- every ordered pair, every 3-step composition -----------------------
    with np.errstate(all="ignore"):
        for a in SYSTEMS:
            for b in SYSTEMS:
                ab = T[(a, b)](rep[a].copy())
                ck.trans += 1
                # a->b equals the representation b obtained from Cartesian
                # ("compose consistently"); compare in Cartesian space so
                # that angles at singular points do not matter
                back = T[(b, "cartesian")](ab.copy())
                ck.trans += 1
                err = np.abs(back - pts).max(0)[m] / big[m]
                e = err.max() if err.size else 0
                ck.metric("roundtrip", e)
                ck.true("roundtrip:%s->%s->cartesian" % (a, b), e <= 1e-12,
                        "point moved by %.2e (relative) at %r" %
                        (e, pts.T[m][int(np.argmax(err))].tolist()
                         if err.size else None))
                for c in SYSTEMS:
                    abc = T[(b, c)](ab.copy())
                    ac = T[(a, c)](rep[a].copy())
                    ck.trans += 2
                    x1 = T[(c, "cartesian")](abc.copy())
                    x2 = T[(c, "cartesian")](ac.copy())
                    err = np.abs(x1 - x2).max(0)[m] / big[m]
                    e = err.max() if err.size else 0
                    ck.metric("compose", e)
                    ck.true("compose:%s->%s->%s" % (a, b, c), e <= 1e-12,
                            "composition differs from direct by %.2e" % e)
                    # angular / radial coordinates agree away from
                    # singularities
                    ns = m & (rho_ref > 1e-6 * big) & (rho_ref > 0)
                    if c != "cartesian" and ns.any():
                        iaz = 2 if c == "spherical" else 1
                        d = _angdiff(abc[iaz][ns], ac[iaz][ns])
                        ck.metric("compose-azimuth", d.max())
                        ck.true("compose-azimuth:%s->%s->%s" % (a, b, c),
                                (d <= 1e-9).all(),
                                "azimuth differs by %.2e" % d.max())
                        e = (np.abs(abc[0][ns] - ac[0][ns]) / big[ns]).max()
                        ck.metric("compose", e)
                        ck.true("compose-radius:%s->%s->%s" % (a, b, c),
                                e <= 1e-12, "radial coordinate differs %.2e"
                                % e)
    # inverse pairs away from singularities: X -> cartesian -> X
    ns = m & (rho_ref > 1e-3 * big)
    if ns.any():
        for b in ("spherical", "cylindrical"):
            orig = rep[b][:, ns]
            again = T[("cartesian", b)](T[(b, "cartesian")](orig.copy()))
            ck.trans += 2
            iaz = 2 if b == "spherical" else 1
            d = _angdiff(again[iaz], orig[iaz])
            ck.metric("inverse-angle", d.max())
            ck.true("inverse:%s" % b, (d <= 1e-12).all(),
                    "azimuth not recovered: %.2e" % d.max())
            e = (np.abs(again[0] - orig[0]) / big[ns]).max()
            ck.true("inverse:%s" % b, e <= 1e-12, "radius not recovered")
            if b == "spherical":
                d = np.abs(again[1] - orig[1]).max()
                ck.metric("inverse-angle", d)
                ck.true("inverse:%s" % b, d <= 1e-12,
                        "polar angle not recovered: %.2e" % d)
    # scalar z accepted by the two cart<->cyl conversions
    for zval in (A[1], A[-1], 2.5):
        xy = pts[:2]
        arr = T[("cartesian", "cylindrical")](
            np.array([xy[0], xy[1], np.full(N, zval)]))
        sc = T[("cartesian", "cylindrical")]([xy[0], xy[1], zval])
        ck.trans += 2
        ck.true("scalar-z", sc.shape == arr.shape and
                np.array_equal(sc, arr, equal_nan=True),
                "scalar z gives a different result than array z")
        arr = T[("cylindrical", "cartesian")](
            np.array([cyl[0], cyl[1], np.full(N, zval)]))
        sc = T[("cylindrical", "cartesian")]([cyl[0], cyl[1], zval])
        ck.trans += 2
        ck.true("scalar-z", sc.shape == arr.shape and
                np.array_equal(sc, arr, equal_nan=True),
                "scalar z (cyl->cart) gives a different result")
    # integer-dtype x and y (pixel indices) with a non-integer scalar z
    xi = np.arange(-2, 3)
    yi = np.array([3, -1, 0, 2, 1])
    for zval in (2.5, -0.75):
        a = T[("cartesian", "cylindrical")]([xi, yi, zval])
        b = T[("cartesian", "cylindrical")](
            np.array([xi.astype(float), yi.astype(float),
                      np.full(5, zval)]))
        ck.trans += 2
        ck.true("scalar-z-integer-xy", np.asarray(a).shape == b.shape and
                np.allclose(np.asarray(a, dtype=float), b, rtol=0,
                            atol=1e-15),
                "integer-dtype x, y with scalar z=%r: %r vs float arrays %r"
                % (zval, np.asarray(a).tolist(), b.tolist()))
        rho = np.hypot(xi, yi).astype(float)
        c = T[("cylindrical", "cartesian")]([xi, np.zeros(5), zval])
        ck.trans += 1
        ck.true("scalar-z-integer-xy", np.allclose(np.asarray(
            c, dtype=float)[2], zval, rtol=0, atol=0),
            "cylindrical->cartesian with integer rho and scalar z=%r "
            "returned z %r" % (zval, np.asarray(c)[2].tolist()))
    return digest(np.round(sph[:, m], 9), np.round(cyl[:, m], 9))


def _run_angles(case, ck):
    from holopy.core.math import rotation_matrix, rotate_points
    G = ANG[case["tier"]]
    al = G[case["ia"]]
    P = np.array([[1.0, 0, 0], [0, 1.0, 0], [0, 0, 1.0], [1.0, -2.0, 3.0],
                  [1e3, 1e-3, -7.0], [0.0, 0.0, 0.0]])
    acc = []
    for be in G:
        for ga in G:
            R = np.asarray(rotation_matrix(al, be, ga))
            ck.trans += 1
            ref = euler_zyz(al, be, ga)
            e = np.abs(R - ref).max()
            ck.metric("rot_vs_elementary", e)
            ck.true("rot-zyz", R.shape == (3, 3) and e <= 1e-13,
                    "rotation_matrix(%r,%r,%r) differs from Rz(g)Ry(b)Rz(a)"
                    " by %.2e" % (al, be, ga, e), obs=R.tolist(),
                    exp=ref.tolist())
            e = np.abs(R @ R.T - np.eye(3)).max()
            ck.metric("orthogonal", e)
            ck.true("rot-orthogonal", e <= 1e-14, "R R^T - 1 = %.2e" % e)
            d = np.linalg.det(R)
            ck.true("rot-det", abs(d - 1) <= 1e-14, "det = %r" % d)
            Rd = np.asarray(rotation_matrix(math.degrees(al),
                                            math.degrees(be),
                                            math.degrees(ga), radians=False))
            ck.trans += 1
            e = np.abs(Rd - ref).max()
            ck.metric("rot_deg_vs_rad", e)
            ck.true("rot-degrees", e <= 1e-13,
                    "degrees form differs from radians by %.2e" % e)
            # the flag in other falsy / truthy forms
            for flag, deg in ((np.False_, True), (0, True),
                              (np.bool_(False), True), (np.True_, False),
                              (1, False)):
                args = [math.degrees(v) if deg else v for v in (al, be, ga)]
                Rf = np.asarray(rotation_matrix(*args, radians=flag))
                ck.trans += 1
                e = np.abs(Rf - ref).max()
                ck.true("rot-degrees", e <= 1e-13, "rotation_matrix(..., "
                        "radians=%r) differs from the documented matrix by "
                        "%.2e" % (flag, e))
            Q = np.asarray(rotate_points(P, al, be, ga))
            ck.trans += 1
            e = np.abs(Q - P @ ref.T).max() / 1e3
            ck.metric("rotate_points", e)
            ck.true("rotate-points", Q.shape == P.shape and e <= 1e-13,
                    "rotate_points differs from R p by %.2e" % e)
            d0 = np.sqrt(((P[:, None] - P[None]) ** 2).sum(-1))
            d1 = np.sqrt(((Q[:, None] - Q[None]) ** 2).sum(-1))
            e = np.abs(d0 - d1).max() / d0.max()
            ck.metric("rigid", e)
            ck.true("rotate-distances", e <= 1e-12,
                    "mutual distances changed by %.2e" % e)
            # the same points in other length units (powers of two: the
            # scaled coordinates are exact)
            for ex in (-30, -60, 40):
                sc = 2.0 ** ex
                Qs = np.asarray(rotate_points(P * sc, al, be, ga))
                ck.trans += 1
                e = np.abs(Qs - (P * sc) @ ref.T).max() / (1e3 * sc)
                ck.metric("rotate_points", e)
                ck.true("rotate-points", Qs.shape == P.shape and e <= 1e-13,
                        "rotate_points of points scaled by 2^%d differs "
                        "from R p by %.2e of the largest coordinate" %
                        (ex, e))
                e = np.abs(Qs[:4, :] / sc - Q[:4, :]).max()
                ck.true("rotate-points-units", e <= 1e-12,
                        "rotating points given in units 2^%d times smaller "
                        "does not give the same points (%.2e)" % (ex, e))
            q1 = np.asarray(rotate_points(P[3], al, be, ga))
            ck.trans += 1
            ck.true("rotate-single", q1.shape == (3,) and
                    np.abs(q1 - Q[3]).max() <= 1e-12,
                    "single-point form differs from array form")
            acc.append(np.round(R, 9))
    return digest(*acc)


def _mk(members, arrays=False):
    from holopy.scattering import Sphere
    out = []
    for i in members:
        n, r, c = MEMBERS[i]
        out.append(Sphere(n=n if not isinstance(n, list) else list(n),
                          r=r if not isinstance(r, list) else list(r),
                          center=np.array(c, dtype=float) if arrays else c))
    return out


def _state(comp):
    return digest(*[np.asarray(s.center, dtype=float)
                    for s in comp.scatterers],
                  *[np.asarray(s.r, dtype=float) for s in comp.scatterers],
                  *[np.asarray(s.n, dtype=complex) for s in comp.scatterers])


def _run_composite(case, ck):
    import warnings
    from holopy.scattering import Scatterers, Spheres
    tier = case["tier"]
    acc = []
    for cls in (Spheres, Scatterers):
        with warnings.catch_warnings():
            warnings.simplefilter("ignore")
            comp = cls(_mk(case["members"]))
        before = _state(comp)
        C0 = np.array([np.asarray(s.center, float) for s in comp.scatterers])
        com = C0.mean(0)
        scale = max(1.0, np.abs(C0).max())
        d0 = np.sqrt(((C0[:, None] - C0[None]) ** 2).sum(-1))
        for rot in ROT[tier]:
            for form in ("tuple", "scalars"):
                with warnings.catch_warnings():
                    warnings.simplefilter("ignore")
                    new = (comp.rotated(rot) if form == "tuple"
                           else comp.rotated(*rot))
                ck.trans += 1
                C1 = np.array([np.asarray(s.center, float)
                               for s in new.scatterers])
                ck.true("rot-type", type(new) is type(comp) and
                        len(new.scatterers) == len(comp.scatterers),
                        "rotated() changed type or member count")
                d1 = np.sqrt(((C1[:, None] - C1[None]) ** 2).sum(-1))
                e = np.abs(d1 - d0).max() / scale
                ck.metric("rigid", e)
                ck.true("rot-distances", e <= 1e-11,
                        "pairwise distances changed by %.2e under %r" %
                        (e, rot))
                e = np.abs(C1.mean(0) - com).max() / scale
                ck.metric("rigid", e)
                ck.true("rot-centroid", e <= 1e-11,
                        "centroid moved by %.2e under rotation %r" % (e, rot))
                ref = com + (C0 - com) @ euler_zyz(*rot).T
                e = np.abs(C1 - ref).max() / scale
                ck.metric("rot_composite_vs_R", e)
                ck.true("rot-about-centroid", e <= 1e-11,
                        "members are not at com + R(c - com): %.2e" % e,
                        obs=C1.tolist(), exp=ref.tolist())
                for s0, s1 in zip(comp.scatterers, new.scatterers):
                    ck.true("rot-members-kept",
                            np.array_equal(np.asarray(s0.r), np.asarray(s1.r))
                            and np.array_equal(np.asarray(s0.n),
                                               np.asarray(s1.n)),
                            "rotation changed a member's radius or index")
                acc.append(np.round(C1, 8))
        for tr in TRANS:
            for form in ("tuple", "scalars"):
                with warnings.catch_warnings():
                    warnings.simplefilter("ignore")
                    new = (comp.translated(tr) if form == "tuple"
                           else comp.translated(*tr))
                ck.trans += 1
                C1 = np.array([np.asarray(s.center, float)
                               for s in new.scatterers])
                e = np.abs(C1 - (C0 + np.array(tr))).max() / \
                    max(scale, abs(tr[0]))
                ck.metric("rigid", e)
                ck.true("trans-shift", e <= 1e-14,
                        "members not shifted by %r (err %.2e)" % (tr, e))
                e = np.abs(C1.mean(0) - (com + np.array(tr))).max() / \
                    max(scale, abs(tr[0]))
                ck.true("trans-centroid", e <= 1e-13,
                        "centroid not shifted by the vector")
                d1 = np.sqrt(((C1[:, None] - C1[None]) ** 2).sum(-1))
                e = np.abs(d1 - d0).max() / max(scale, abs(tr[0]))
                ck.true("trans-distances", e <= 1e-12,
                        "pairwise distances changed by translation")
                ck.true("trans-type", type(new) is type(comp),
                        "translated() changed the type")
        ck.true("original-untouched", _state(comp) == before,
                "rotated()/translated() modified the original composite")
        # members whose centres are float arrays; the same composite used
        # twice, and results chained: nothing may share state
        with warnings.catch_warnings():
            warnings.simplefilter("ignore")
            ca = cls(_mk(case["members"], arrays=True))
            s0 = _state(ca)
            v = np.array([1.0, -2.0, 3.0])
            t1 = ca.translated(v)
            s1 = _state(t1)
            t2 = t1.translated(*v)
            r1 = ca.rotated(0.3, 0.4, 0.5)
            sr = _state(r1)
            t3 = ca.translated(v)
            r2 = r1.rotated((0.1, 0.2, 0.3))
            ck.trans += 5
        ck.true("original-untouched", _state(ca) == s0, "translated()/"
                "rotated() moved the original composite (array centres)")
        ck.true("result-not-aliased", _state(t1) == s1 and _state(r1) == sr,
                "an earlier result changed when a later call was made")
        Ca = np.array([np.asarray(s.center, float) for s in ca.scatterers])
        for nm, obj, shift in (("t1", t1, v), ("t2", t2, 2 * v),
                               ("t3", t3, v)):
            Cx = np.array([np.asarray(s.center, float)
                           for s in obj.scatterers])
            e = np.abs(Cx - (Ca + shift)).max()
            ck.true("trans-shift", e <= 1e-12, "chained / repeated "
                    "translation %s: members off by %.2e" % (nm, e))
        Cr = np.array([np.asarray(s.center, float) for s in r1.scatterers])
        e = np.abs(Cr.mean(0) - Ca.mean(0)).max()
        ck.true("rot-centroid", e <= 1e-11, "centroid moved by %.2e under "
                "rotation after an earlier translated() call" % e)
    return digest(*acc)


def _leaves(comp, out):
    for s in comp.scatterers:
        if hasattr(s, "scatterers"):
            _leaves(s, out)
        else:
            out.append(np.asarray(s.center, float))
    return out


def _run_nested(case, ck):
    """composites whose members are composites themselves: a rotation moves
    every sphere rigidly (all difference vectors turn by the same matrix)"""
    import warnings
    from holopy.scattering import Scatterers, Spheres, Sphere
    acc = []

    def dimer(c, d):
        c, d = np.array(c, float), np.array(d, float)
        return Spheres([Sphere(n=1.5, r=0.2, center=tuple(c - d)),
                        Sphere(n=1.6, r=0.25, center=tuple(c + d))])
    with warnings.catch_warnings():
        warnings.simplefilter("ignore")
        builds = [
            Scatterers([dimer((0, 0, 5), (0.5, 0.1, 0)),
                        dimer((3, 1, 6), (0, 0.4, 0.3))]),
            Scatterers([dimer((0, 0, 5), (0.5, 0.1, 0)),
                        Sphere(n=1.4, r=0.3, center=(2.0, -1.0, 4.0))]),
            Spheres([Sphere(n=1.5, r=0.2, center=(0, 0, 5)),
                     Sphere(n=1.5, r=0.2, center=(1, 0.5, 5.5)),
                     Sphere(n=1.5, r=0.2, center=(-0.4, 1.2, 4.1))]),
        ]
    for bi, comp in enumerate(builds):
        L0 = np.array(_leaves(comp, []))
        for rot in ROT[case["tier"]]:
            with warnings.catch_warnings():
                warnings.simplefilter("ignore")
                new = comp.rotated(*rot)
            ck.trans += 1
            L1 = np.array(_leaves(new, []))
            ok = L1.shape == L0.shape
            ck.true("rot-type", ok, "rotated() changed the number of "
                    "spheres of nested composite #%d" % bi)
            if not ok:
                continue
            R = euler_zyz(*rot)
            D0 = L0[:, None] - L0[None]
            D1 = L1[:, None] - L1[None]
            e = float(np.abs(D1 - D0 @ R.T).max() /
                      max(1.0, np.abs(D0).max()))
            ck.metric("rot_nested", e)
            ck.true("rot-distances", e <= 1e-11, "nested composite #%d "
                    "rotated by %r: the difference vectors between its "
                    "spheres are not the rotated ones (err %.2e)" %
                    (bi, rot, e))
            acc.append(np.round(L1, 8))
    return digest(*acc)


def _run_mixedmag(case, ck):
    """points of very different magnitude converted in ONE call: every
    point's result is that of the point converted alone"""
    from holopy.core.math import find_transformation_function as ftf
    P = np.array([[1e-90, -2e-90, 3e-90], [1e90, 2e90, -3e90],
                  [1.0, -2.0, 3.0], [3e-120, 4e-120, 0.0],
                  [0.0, 5e80, 1e80]]).T            # shape (3, npts)
    acc = []
    for a, b in (("cartesian", "spherical"), ("cartesian", "cylindrical"),
                 ("cylindrical", "spherical"), ("spherical", "cartesian"),
                 ("cylindrical", "cartesian"), ("spherical", "cylindrical")):
        if a == "cartesian":
            src = P
        else:
            src = np.asarray(ftf("cartesian", a)(P), float)
        together = np.asarray(ftf(a, b)(src), float)
        ck.trans += 1
        for j in range(src.shape[1]):
            alone = np.asarray(ftf(a, b)(src[:, j:j + 1]), float)[:, 0]
            ck.trans += 1
            sc = max(np.abs(alone).max(), 1e-300)
            e = float(np.abs(together[:, j] - alone).max() / sc)
            ck.true("per-point", e <= 1e-15 or
                    bool(np.array_equal(together[:, j], alone)),
                    "%s -> %s: point %r converted together with points of "
                    "other magnitudes gives %r, alone %r" %
                    (a, b, src[:, j].tolist(), together[:, j].tolist(),
                     alone.tolist()))
        acc.append(np.nan_to_num(together))
    return digest(*acc)


def _run_rigid(case, ck):
    import warnings
    from holopy.scattering import Spheres
    from holopy.scattering.scatterer import RigidCluster
    acc = []
    for members in ([0, 1], [0, 1, 2, 4], [1, 2, 3, 4, 5]):
        for rot in ROT[case["tier"]][:4]:
            for tr in TRANS:
                with warnings.catch_warnings():
                    warnings.simplefilter("ignore")
                    base = Spheres(_mk(members))
                    before = _state(base)
                    rc = RigidCluster(base, translation=tr, rotation=rot)
                    got = rc.scatterers
                    exp = base.rotated(rot).translated(tr).scatterers
                    ck.trans += 3
                    C0 = base.centers
                    com = C0.mean(0)
                    ref = com + (C0 - com) @ euler_zyz(*rot).T + np.array(tr)
                    G = np.array([s.center for s in got])
                    e = np.abs(G - ref).max() / max(1.0, np.abs(ref).max())
                    ck.metric("rigid", e)
                    ck.true("rigidcluster-placement", e <= 1e-11,
                            "RigidCluster members not at rotated+translated "
                            "positions (%.2e)" % e)
                    for a, b in zip(got, exp):
                        ck.true("rigidcluster-equals-composition",
                                np.array_equal(a.center, b.center) and
                                np.array_equal(np.asarray(a.r),
                                               np.asarray(b.r)),
                                "RigidCluster.scatterers != "
                                "spheres.rotated().translated()")
                    ck.true("original-untouched", _state(base) == before,
                            "RigidCluster modified its spheres")
                    acc.append(np.round(G, 8))
    return digest(*acc)


MOTIONS = [("rot", (0.3, 0.7, -0.4)), ("rot", (1.2, 0.0, 0.5)),
           ("trans", (1.0, -2.0, 0.5)), ("trans", (-0.25, 0.0, 3.0)),
           ("query", None), ("add", None)]


def _run_motionhist(case, ck):
    """a composite moved step by step: every sequence of <= 3 (thorough 4)
    steps over two rotations, two translations, a read of its derived
    attributes and (collections) an added member; each step also applied to
    the object an EARLIER step returned.  After every step: pairwise
    distances kept; centroid fixed under rotation, shifted by the vector
    under translation; members at com + R (c - com)"""
    import itertools
    import warnings
    from holopy.scattering import Scatterers, Spheres, Sphere
    depth = 3 if case["tier"] == "quick" else 4
    acc = []

    def centres(o):
        return np.array([np.asarray(x.center, float) for x in o.scatterers])
    for cls in (Spheres, Scatterers):
        for seq in itertools.chain.from_iterable(
                itertools.product(range(len(MOTIONS)), repeat=L)
                for L in range(2, depth + 1)):
            with warnings.catch_warnings():
                warnings.simplefilter("ignore")
                obj = cls(_mk(case["members"]))
                for k, mi in enumerate(seq):
                    kind, arg = MOTIONS[mi]
                    what = "%s, step %d of %s" % (
                        cls.__name__, k + 1,
                        ">".join("%s%r" % MOTIONS[i] for i in seq))
                    C0 = centres(obj)
                    com = C0.mean(0)
                    scale = max(1.0, np.abs(C0).max())
                    if kind == "query":
                        for attr in ("center", "centers", "x", "y", "z"):
                            try:
                                getattr(obj, attr)
                            except AttributeError:
                                pass
                        ck.trans += 1
                        continue
                    if kind == "add":
                        obj = cls(list(obj.scatterers))
                        obj.add(Sphere(n=1.5, r=0.1,
                                       center=(9.0 + k, -7.0, 4.0)))
                        ck.trans += 1
                        continue
                    new = obj.rotated(arg) if kind == "rot" else \
                        obj.translated(arg)
                    ck.trans += 1
                    C1 = centres(new)
                    ref = com + (C0 - com) @ euler_zyz(*arg).T \
                        if kind == "rot" else C0 + np.array(arg)
                    e = float(np.abs(C1 - ref).max() / scale) \
                        if C1.shape == ref.shape else float("inf")
                    ck.metric("rigid", e if e != float("inf") else 0.0)
                    ck.true("rot-about-centroid" if kind == "rot" else
                            "translation-shifts-members", e <= 1e-11,
                            "%s: members are not where a rigid %s of the "
                            "current object puts them (%.2e; centroid moved "
                            "by %r)" % (what, "rotation about the centroid"
                                        if kind == "rot" else "translation",
                                        e, (C1.mean(0) - com).tolist()
                                        if C1.shape == ref.shape else None))
                    ck.true("original-untouched",
                            np.array_equal(centres(obj), C0),
                            "%s moved the object it was called on" % what)
                    obj = new
                acc.append(np.round(centres(obj), 8))
    return digest(*acc)


RIGID_OPS = ["t-elem", "t-inplace-add", "t-assign", "r-elem", "r-slice",
             "r-assign", "add-member", "move-member"]


def _run_rigidhist(case, ck):
    """one RigidCluster object whose pose is read, changed and read again:
    every sequence of <= 3 (quick) / 4 changes over RIGID_OPS x containers
    (list, ndarray); after every change the members are where the current
    spheres, rotation and translation put them"""
    import itertools
    import warnings
    from holopy.scattering import Spheres, Sphere
    from holopy.scattering.scatterer import RigidCluster
    depth = 3 if case["tier"] == "quick" else 4
    acc = []

    def expected(rc):
        C0 = np.array([np.asarray(s.center, dtype=float)
                       for s in rc.spheres.scatterers])
        com = C0.mean(0)
        rot = [float(a) for a in rc.rotation]
        tr = np.array([float(a) for a in rc.translation])
        return com + (C0 - com) @ euler_zyz(*rot).T + tr

    def read(rc, what):
        G = np.array([s.center for s in rc.scatterers])
        ref = expected(rc)
        ck.trans += 1
        ok = G.shape == ref.shape
        e = float("inf") if not ok else \
            float(np.abs(G - ref).max() / max(1.0, np.abs(ref).max()))
        ck.metric("rigid-history", e if ok else 0.0)
        ck.true("rigidcluster-pose-history", ok and e <= 1e-11,
                "RigidCluster after %s: members are not where its current "
                "spheres, rotation %r and translation %r put them (%.2e)" %
                (what, list(np.asarray(rc.rotation, dtype=float)),
                 list(np.asarray(rc.translation, dtype=float)), e))
        # the other views of the same members
        ck.true("rigidcluster-pose-history",
                ok and np.allclose(np.asarray(rc.centers, dtype=float), ref,
                                   rtol=0, atol=1e-10),
                "RigidCluster after %s: .centers differ from the members' "
                "positions" % what)
        return np.round(G, 8)

    for cont in ("list", "array"):
        for seq in itertools.chain.from_iterable(
                itertools.product(RIGID_OPS, repeat=L)
                for L in range(1, depth + 1)):
            with warnings.catch_warnings():
                warnings.simplefilter("ignore")
                base = Spheres(_mk([0, 1, 2]))
                mk = list if cont == "list" else \
                    (lambda v: np.array(v, dtype=float))
                rc = RigidCluster(base, translation=mk([0.5, -1.0, 2.0]),
                                  rotation=mk([0.3, 0.7, -0.4]))
                read(rc, "construction")
                for k, op in enumerate(seq):
                    if op == "t-elem":
                        rc.translation[2] = 5.0 + k
                    elif op == "t-inplace-add":
                        if cont == "list":
                            for q in range(3):
                                rc.translation[q] += 0.25
                        else:
                            rc.translation += 0.25
                    elif op == "t-assign":
                        rc.translation = mk([1.0 + k, 2.0, -3.0])
                    elif op == "r-elem":
                        rc.rotation[1] = 1.1 + 0.1 * k
                    elif op == "r-slice":
                        rc.rotation[:] = [0.2 * (k + 1), 0.9, 1.3]
                    elif op == "r-assign":
                        rc.rotation = mk([-0.6, 0.4 + 0.1 * k, 2.0])
                    elif op == "add-member":
                        rc.spheres.add(Sphere(n=1.5, r=0.1, center=(
                            9.0 + k, -7.0, 4.0)))
                    elif op == "move-member":
                        m = rc.spheres.scatterers[0]
                        m.center = np.asarray(m.center, dtype=float) + \
                            np.array([0.5, 0.0, -0.25])
                    acc.append(read(rc, "%s (%s pose; step %d of %s)" % (
                        op, cont, k + 1, ">".join(seq))))
    return digest(*acc)


def _run_single(case, ck):
    """one point, given as three numbers (list, tuple, 1-d array), a (3, 1)
    array, or 2-d coordinate arrays with a scalar z: the result is that of
    the same point inside a longer list"""
    from holopy.core.math import find_transformation_function as ftf
    names = ("cartesian", "spherical", "cylindrical")
    pts = [(1.0, -2.0, 3.0), (0.3, 0.4, -1.2), (2.0, 0.0, 0.0)]
    filler = np.array([[0.7, 0.1, 0.2], [1.1, -0.3, 2.2]]).T
    acc = []
    for a in names:
        for b in names:
            if a == b:
                continue
            for p in pts:
                src = np.asarray(ftf("cartesian", a)(
                    np.array(p, float).reshape(3, 1)), float)[:, 0] \
                    if a != "cartesian" else np.array(p, float)
                ref = np.asarray(ftf(a, b)(np.column_stack(
                    [src, np.asarray(ftf("cartesian", a)(filler), float)
                     if a != "cartesian" else filler])), float)[:, 0]
                ck.trans += 1
                forms = {"list": [float(v) for v in src],
                         "tuple": tuple(float(v) for v in src),
                         "1-d array": np.array(src),
                         "(3, 1) array": np.array(src).reshape(3, 1)}
                for fname, arg in forms.items():
                    try:
                        got = np.asarray(ftf(a, b)(arg), float)
                        ck.trans += 1
                    except Exception as e:
                        ck.true("single-point", False, "%s -> %s of the one "
                                "point %r given as %s raised %s: %s" %
                                (a, b, src.tolist(), fname,
                                 type(e).__name__, str(e)[:80]))
                        continue
                    e = float(np.abs(got.reshape(-1)[:3] - ref).max())
                    ck.true("single-point", got.size == 3 and e <= 1e-14,
                            "%s -> %s of the one point %r given as %s gives "
                            "%r, inside a list of points %r" %
                            (a, b, src.tolist(), fname, got.tolist(),
                             ref.tolist()))
                acc.append(np.round(ref, 9))
    # a grid of x, y with one height
    X, Y = np.meshgrid([0.5, 1.0, 1.5], [-1.0, 2.0], indexing="ij")
    try:
        got = np.asarray(ftf("cartesian", "cylindrical")([X, Y, 3.0]), float)
        ck.trans += 1
        ref = np.asarray(ftf("cartesian", "cylindrical")(
            [X.ravel(), Y.ravel(), np.full(6, 3.0)]), float)
        ck.true("single-point", got.shape == (3, 3, 2) and
                np.abs(got.reshape(3, -1) - ref).max() <= 1e-14,
                "cartesian -> cylindrical of 2-d x, y with a scalar z gives "
                "shape %r" % (got.shape,))
    except Exception as e:
        ck.true("single-point", False, "cartesian -> cylindrical of 2-d x, y "
                "with a scalar z raised %s: %s" % (type(e).__name__,
                                                   str(e)[:80]))
    return digest(*acc)


def _run_numtypes(case, ck):
    """(a) coordinates stored as narrow / unsigned integers (pixel indices):
    the result is that of the same numbers as floats; (b) every mix of
    scalars and arrays among the three coordinates converts like the fully
    expanded arrays; (c) angles held as small integers"""
    from holopy.core.math import (find_transformation_function as ftf,
                                  rotation_matrix)
    names = ("cartesian", "spherical", "cylindrical")
    acc = []
    # (a)
    base = np.array([[200, 3, 120, 0, 250], [150, 4, 0, 7, 250],
                     [100, 0, 90, 24, 250]])
    for dt in ("int16", "uint8", "uint16", "int32", "uint64", "float32"):
        for b in ("spherical", "cylindrical"):
            ref = np.asarray(ftf("cartesian", b)(base.astype(float)), float)
            try:
                got = np.asarray(ftf("cartesian", b)(base.astype(dt)), float)
                ck.trans += 1
            except Exception as e:
                ck.true("integer-coordinates", False, "cartesian -> %s of "
                        "%s coordinates raised %s: %s" %
                        (b, dt, type(e).__name__, e))
                continue
            e = float(np.abs(got - ref).max())
            ck.true("integer-coordinates", got.shape == ref.shape and
                    e <= 1e-9, "cartesian -> %s of coordinates stored as %s "
                    "differs from the same numbers as float64 by %.3g (e.g. "
                    "%r instead of %r)" %
                    (b, dt, e, got[:, 0].tolist(), ref[:, 0].tolist()))
    # (b)
    full = {"cartesian": np.array([[1.0, -2.0, 0.5, 3.0]] * 3) *
            np.array([[1.0], [0.5], [2.0]])}
    full["spherical"] = np.asarray(ftf("cartesian", "spherical")(
        full["cartesian"]), float)
    full["cylindrical"] = np.asarray(ftf("cartesian", "cylindrical")(
        full["cartesian"]), float)
    for a in names:
        for b in names:
            for mask in itertools.product((0, 1), repeat=3):
                if sum(mask) in (0, 3):
                    continue
                # slots with mask 1 hold one number, the others arrays
                src = [full[a][i] if not mask[i] else float(full[a][i][0])
                       for i in range(3)]
                exp_src = np.array([full[a][i] if not mask[i] else
                                    np.full(4, full[a][i][0])
                                    for i in range(3)])
                ref = np.asarray(ftf(a, b)(exp_src), float)
                try:
                    got = np.asarray(ftf(a, b)(src), float)
                    ck.trans += 1
                except Exception as e:
                    ck.true("scalar-array-mix", False, "%s -> %s with "
                            "scalars in slots %r raised %s: %s" %
                            (a, b, mask, type(e).__name__, str(e)[:60]))
                    continue
                ok = got.shape == ref.shape and \
                    float(np.abs(got - ref).max()) <= 1e-13
                ck.true("scalar-array-mix", ok, "%s -> %s with scalars in "
                        "slots %r: shape %r, expected the result of the "
                        "expanded arrays (shape %r)" %
                        (a, b, mask, got.shape, ref.shape))
        acc.append(np.round(full[a], 9))
    # (c)
    for dt in ("int8", "uint8", "int16", "int64", "bool"):
        ang = [np.array(v).astype(dt) for v in (1, 2, 1)]
        ref = euler_zyz(*[float(v) for v in ang])
        R = np.asarray(rotation_matrix(*ang))
        ck.trans += 1
        e = float(np.abs(R - ref).max())
        ck.true("rot-zyz", R.dtype == np.float64 and e <= 1e-13,
                "rotation_matrix with %s angles %r: dtype %s, differs from "
                "Rz Ry Rz by %.2e" % (dt, [int(v) for v in ang], R.dtype, e))
    return digest(*acc)


def _run_arrangles(case, ck):
    """angles held in arrays (0-d, or elements of the caller's array): the
    call neither changes them nor depends on having been made before"""
    from holopy.core.math import rotation_matrix
    acc = []
    for deg in ((30.0, 45.0, 60.0), (10.0, 0.0, 350.0),
                # quarter turns and their multiples, both senses
                (270.0, 90.0, -270.0), (630.0, 180.0, -90.0),
                (-630.0, 270.0, 450.0)):
        ref = euler_zyz(*[math.radians(v) for v in deg])
        for form in ("0-d float array", "0-d int array", "np.float64",
                     "np.int64", "np.int8", "np.uint8", "np.int16",
                     "np.float32", "np.float16", "0-d int8 array"):
            mk = {"0-d float array": lambda v: np.array(v),
                  "0-d int array": lambda v: np.array(int(v)),
                  "np.float64": lambda v: np.float64(v),
                  "np.int64": lambda v: np.int64(int(v)),
                  # narrow types: the conversion to radians must not be
                  # made in the angle's own type (all values are exact in
                  # every one of these types, 350 -> 94 in the 8-bit ones)
                  "np.int8": lambda v: np.int8(int(v) % 128),
                  "np.uint8": lambda v: np.uint8(int(v) % 256),
                  "np.int16": lambda v: np.int16(int(v)),
                  "np.float32": lambda v: np.float32(v),
                  "np.float16": lambda v: np.float16(v),
                  "0-d int8 array": lambda v: np.array(int(v) % 128,
                                                       dtype="int8")}[form]
            args = [mk(v) for v in deg]
            before = [float(v) for v in args]
            ref = euler_zyz(*[math.radians(v) for v in before])
            for call in (1, 2):
                try:
                    R = np.asarray(rotation_matrix(*args, radians=False))
                    ck.trans += 1
                except Exception as e:
                    ck.true("rot-degrees", False, "rotation_matrix(%s "
                            "angles %r, radians=False) raised %s: %s" %
                            (form, deg, type(e).__name__, str(e)[:80]))
                    break
                e = float(np.abs(R - ref).max())
                ck.true("rot-degrees", e <= 1e-13, "rotation_matrix(%s "
                        "angles %r, radians=False), call %d: differs from "
                        "the documented matrix by %.2e" % (form, deg, call,
                                                           e))
                ck.true("input-unchanged", [float(v) for v in args] ==
                        before, "rotation_matrix changed the caller's "
                        "angles from %r to %r" %
                        (before, [float(v) for v in args]))
            acc.append(np.round(ref, 9))
    return digest(*acc)


def _run_csg(case, ck):
    """unions / differences / intersections of two spheres: rotating or
    translating moves both members rigidly"""
    import warnings
    from holopy.scattering import Sphere
    from holopy.scattering.scatterer import Union, Difference, Intersection
    acc = []
    s1 = Sphere(n=1.5, r=0.6, center=(0.2, -0.1, 5.0))
    s2 = Sphere(n=1.5, r=0.5, center=(0.9, 0.4, 5.3))
    for cls in (Union, Difference, Intersection):
        comp = cls(s1, s2)
        c0 = np.array([comp.s1.center, comp.s2.center], float)
        for rot in ROT[case["tier"]]:
            with warnings.catch_warnings():
                warnings.simplefilter("ignore")
                new = comp.rotated(*rot)
            ck.trans += 1
            c1 = np.array([new.s1.center, new.s2.center], float)
            R = euler_zyz(*rot)
            e = float(np.abs((c1[1] - c1[0]) - R @ (c0[1] - c0[0])).max())
            ck.metric("rot_csg", e)
            ck.true("rot-distances", e <= 1e-12, "%s of two spheres rotated "
                    "by %r: the vector between its members is %r, the "
                    "rotated one is %r" % (cls.__name__, rot,
                                           (c1[1] - c1[0]).tolist(),
                                           (R @ (c0[1] - c0[0])).tolist()))
            # (a CSG object's centre -- its pivot -- is documented to be
            # the first member's centre, not the midpoint)
            e = float(np.abs(np.asarray(new.center, float) -
                             np.asarray(comp.center, float)).max())
            ck.true("rot-centroid", e <= 1e-12, "%s rotated by %r: its "
                    "centre moved by %.2e" % (cls.__name__, rot, e))
            acc.append(np.round(c1, 8))
        for t in ((0.5, -1.0, 2.0), (0.0, 0.0, -3.0)):
            new = comp.translated(*t)
            ck.trans += 1
            c1 = np.array([new.s1.center, new.s2.center], float)
            e = float(np.abs(c1 - c0 - np.array(t)).max())
            ck.true("translate", e <= 1e-12, "%s translated by %r: members "
                    "moved by %r" % (cls.__name__, t, (c1 - c0).tolist()))
    return digest(*acc)


def run_case(case):
    ck = Checker()
    fp = {"single": _run_single, "arrangles": _run_arrangles,
          "numtypes": _run_numtypes,
          "csg": _run_csg,
          "points": _run_points, "angles": _run_angles,
          "composite": _run_composite, "rigid": _run_rigid,
          "rigidhist": _run_rigidhist, "motionhist": _run_motionhist,
          "nested": _run_nested, "mixedmag": _run_mixedmag}[case["kind"]](
              case, ck)
    return ck.result(fp=fp)


def coverage_extra(cases, results):
    return {"coordinate_alphabet": COORD[cases[0]["tier"]],
            "angle_alphabet": ANG[cases[0]["tier"]],
            "points": len(COORD[cases[0]["tier"]]) ** 3,
            "angle_triples": len(ANG[cases[0]["tier"]]) ** 3,
            "composites": sum(1 for c in cases if c["kind"] == "composite")}

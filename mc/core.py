"""Explorer core: worker pool, per-case isolation, decision, evidence.

A property module (mc/props/cXX.py) provides

    PROPERTY = "Cxx"
    RULE     = "<how cases are enumerated / what makes one non-trivial>"
    ASSUMPTIONS = [...]
    ISOLATE  = "fork" | "none"       (default "fork": every case runs in a
                                      child forked from a pristine worker, so
                                      Fortran COMMON state, module globals and
                                      a Fortran STOP stay inside one case)
    TIMEOUT  = seconds per case (horizon; a case exceeding it is HANG)
    def cases(tier, seed) -> list of JSON-able dicts, each with a unique "id"
    def run_case(case) -> dict(viol=[{check,msg,...}], fp=<str>, trans=<int>,
                               metrics={name: float}, outcome=<str>,
                               nontrivial=<bool>)
    def coverage_extra(cases, results) -> dict   (optional)

Everything here is deterministic: static sharding (case i -> worker i mod W),
no random numbers, results are reduced in case order.
"""
import hashlib
import importlib
import json
import multiprocessing as mp
import os
import pickle
import signal
import sys
import time
import traceback

VERIF = os.path.dirname(os.path.dirname(os.path.abspath(__file__)))
KNOWN_FILE = os.path.join(VERIF, "known_findings.json")


# --------------------------------------------------------------------------
# case execution (inside worker / forked child)
# --------------------------------------------------------------------------
def _own_rng(case):
    """The global NumPy / Python generators are seeded from OS entropy when a
    worker starts; give every execution a state that depends only on the
    case (and VERIF_SEED), so that code drawing unseeded random numbers is
    still reproducible between the exploring run and the confirming run."""
    import random
    import zlib
    try:
        base = int(os.environ.get("VERIF_SEED", "0"))
    except ValueError:
        base = 0
    sd = (zlib.crc32(str(case.get("id")).encode()) + base) % (2 ** 32)
    random.seed(sd)
    try:
        import numpy as np
        np.random.seed(sd)
    except Exception:
        pass


def _exec_pair(mod, case):
    """Cross-case history: operation B of the property's own case list,
    executed after operation A in the same interpreter, against B executed as
    the first call of a pristine interpreter (forked from this process before
    anything ran).  Reported: every assertion of B that fails after A but
    holds in the pristine interpreter; and, where the module declares
    PAIR_FP_STRICT (the property is quantified over histories and the
    fingerprint is a digest of observed values), a fingerprint that differs."""
    from lib import fork_call
    a, b = case["_pair"]

    def run(c):
        _own_rng(c)
        r = mod.run_case(c) or {}
        return {"checks": sorted({v["check"] for v in r.get("viol", [])}),
                "viol": [{"check": v["check"], "msg": str(v.get("msg"))[:400]}
                         for v in r.get("viol", [])],
                "fp": r.get("fp"), "trans": int(r.get("trans", 1)),
                "outcome": r.get("outcome", "ok")}
    st, ref = fork_call(run, b, timeout=case.get("_timeout", 600))
    if st != "ok":
        # B cannot be observed alone (it aborts / raises in the harness): its
        # own case reports that; nothing to compare here
        return {"viol": [], "fp": "pair-ref-%s" % st, "trans": 1,
                "outcome": "pair-ref-unavailable", "nontrivial": False}
    try:
        ra = run(a)
    except BaseException as e:            # noqa
        if isinstance(e, (KeyboardInterrupt, SystemExit)):
            raise
        ra = {"trans": 1, "fp": "exc"}
    rb = run(b)
    viol = []
    for v in rb["viol"]:
        if v["check"] not in ref["checks"]:
            viol.append({"check": "after-history:" + v["check"],
                         "msg": "holds when case %s is the first call of an "
                                "interpreter, fails after case %s: %s" %
                                (b["id"], a["id"], v["msg"])})
    fp_same = rb["fp"] == ref["fp"]
    if not fp_same and getattr(mod, "PAIR_FP_STRICT", False) and not viol \
            and not ref["checks"]:
        viol.append({"check": "after-history:observations-differ",
                     "msg": "the values observed by case %s differ from those "
                            "of the same case in a pristine interpreter after "
                            "case %s ran" % (b["id"], a["id"])})
    return {"viol": viol, "fp": "%s|%s" % (ra.get("fp"), rb["fp"]),
            "trans": ref["trans"] + ra.get("trans", 1) + rb["trans"],
            "outcome": "ok", "metrics": {"pair-fp-changed": 0.0 if fp_same
                                         else 1.0}}


def _exec_case(mod, case):
    t0 = time.time()
    try:
        if "_pair" in case:
            res = _exec_pair(mod, case)
        else:
            _own_rng(case)
            res = mod.run_case(case)
        if res is None:
            res = {}
    except BaseException as e:            # harness or unexpected error
        if isinstance(e, (KeyboardInterrupt, SystemExit)):
            raise
        res = {"viol": [{"check": "harness-exception",
                         "msg": "%s: %s" % (type(e).__name__, e),
                         "tb": traceback.format_exc()[-2500:]}],
               "outcome": "exception"}
    res.setdefault("viol", [])
    res.setdefault("fp", None)
    res.setdefault("trans", 1)
    res.setdefault("metrics", {})
    res.setdefault("outcome", "ok")
    res.setdefault("nontrivial", True)
    res["wall"] = time.time() - t0
    return res


def _run_isolated(mod, case, timeout):
    """fork; child runs the case and sends the pickled result through a pipe.
    A child that vanishes (Fortran STOP -> exit(0), segfault, os._exit) is an
    observed outcome, not a harness failure."""
    r, w = os.pipe()
    pid = os.fork()
    if pid == 0:
        try:
            os.close(r)
            res = _exec_case(mod, case)
            data = pickle.dumps(res, protocol=4)
            with os.fdopen(w, "wb") as f:
                f.write(data)
                f.flush()
        finally:
            os._exit(0)
    os.close(w)
    chunks = []
    deadline = time.time() + timeout
    import select
    timed_out = False
    with os.fdopen(r, "rb") as f:
        while True:
            left = deadline - time.time()
            if left <= 0:
                timed_out = True
                break
            rl, _, _ = select.select([f], [], [], min(left, 1.0))
            if rl:
                b = os.read(f.fileno(), 1 << 20)
                if not b:
                    break
                chunks.append(b)
    if timed_out:
        try:
            os.kill(pid, signal.SIGKILL)
        except OSError:
            pass
    _, status = os.waitpid(pid, 0)
    if timed_out:
        return {"viol": [], "outcome": "HANG", "fp": "HANG", "trans": 1,
                "metrics": {}, "nontrivial": True, "wall": timeout,
                "died": "timeout after %ss" % timeout}
    data = b"".join(chunks)
    if data:
        try:
            return pickle.loads(data)
        except Exception:
            pass
    return {"viol": [], "outcome": "INTERPRETER_TERMINATED",
            "fp": "INTERPRETER_TERMINATED", "trans": 1, "metrics": {},
            "nontrivial": True, "wall": 0.0,
            "died": "child ended without a result, wait status %d" % status}


def _worker_main(modname, conn, isolate, timeout, logpath):
    # Fortran writes to fd 1; keep it away from the driver's stdout
    try:
        fd = os.open(logpath, os.O_WRONLY | os.O_CREAT | os.O_APPEND, 0o600)
        os.dup2(fd, 1)
        os.close(fd)
    except OSError:
        pass
    sys.stdout = open(os.devnull, "w")
    signal.signal(signal.SIGINT, signal.SIG_IGN)
    mod = importlib.import_module(modname)
    # import the library once per worker so that forked children start warm
    # (importing does not call into Fortran: COMMON blocks stay pristine)
    for name in getattr(mod, "PREIMPORT",
                        ["holopy", "holopy.scattering", "holopy.inference",
                         "holopy.core.process", "holopy.propagation"]):
        try:
            importlib.import_module(name)
        except Exception:
            pass
    while True:
        try:
            msg = conn.recv()
        except EOFError:
            break
        if msg is None:
            break
        idx, case = msg
        if isolate == "fork" and not case.get("_noisolate"):
            res = _run_isolated(mod, case, case.get("_timeout", timeout))
        else:
            res = _exec_case(mod, case)
        conn.send((idx, res))
    conn.close()


class Pool:
    def __init__(self, modname, nworkers, isolate, timeout, logdir):
        self.modname = modname
        self.n = nworkers
        self.isolate = isolate
        self.timeout = timeout
        self.logdir = logdir
        self.ctx = mp.get_context("fork")
        self.workers = [None] * nworkers
        for w in range(nworkers):
            self._start(w)

    def _start(self, w):
        parent, child = self.ctx.Pipe()
        p = self.ctx.Process(target=_worker_main,
                             args=(self.modname, child, self.isolate,
                                   self.timeout,
                                   os.path.join(self.logdir,
                                                "worker%d.out" % w)))
        p.daemon = True
        p.start()
        child.close()
        self.workers[w] = (p, parent)

    def run(self, cases, progress=None):
        """static sharding; one in-flight case per worker."""
        from multiprocessing.connection import wait
        n = len(cases)
        results = [None] * n
        shards = [list(range(w, n, self.n)) for w in range(self.n)]
        pos = [0] * self.n
        inflight = {}           # w -> (idx, t_start)
        done = 0

        def feed(w):
            if pos[w] < len(shards[w]):
                idx = shards[w][pos[w]]
                pos[w] += 1
                self.workers[w][1].send((idx, cases[idx]))
                inflight[w] = (idx, time.time())

        for w in range(self.n):
            feed(w)
        while inflight:
            conns = {self.workers[w][1]: w for w in inflight}
            ready = wait(list(conns), timeout=1.0)
            now = time.time()
            for c in ready:
                w = conns[c]
                idx, t0 = inflight[w]
                try:
                    ridx, res = c.recv()
                    assert ridx == idx
                except (EOFError, OSError, AssertionError):
                    # worker died (only possible without fork isolation)
                    self.workers[w][0].join(1)
                    res = {"viol": [], "outcome": "INTERPRETER_TERMINATED",
                           "fp": "INTERPRETER_TERMINATED", "trans": 1,
                           "metrics": {}, "nontrivial": True, "wall": 0.0,
                           "died": "worker ended, exitcode %r" %
                                   self.workers[w][0].exitcode}
                    self._start(w)
                results[idx] = res
                del inflight[w]
                done += 1
                if progress:
                    progress(done, n)
                feed(w)
            if self.isolate != "fork":
                for w, (idx, t0) in list(inflight.items()):
                    to = cases[idx].get("_timeout", self.timeout)
                    if now - t0 > to + 5:
                        p = self.workers[w][0]
                        p.kill()
                        p.join(1)
                        results[idx] = {
                            "viol": [], "outcome": "HANG", "fp": "HANG",
                            "trans": 1, "metrics": {}, "nontrivial": True,
                            "wall": now - t0, "died": "timeout"}
                        del inflight[w]
                        done += 1
                        self._start(w)
                        feed(w)
        return results

    def close(self):
        for p, c in self.workers:
            try:
                c.send(None)
            except Exception:
                pass
        for p, c in self.workers:
            p.join(2)
            if p.is_alive():
                p.kill()


# --------------------------------------------------------------------------
# known findings
# --------------------------------------------------------------------------
def load_known():
    if not os.path.exists(KNOWN_FILE):
        return []
    with open(KNOWN_FILE) as f:
        return json.load(f).get("findings", [])


def match_known(known, prop, check, case_id):
    for k in known:
        if k.get("status") != "known":
            continue
        if k.get("property") != prop:
            continue
        if k.get("check") != check:
            continue
        if k.get("case") == case_id:
            return k
    return None


# --------------------------------------------------------------------------
# JSON helper
# --------------------------------------------------------------------------
def jsonable(o):
    import numpy as np
    if isinstance(o, dict):
        return {str(k): jsonable(v) for k, v in o.items()}
    if isinstance(o, (list, tuple, set)):
        return [jsonable(v) for v in o]
    if isinstance(o, (np.integer,)):
        return int(o)
    if isinstance(o, (np.floating,)):
        return repr(float(o))
    if isinstance(o, float):
        if o != o or o in (float("inf"), float("-inf")):
            return repr(o)
        return o
    if isinstance(o, complex) or isinstance(o, np.complexfloating):
        return repr(complex(o))
    if isinstance(o, np.ndarray):
        return jsonable(o.tolist())
    if isinstance(o, (str, int, bool)) or o is None:
        return o
    return repr(o)


# --------------------------------------------------------------------------
# main driver (runs inside /venv python with PYTHONPATH=<stage>)
# --------------------------------------------------------------------------
def drive(prop, tier, seed, stage_dir, only_case=None, nworkers=None):
    t_start = time.time()
    modname = "props." + prop.lower()
    mod = importlib.import_module(modname)
    isolate = getattr(mod, "ISOLATE", "fork")
    timeout = getattr(mod, "TIMEOUT", 120)
    cases = mod.cases(tier, seed)
    ids = [c["id"] for c in cases]
    assert len(set(ids)) == len(ids), "duplicate case ids in %s" % prop
    if only_case is not None:
        cases = [c for c in cases if c["id"] == only_case]
    if not cases:
        print("no cases", file=sys.stderr)
        return 2
    nworkers = nworkers or int(os.environ.get("VERIF_WORKERS", "0")) or \
        min(16, os.cpu_count() or 4)
    nworkers = max(1, min(nworkers, len(cases)))
    logdir = os.path.join(stage_dir, "logs")
    os.makedirs(logdir, exist_ok=True)

    def prog(done, n):
        if done % max(1, n // 10) == 0:
            print("  [%s %s] %d/%d cases  %.0fs" %
                  (prop, tier, done, n, time.time() - t_start),
                  file=sys.stderr)

    pool = Pool(modname, nworkers, isolate, timeout, logdir)
    try:
        results = pool.run(cases, prog)
        npairs = 0
        pair_alpha = []
        cases0, results0 = cases, results
        # cross-case histories: thorough tier (VERIF_PAIRS=1 forces them
        # in the quick tier, too)
        if only_case is None and isolate == "fork" and \
                getattr(mod, "PAIR_HISTORY", True) and \
                not os.environ.get("VERIF_NO_PAIRS") and \
                (tier != "quick" or os.environ.get("VERIF_PAIRS")):
            pair_alpha = _pair_alphabet(cases, results, tier, nworkers,
                                        getattr(mod, "PAIR_HISTORY", True))
            pcases = [{"id": "pair:%s=>%s" % (a["id"], b["id"]),
                       "kind": "pair-history", "_pair": [a, b],
                       "_timeout": 900}
                      for a in pair_alpha for b in pair_alpha]
            if pcases:
                presults = pool.run(pcases, prog)
                cases = cases + pcases
                results = results + presults
                npairs = len(pcases)
        # ---- decide ------------------------------------------------------
        died_is_violation = getattr(mod, "DEATH_IS_VIOLATION", True)
        raw = []       # (case index, violation dict)
        for i, (c, r) in enumerate(zip(cases, results)):
            if r.get("outcome") in ("INTERPRETER_TERMINATED", "HANG") \
                    and died_is_violation:
                r["viol"] = list(r["viol"]) + [{
                    "check": "no-abort" if r["outcome"] != "HANG"
                    else "no-hang",
                    "msg": "%s: %s" % (r["outcome"], r.get("died"))}]
            for v in r["viol"]:
                raw.append((i, v))
        # ---- confirm (fresh process, same verdict) -----------------------
        confirmed = []
        nondeterministic = []
        to_confirm = sorted({i for i, _ in raw})
        cap = int(os.environ.get("VERIF_CONFIRM_CAP", "40"))
        confirm_idx = to_confirm[:cap]
        if confirm_idx:
            cres = pool.run([cases[i] for i in confirm_idx])
            for i, r2 in zip(confirm_idx, cres):
                if r2.get("outcome") in ("INTERPRETER_TERMINATED", "HANG") \
                        and died_is_violation:
                    r2["viol"] = list(r2["viol"]) + [{
                        "check": "no-abort" if r2["outcome"] != "HANG"
                        else "no-hang", "msg": r2["outcome"]}]
                a = sorted(v["check"] for v in results[i]["viol"])
                b = sorted(v["check"] for v in r2["viol"])
                if a != b:
                    nondeterministic.append((cases[i]["id"], a, b))
        for i, v in raw:
            confirmed.append((i, v))
    finally:
        pool.close()

    if nondeterministic and isolate == "fork":
        for cid, a, b in nondeterministic[:10]:
            print("NONDETERMINISM case=%s first=%s second=%s" % (cid, a, b),
                  file=sys.stderr)
        print("harness error: verdicts not reproducible", file=sys.stderr)
        return 2

    known = load_known()
    viols, knowns = [], []
    for i, v in confirmed:
        k = match_known(known, prop, v["check"], cases[i]["id"])
        (knowns if k else viols).append((i, v, k))

    # ---- replay files ----------------------------------------------------
    rdir = os.path.join(VERIF, "replays", prop)
    lines = []
    by_case = {}
    for i, v, _ in viols:
        by_case.setdefault(i, []).append(v)
    if by_case:
        os.makedirs(rdir, exist_ok=True)
    for i in sorted(by_case):
        c = cases[i]
        h = hashlib.sha1(c["id"].encode()).hexdigest()[:12]
        path = os.path.join(rdir, "%s_%s.json" % (prop, h))
        with open(path, "w") as f:
            json.dump(jsonable({"property": prop, "tier": tier,
                                "case": c, "violations": by_case[i]}),
                      f, indent=1)
        lines.append((path, c, by_case[i]))

    # ---- evidence --------------------------------------------------------
    fps = set()
    nontriv_fps = set()
    trans = 0
    metrics = {}
    metrics_at = {}
    outcomes = {}
    for c, r in zip(cases, results):
        trans += int(r.get("trans", 1))
        fp = r.get("fp")
        fps.add(fp if fp is not None else c["id"])
        if r.get("nontrivial", True):
            nontriv_fps.add(fp if fp is not None else c["id"])
        outcomes[r["outcome"]] = outcomes.get(r["outcome"], 0) + 1
        for k, val in r.get("metrics", {}).items():
            try:
                val = float(val)
            except (TypeError, ValueError):
                continue
            if val != val:
                continue
            if k not in metrics or val > metrics[k]:
                metrics[k] = val
                metrics_at[k] = c["id"]
    cov = {
        "states": len(cases),
        "transitions": trans,
        "traces_validated_against_impl": len(cases) - outcomes.get(
            "exception", 0),
        "evaluations": len(cases),
        "distinct_nontrivial": len(nontriv_fps),
        "distinct_observed_outcomes": len(fps),
        "rule": getattr(mod, "RULE", ""),
        "samples": [jsonable({k: v for k, v in c.items()
                              if not k.startswith("_")})
                    for c in _pick_samples(cases)],
        "exhaustive": bool(getattr(mod, "EXHAUSTIVE", True)),
        "outcome_classes": outcomes,
        "max_observed": {k: float("%.3e" % v) for k, v in
                         sorted(metrics.items())},
        "max_observed_at": {k: metrics_at[k] for k in sorted(metrics_at)},
        "tolerances": getattr(mod, "TOLERANCES", {}),
        "known_findings_matched": sorted({(k["id"] if "id" in k else
                                           k["case"]) for _, _, k in knowns}),
        "workers": nworkers,
        "isolation": isolate,
        "pair_histories": npairs,
        "pair_history_alphabet": [c["id"] for c in pair_alpha],
        "pair_history_rule": "every ordered pair (A, B), A = B included, of "
        "the listed cases in one interpreter: each assertion of B that holds "
        "in a pristine interpreter must hold after A%s" % (
            "; the observed values must be identical, too"
            if getattr(mod, "PAIR_FP_STRICT", False) else ""),
        "confirm_reruns": len(to_confirm[:cap]) if raw else 0,
        "slowest_cases": [[c["id"], round(r.get("wall", 0.0), 2)] for c, r in
                          sorted(zip(cases, results),
                                 key=lambda t: -t[1].get("wall", 0.0))[:5]],
        "cpu_s_total": round(sum(r.get("wall", 0.0) for r in results), 1),
    }
    if hasattr(mod, "coverage_extra"):
        try:
            cov.update(jsonable(mod.coverage_extra(cases0, results0)))
        except Exception as e:
            cov["coverage_extra_error"] = repr(e)
    ev = {
        "property_id": prop,
        "tier": tier,
        "seed": int(seed),
        "level": "model_checking",
        "coverage": cov,
        "assumptions": list(getattr(mod, "ASSUMPTIONS", [])),
        "wall_s": round(time.time() - t_start, 2),
        "violations": len(by_case),
    }
    if only_case is None and not os.environ.get("VERIF_NO_EVIDENCE"):
        os.makedirs(os.path.join(VERIF, "evidence"), exist_ok=True)
        evpath = os.path.join(VERIF, "evidence", prop + ".json")
        tmp = evpath + ".tmp%d" % os.getpid()
        with open(tmp, "w") as f:
            json.dump(jsonable(ev), f, indent=1)
        os.replace(tmp, evpath)
        _validate_evidence(evpath)

    # ---- report ----------------------------------------------------------
    seenk = set()
    for i, v, k in knowns:
        key = (k.get("check"), k.get("case"))
        if key in seenk:
            continue
        seenk.add(key)
        print("KNOWN-FINDING: property=%s %s [case %s]" %
              (prop, k.get("what", v.get("msg", "")), cases[i]["id"]))
    for path, c, vs in lines:
        for v in vs[:3]:
            print("  violation case=%s check=%s: %s" %
                  (c["id"], v["check"], str(v.get("msg"))[:300]))
        print("VIOLATION property=%s replay=%s" % (prop, path))
    print("%s %s: %d cases, %d transitions, %d distinct outcomes, "
          "%d violating cases, %d known, %.1fs" %
          (prop, tier, len(cases), trans, len(fps), len(by_case),
           len(seenk), time.time() - t_start))
    return 1 if by_case else 0


def _pair_alphabet(cases, results, tier, nworkers, cfg):
    """Operations of the cross-case history layer: cases that ran to a normal
    end, one per kind first (kind = id up to the first ':'), then further
    ones spread over each kind, as many as fit a CPU budget (every ordered
    pair, including a case after itself, costs about wall(A) + 2 wall(B))."""
    budget = (20.0 if tier == "quick" else 150.0) * nworkers
    kmax = 12 if tier == "quick" else 30
    if isinstance(cfg, dict):
        budget = cfg.get("budget_" + tier, budget / nworkers) * nworkers
        kmax = cfg.get("k_" + tier, kmax)
    cap = 2.0 if tier == "quick" else 10.0
    groups = {}
    for c, r in zip(cases, results):
        if r.get("outcome") in ("INTERPRETER_TERMINATED", "HANG",
                                "exception"):
            continue
        if r.get("wall", 0.0) > cap or "_pair" in c:
            continue
        groups.setdefault(c["id"].split(":")[0], []).append((c, r["wall"]))
    order = []
    rank = 0
    while len(order) < kmax and groups:
        progressed = False
        for g in sorted(groups):
            lst = groups[g]
            # positions 0, last, middle, quartiles ... of each kind
            picks = [0, len(lst) - 1, len(lst) // 2, len(lst) // 4,
                     3 * len(lst) // 4, len(lst) // 8, 7 * len(lst) // 8]
            seen = []
            for p in picks:
                if p not in seen:
                    seen.append(p)
            if rank < len(seen):
                order.append(lst[seen[rank]])
                progressed = True
        rank += 1
        if not progressed:
            break
    # drop duplicates, keep order
    sel, ids = [], set()
    for c, w in order:
        if c["id"] not in ids:
            ids.add(c["id"])
            sel.append((c, w))
    sel = sel[:kmax]
    while len(sel) > 1 and 3.0 * len(sel) * sum(w for _, w in sel) > budget:
        # too expensive: drop the slowest
        sel.remove(max(sel, key=lambda t: t[1]))
    return [c for c, _ in sel]


def _pick_samples(cases, k=5):
    if len(cases) <= k:
        return cases
    step = (len(cases) - 1) / float(k - 1)
    return [cases[int(round(j * step))] for j in range(k)]


def _validate_evidence(path):
    try:
        import jsonschema
    except ImportError:
        return
    sch = "/root/.vp/EVIDENCE.schema.json"
    if not os.path.exists(sch):
        return
    with open(sch) as f:
        schema = json.load(f)
    with open(path) as f:
        jsonschema.validate(json.load(f), schema)
